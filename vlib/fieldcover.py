"""C02, per-field / per-model import derivation against the text the same objects render.

`DataModelField.imports` (model/pydantic/base_model.py, pydantic_v2, dataclass.py, msgspec.py,
typed_dict.py) and `DataModel.imports` (model/base.py: the fields' imports + the model's own) are
computed separately from `DataModelField.__str__` / `.field` / `.annotated` / `.type_hint` and from
the class template.  Here seeded fields are built directly on the REAL classes (data types from the
kind's own DataTypeManager — so `constr(...)`, `conint(...)`, `AnyUrl`, `date`, … — plus containers,
unions, literals and a reference to a second class), one model is rendered, and every name the
rendered class text reads must be bound by `Imports().append(model.imports)`, be a builtin, or be a
class the fields refer to.  The Lean model `Model.FieldText` is compared on the pydantic v2 fields
(`str(field)` shape, `Field` / `Annotated` in `.imports`)."""
from __future__ import annotations

import ast
import json
from typing import Any

from . import classscope as cs
from . import fieldstate
from .common import Rng

KINDS = ["pydantic.BaseModel", "pydantic_v2.BaseModel", "dataclasses.dataclass", "typing.TypedDict", "msgspec.Struct"]
SCALARS = ["integer", "number", "string", "boolean", "date", "date_time", "time", "uuid", "uri", "decimal", "email", "ipv4", "byte", "binary", "any", "null", "object", "array", "password", "path",
           "timedelta", "hostname"]
STRING_KW = [{}, {}, {"minLength": 1}, {"maxLength": 5}, {"pattern": "^a+$"}, {"minLength": 1, "maxLength": 3}]
NUMBER_KW = [{}, {}, {"minimum": 0}, {"maximum": 10}, {"exclusiveMinimum": 0}, {"exclusiveMaximum": 9}, {"multipleOf": 2}, {"minimum": 1, "maximum": 5}]
DEFAULTS = [None, None, 1, 0, "d", "", True, False, 1.5, [], ["a"], {}, {"k": 1}]
EXTRAS = [{}, {}, {}, {"description": "text"}, {"title": "T"}, {"examples": [1]}, {"example": 1}, {"description": "d", "title": "t"}, {"xfoo": 1}, {"deprecated": True}, {"readOnly": True},
          {"default_factory": "list"}]
ITEM_KW = [{}, {}, {"minItems": 1}, {"maxItems": 3}, {"uniqueItems": True}]


def _mgr(kind: str, o: dict):
    from datamodel_code_generator import DataModelType
    from datamodel_code_generator.format import PythonVersion
    from datamodel_code_generator.model import get_data_model_types
    from datamodel_code_generator.types import StrictTypes

    s = get_data_model_types(DataModelType(kind), PythonVersion.PY_312)
    mgr = s.data_type_manager(python_version=PythonVersion.PY_312, use_standard_collections=o["std"], use_generic_container_types=o["generic"],
                              strict_types=[StrictTypes(x) for x in o["strict"]], use_union_operator=o["union_op"])
    return s, mgr


def random_spec(rng: Rng, kind: str) -> dict:
    """JSON-able description of one model: options and 1–4 fields"""
    o = {"std": rng.chance(1, 4), "generic": rng.chance(1, 5), "union_op": rng.chance(1, 4), "strict": rng.choice([[], [], [], ["str"], ["int", "bool"], ["str", "bytes", "int", "float", "bool"]]),
         "field_constraints": rng.chance(1, 3)}
    o["use_annotated"] = o["field_constraints"] and rng.chance(1, 2)
    o["use_default_kwarg"] = rng.chance(1, 5)
    o["use_field_description"] = rng.chance(1, 6)
    o["strip_default_none"] = rng.chance(1, 6)
    fields = []
    for i in range(rng.range(1, 4)):
        fields.append(random_field(rng, i))
    return {"kind": kind, "opts": o, "fields": fields}


def random_type(rng: Rng, depth: int = 0) -> dict:
    k = rng.below(14)
    if depth >= 2 or k < 6:
        t = rng.choice(SCALARS)
        kw = rng.choice(STRING_KW) if t == "string" else rng.choice(NUMBER_KW) if t in ("integer", "number", "decimal") else {}
        return {"t": "scalar", "type": t, "kw": kw}
    if k == 6:
        return {"t": "ref", "name": rng.choice(["Pet", "Kind"])}
    if k == 7:
        return {"t": "literal", "values": rng.choice([["a"], ["a", "b"], [1, 2], ["x", 1]])}
    if k in (8, 9):
        return {"t": "list", "set": rng.chance(1, 4), "item": random_type(rng, depth + 1), "kw": rng.choice(ITEM_KW)}
    if k == 10:
        return {"t": "dict", "value": random_type(rng, depth + 1)}
    if k in (11, 12):
        return {"t": "union", "alts": [random_type(rng, depth + 1) for _ in range(rng.range(2, 3))]}
    return {"t": "optional", "inner": random_type(rng, depth + 1)}


def random_field(rng: Rng, i: int) -> dict:
    ty = random_type(rng)
    required = rng.chance(1, 2)
    f: dict[str, Any] = {"name": rng.choice(["a", "b", "name", "value", "items", "tags"]) + str(i), "type": ty, "required": required, "nullable": rng.choice([None, None, None, True, False]),
                         "default": None if required else rng.choice(DEFAULTS), "alias": rng.choice([None, None, None, "x-y", "class"]), "extras": dict(rng.choice(EXTRAS)),
                         "type_has_null": rng.choice([None, None, True, False]), "const": rng.chance(1, 12)}
    if f["const"]:
        f["extras"]["const"] = rng.choice(["k", 1])
    f["has_default"] = f["default"] is not None
    return f


def constraint_dict(ty: dict) -> dict | None:
    """the JSON-Schema constraint keys of the field's top type (what the parser hands over as `constraints`)"""
    if ty["t"] == "scalar" and ty["kw"]:
        return dict(ty["kw"])
    if ty["t"] == "list" and ty["kw"]:
        return dict(ty["kw"])
    if ty["t"] == "optional":
        return constraint_dict(ty["inner"])
    return None


def build_type(mgr, ty: dict, o: dict, refs: dict):
    from datamodel_code_generator.types import Types

    fc = o["field_constraints"]
    if ty["t"] == "scalar":
        kw = {} if fc else dict(ty["kw"])
        return mgr.get_data_type(Types[ty["type"]], **kw)
    if ty["t"] == "ref":
        return mgr.data_type(reference=refs[ty["name"]])
    if ty["t"] == "literal":
        return mgr.data_type(literals=list(ty["values"]))
    if ty["t"] == "list":
        return mgr.data_type(data_types=[build_type(mgr, ty["item"], o, refs)], is_list=not ty["set"], is_set=ty["set"])
    if ty["t"] == "dict":
        return mgr.data_type(data_types=[build_type(mgr, ty["value"], o, refs)], is_dict=True)
    if ty["t"] == "union":
        return mgr.data_type(data_types=[build_type(mgr, a, o, refs) for a in ty["alts"]])
    d = build_type(mgr, ty["inner"], o, refs)
    d.is_optional = True
    return d


def build_model(spec: dict):
    """(model object, [field objects], names of the classes the fields refer to)"""
    from datamodel_code_generator.reference import Reference

    s, mgr = _mgr(spec["kind"], spec["opts"])
    o = spec["opts"]
    refs = {n: Reference(path=f"#/definitions/{n}", original_name=n, name=n) for n in ("Pet", "Kind")}
    fields = []
    for f in spec["fields"]:
        dt = build_type(mgr, f["type"], o, refs)
        cons = constraint_dict(f["type"]) if o["field_constraints"] else None
        fields.append(s.field_model(name=f["name"], default=f["default"], data_type=dt, required=f["required"], alias=f["alias"], constraints=cons, nullable=f["nullable"],
                                    strip_default_none=o["strip_default_none"], extras=dict(f["extras"]), use_annotated=o["use_annotated"],
                                    use_field_description=o["use_field_description"], use_default_kwarg=o["use_default_kwarg"], original_name=f["name"],
                                    has_default=f["has_default"], type_has_null=f["type_has_null"]))
    model = s.data_model(reference=Reference(path="#/definitions/M", original_name="M", name="M"), fields=fields)
    return model, fields, set(refs)


def bound_names(imports) -> set[str]:
    """names the import block binds for these Import objects (through the real Imports class)"""
    from datamodel_code_generator.imports import Imports

    im = Imports()
    im.append(imports)
    text = im.dump()
    out: set[str] = set()
    for s in ast.parse(text).body:
        out.update(cs.bound_by(s))
    return out


def used_names(class_text: str) -> list[tuple[str, str]]:
    """(name, where) for every name the rendered class statement(s) read: header eagerly, members'
    annotations and values, bodies of lambdas"""
    out: list[tuple[str, str]] = []
    tree = ast.parse(class_text)
    for s in tree.body:
        if isinstance(s, ast.ClassDef):
            for d in s.decorator_list:
                out += [(n, "decorator") for n in cs.names_in(d)]
            for b in s.bases:
                out += [(n, "base") for n in cs.annotation_names(b)]
            for k in s.keywords:
                out += [(n, "class_keyword") for n in cs.names_in(k.value)]
            local: set[str] = set()
            for b in s.body:
                if isinstance(b, ast.AnnAssign):
                    out += [(n, "annotation") for n in cs.annotation_names(b.annotation)]
                    if b.value is not None:
                        out += [(n, "value") for n in cs.names_in(b.value) if n not in local]
                        if isinstance(b.target, ast.Name):
                            local.add(b.target.id)
                elif isinstance(b, ast.Assign):
                    out += [(n, "value") for n in cs.names_in(b.value) if n not in local]
                    local.update(t.id for t in b.targets if isinstance(t, ast.Name))
                elif isinstance(b, ast.ClassDef):
                    for x in ast.walk(b):
                        if isinstance(x, ast.Name) and isinstance(x.ctx, ast.Load):
                            out.append((x.id, "nested_class"))
                    local.add(b.name)
        elif isinstance(s, (ast.Assign, ast.AnnAssign)) and s.value is not None:
            out += [(n, "alias_rhs") for n in cs.annotation_names(s.value)]
    return out


def opts_key(o: dict) -> str:
    return "generic+standard_collections" if o["generic"] and o["std"] else "any"


def field_shape(text: str) -> str:
    if not text:
        return "empty"
    if text == "Field(...)":
        return "ellipsis_only"
    if text.startswith("Field(...,"):
        return "required_call"
    if text.startswith("Field(default_factory="):
        return "factory_call"
    if text.startswith("Field(default="):
        return "default_kwarg_call"
    return "default_call" if text.startswith("Field(") else "other"


def campaign(ck, n: int) -> None:
    camp = ck.campaign("field/model imports vs rendered text: seeded fields on the real DataModelField / DataModel classes of all five kinds; every name the rendered class reads is bound "
                       "by Imports(model.imports), a builtin or a referenced class; pydantic v2: Model.FieldText (str shape, Field/Annotated in .imports) vs the real field")
    import time

    t0 = time.time()
    rng = ck.rng.fork("fieldcover")
    v2_cases = []
    all_cases = []
    for i in range(n):
        kind = KINDS[i % 5]
        spec = random_spec(rng, kind)
        camp.evaluations += 1
        camp.hit("kind:" + kind)
        try:
            model, fields, refnames = build_model(spec)
            text = model.render()
            bound = bound_names(model.imports)
        except Exception as e:  # noqa: BLE001  (a field the real classes refuse: not a generated shape)
            camp.unmodelled += 1
            camp.hit("real_raises:" + type(e).__name__)
            continue
        try:
            uses = used_names(text)
        except SyntaxError:
            camp.hit("unparsable(C01)")
            continue
        camp.distinct.add(json.dumps(spec, sort_keys=True, default=str))
        for o, v in spec["opts"].items():
            if v:
                camp.hit("opt:" + o)
        ok = True
        reported = set()
        for name, where in uses:
            if name in bound or name in cs.BUILTINS or name in refnames or name == "M":
                camp.hit("use:" + where)
                continue
            ok = False
            if name in reported:
                continue
            reported.add(name)
            ck.fail({"oracle": "module_binding", "mechanism": "missing_import", "name": name, "name_class": "typing_name" if name in TYPING else "other", "use": "field_text:" + where,
                     "kind": kind, "seen": "static(model.render vs model.imports)", "opts_key": opts_key(spec["opts"]), "keep_model_order": False, "alias_pass": False,
                     "text_context": "wraps_annotated" if f"{name}[Annotated[" in text else "plain"},
                    {"field_spec": spec, "rendered": text, "imports": sorted(bound)}, f"the rendered class reads {name!r} ({where}); Imports(model.imports) binds {sorted(bound)}")
        camp.hit("covered" if ok else "not_covered")
        if ok and len(camp.samples) < 2 and len(text) > 120:
            camp.samples.append({"kind": kind, "rendered": text[:400], "bound_by_imports": sorted(bound)})
        for f, fs in zip(fields, spec["fields"]):
            all_cases.append((spec, fs, f, text))
            if kind in ("pydantic_v2.BaseModel", "pydantic.BaseModel"):
                v2_cases.append((spec, fs, f, text))
    tie_v2(ck, camp, v2_cases)
    all_cases += directed_cases(camp)
    fieldstate.tie(ck, camp, all_cases)
    camp.wall_s = time.time() - t0


def directed_cases(camp) -> list:
    """default factories: `extras["default_factory"]` x required x use_annotated on every kind that writes it, and a default for a
    member whose type is a model class of the module (the lambda `_get_default_as_pydantic_model` / `_get_default_as_struct_model` builds)"""
    from datamodel_code_generator.reference import Reference

    out = []
    base_o = {"std": False, "generic": False, "union_op": False, "strict": [], "field_constraints": False, "use_annotated": False, "use_default_kwarg": False,
              "use_field_description": False, "strip_default_none": False}
    for kind in ("pydantic.BaseModel", "pydantic_v2.BaseModel", "dataclasses.dataclass", "msgspec.Struct"):
        for ua in (False, True):
            for required in (False, True):
                for shape in ("extras_list", "extras_dict_alias", "model_default", "model_list_default", "meta_not_nullable", "plain_list_default"):
                    o = dict(base_o, use_annotated=ua, field_constraints=ua)
                    spec = {"kind": kind, "opts": o, "fields": []}
                    try:
                        s, mgr = _mgr(kind, o)
                        ref = Reference(path="#/definitions/Pet", original_name="Pet", name="Pet")
                        s.data_model(reference=ref, fields=[])  # gives the reference its source: a model class of this kind
                        kw = {"name": "m", "required": required, "use_annotated": ua, "original_name": "m", "extras": {}, "default": None, "nullable": None}
                        if shape == "extras_list":
                            kw.update(data_type=mgr.data_type(data_types=[mgr.data_type(type="str")], is_list=True), extras={"default_factory": "list"})
                        elif shape == "extras_dict_alias":
                            kw.update(data_type=mgr.data_type(data_types=[mgr.data_type(type="int")], is_dict=True), extras={"default_factory": "dict", "description": "d"}, alias="x-y")
                        elif shape == "model_default":
                            kw.update(data_type=mgr.data_type(reference=ref), default={"name": "n"}, extras={"description": "d"})
                        elif shape == "model_list_default":
                            kw.update(data_type=mgr.data_type(data_types=[mgr.data_type(reference=ref)], is_list=True), default=[{"name": "n"}])
                        elif shape == "meta_not_nullable":
                            kw.update(data_type=mgr.data_type(type="str"), default="x", extras={"description": "d"}, nullable=False)
                        else:
                            kw.update(data_type=mgr.data_type(data_types=[mgr.data_type(type="str")], is_list=True), default=["a"])
                        kw["has_default"] = kw["default"] is not None
                        f = s.field_model(**kw)
                        model = s.data_model(reference=Reference(path="#/definitions/M", original_name="M", name="M"), fields=[f])
                        text = model.render()
                    except Exception as e:  # noqa: BLE001
                        camp.hit("directed:real_raises:" + type(e).__name__)
                        continue
                    camp.hit("directed:" + shape)
                    fs = {"name": "m", "directed": shape, "required": required}
                    out.append((spec, fs, f, text))
    return out


TYPING = {"Optional", "Union", "Literal", "List", "Set", "Dict", "Sequence", "FrozenSet", "Mapping", "Any", "Annotated"}


def member_uses(class_text: str, member: str) -> tuple[bool, bool]:
    """(reads Field, reads Annotated) — in the rendered statement of `member`, outside its type hint:
    the value, and the annotation when it is `Annotated[...]`"""
    for s in ast.parse(class_text).body:
        if not isinstance(s, ast.ClassDef):
            continue
        for b in s.body:
            if isinstance(b, ast.AnnAssign) and isinstance(b.target, ast.Name) and b.target.id == member:
                names = set(cs.names_in(b.value)) if b.value is not None else set()
                if isinstance(b.annotation, ast.Subscript) and isinstance(b.annotation.value, ast.Name) and b.annotation.value.id == "Annotated":
                    elts = b.annotation.slice.elts if isinstance(b.annotation.slice, ast.Tuple) else [b.annotation.slice]
                    names.add("Annotated")
                    for e in elts[1:]:
                        names.update(cs.names_in(e))
                return "Field" in names, "Annotated" in names
    return False, False


def tie_v2(ck, camp, cases) -> None:
    """Model.FieldText against the real pydantic (v1-style and v2) field: given three facts about
    `str(field)` and two options, the model's `.field`, `.annotated`, library imports and template
    branch must be the real ones (the last read off the rendered class text)."""
    reqs, real = [], []
    for spec, fs, f, text in cases:
        s = str(f)
        vec = (s == "", s.startswith("Field(..."), s.startswith("Field(default_factory="), bool(f.use_annotated), bool(f.use_default_kwarg))
        reqs.append("fieldtext.v2 " + " ".join("1" if x else "0" for x in vec))
        names = {i.alias or i.import_ for i in f.imports}
        fld = f.field
        shape = "none" if fld is None else "str" if fld == s else "default_kwarg" if fld == s.replace("Field(", "Field(default=") else "other"
        uf, ua = member_uses(text, f.name)
        real.append((shape, f.annotated is not None, "Field" in names, "Annotated" in names, uf, ua))
    reps = ck.driver.run(reqs) if reqs else []
    for (spec, fs, f, text), rep, r in zip(cases, reps, real):
        camp.evaluations += 1
        if not rep.startswith("ok "):
            ck.infra_errors.append(f"driver reply {rep[:80]!r} for fieldtext.v2")
            continue
        p = rep.split()
        m = (p[1], p[2] == "1", p[3] == "1", p[4] == "1", p[5] == "1", p[6] == "1")
        camp.hit(f"fieldtext:{spec['kind'].split('.')[0]}:field={r[0]}:annotated={int(r[1])}")
        if m != r:
            ck.disagree(camp, {"field": fs, "opts": spec["opts"], "kind": spec["kind"], "str": str(f), "rendered": text}, m, r)
