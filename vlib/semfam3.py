"""Family generator for C03 (new shared file): an INHERITED member that a subclass re-declares as required ONLY
through its own `required` list, where the member's type is a NESTED structure.

`_parse_object_common_part` (parser/jsonschema.py) turns a name of `required` (next to `allOf`) that the class does
not declare itself into a placeholder field; `Parser.__override_required_field` (parser/base.py) replaces it by a
copy of the base's field, whose data type tree is copied by `_copy_data_types`. The child's member must accept
exactly what the base's member accepts, apart from being required.

Strata (enumerated systematically, `len(SHAPES) * len(LEAVES)` consecutive members cover all pairs):

* SHAPES  — the container the base declares: array / additionalProperties map / array of arrays / array of maps /
            map of arrays / a union with a container alternative / a union of plain alternatives behind an array
* LEAVES  — what stands at the innermost place: a nullable type list, `anyOf [T, null]`, a nullable type list with
            bounds, a bounded scalar, a `$ref` to an object definition, `anyOf [$ref, null]`, a `$ref` to a
            nullable scalar definition
* depth   — the child extends the declaring class directly, or through an intermediate class (which may itself
            re-declare the member)
* the member is optional or already required in the base; the child has or has not members of its own

The candidate instances carry `null` / boundary values / objects AT THE NESTED PLACE, for the base class and for
the child (whose instance also carries every re-declared member). Validity labels come from jsonschema.
"""
from __future__ import annotations

import copy
from typing import Any

from . import semgen
from .common import Rng
from .semgen import PLAIN_NAMES, DocGen, GenCfg

SHAPES = ("array", "map", "array2", "array_map", "map_array", "union_container", "array_union")
LEAVES = ("tl_null", "anyof_null", "tl_null_bounded", "bounded", "ref", "anyof_ref_null", "ref_nullable_def")
R = "#/definitions/"


def leaf_schema(g: DocGen, leaf: str) -> dict:
    r = g.rng
    t = r.choice(["string", "integer", "number", "boolean"])
    if leaf == "tl_null":
        return {"type": [t, "null"] if r.chance(2, 3) else ["null", t]}
    if leaf == "anyof_null":
        alts = [{"type": t}, {"type": "null"}]
        return {"anyOf": alts if r.chance(2, 3) else alts[::-1]}
    if leaf == "tl_null_bounded":
        s = g.integer(True) if r.chance(1, 2) else g.string(True)
        return s
    if leaf == "bounded":
        s = g.integer(False) if r.chance(1, 2) else g.string(False)
        if len(s) == 1:
            s["minimum" if s["type"] == "integer" else "minLength"] = 1
        return s
    if leaf in ("ref", "anyof_ref_null"):
        name = g.fresh_def(r.choice(["Part", "Point", "Entry", "Tag"]))
        ms = r.sample(["x", "y", "label", "n"], 2)
        g.defs[name] = {"type": "object", "properties": {ms[0]: {"type": "integer"}, ms[1]: {"type": ["string", "null"]}}, "required": ms[:1]}
        ref = {"$ref": R + name}
        return ref if leaf == "ref" else {"anyOf": [ref, {"type": "null"}]}
    name = g.fresh_def(r.choice(["Maybe", "Slot", "Opt"]))
    g.defs[name] = {"type": [t, "null"]}
    return {"$ref": R + name}


def shape_schema(g: DocGen, shape: str, leaf: dict) -> dict:
    r = g.rng
    arr = lambda s: {"type": "array", "items": s}  # noqa: E731
    mp = lambda s: {"type": "object", "additionalProperties": s}  # noqa: E731
    if shape == "array":
        s = arr(leaf)
        if r.chance(1, 4):
            s["minItems"] = r.range(0, 1)
        return s
    if shape == "map":
        return mp(leaf)
    if shape == "array2":
        return arr(arr(leaf))
    if shape == "array_map":
        return arr(mp(leaf))
    if shape == "map_array":
        return mp(arr(leaf))
    if shape == "union_container":
        alts = [arr(leaf), {"type": "boolean"}]
        return {r.choice(["anyOf", "oneOf"]): alts if r.chance(1, 2) else alts[::-1]}
    # an array whose items are a union of the leaf and another container
    return arr({"anyOf": [leaf, arr({"type": "boolean"})]})


def wrap(shape: str, xs: list) -> list:
    """values of the member that have the leaf values `xs` at the nested place"""
    a, b = xs[0], xs[-1]
    c = copy.deepcopy
    if shape == "array":
        return [[c(x) for x in xs], [c(a)], []]
    if shape == "map":
        return [{f"k{i}": c(x) for i, x in enumerate(xs)}, {"kq": c(b)}, {}]
    if shape == "array2":
        return [[[c(x) for x in xs], []], [[c(b)]], []]
    if shape == "array_map":
        return [[{f"k{i}": c(x) for i, x in enumerate(xs)}, {}], [{"kq": c(b)}]]
    if shape == "map_array":
        return [{"kq": [c(x) for x in xs], "zw": []}, {"kq": [c(b)]}]
    if shape == "union_container":
        return [[c(x) for x in xs], [c(b)], True]
    return [[c(x) for x in xs] + [[True, False]], [c(b)], [[]]]


def leaf_values(doc: dict, leaf: dict) -> list:
    """values of the leaf schema: the plain ones first, `null` LAST when the leaf admits it"""
    vs = [v for v in semgen.candidates(doc, leaf, budget=4) if v is not None][:3]
    if semgen.sub_validator(doc, leaf).is_valid(None):
        vs.append(None)
    return vs or [None]


def override_doc(rng: Rng, i: int, plain_names: bool = True) -> tuple[dict, set[str], list]:
    """document i of the family, its features, candidate instances"""
    g = DocGen(rng, GenCfg(max_depth=1, big_bounds=False, alias_names=not plain_names))
    r = g.rng
    feats: set[str] = set()
    n_members = 3
    pool = list(PLAIN_NAMES) + ([] if plain_names else ["kebab-name", "x.y", "with space"])
    names = r.sample(pool, n_members + 3)
    members, others = names[:n_members], names[n_members:]
    props: dict[str, dict] = {}
    kinds: dict[str, tuple[str, str]] = {}
    leaves: dict[str, dict] = {}
    for j, nm in enumerate(members):
        c = ((i * n_members + j) * 10) % (len(SHAPES) * len(LEAVES))  # 10 is coprime with 49: all pairs in 49 members
        shape, leaf = SHAPES[c % len(SHAPES)], LEAVES[c // len(SHAPES)]
        ls = leaf_schema(g, leaf)
        props[nm] = shape_schema(g, shape, ls)
        kinds[nm], leaves[nm] = (shape, leaf), ls
        feats.add(f"override:{shape}")
        feats.add(f"leaf:{leaf}")
    base_cls, mid_cls, child_cls = {0: ("Base", "Middle", "Child"), 1: ("Zebra", "Mango", "Apple"), 2: ("Alpha", "Beta", "Gamma")}[i % 3]
    base: dict[str, Any] = {"type": "object", "properties": {others[0]: g.scalar(), **props}}
    base_req = [m for m in members if r.chance(1, 4)]
    if base_req:
        base["required"] = base_req
        feats.add("base_required")
    defs: dict[str, dict] = {}
    depth = 2 if i % 3 == 2 else 1
    parent = base_cls
    if depth == 2:
        mid: dict[str, Any] = {"allOf": [{"$ref": R + base_cls}, {"type": "object", "properties": {others[1]: g.scalar()}}]}
        if i % 2 == 0:
            mid["required"] = members[:1]  # the intermediate class re-declares one of them itself
            feats.add("intermediate_redeclares")
        defs[mid_cls] = mid
        parent = mid_cls
        feats.add("depth:2")
    else:
        feats.add("depth:1")
    child: dict[str, Any] = {"allOf": [{"$ref": R + parent}]}
    if i % 4 in (1, 2):
        child["allOf"].append({"type": "object", "properties": {others[2]: g.scalar()}})
        feats.add("child_own_members")
    redeclared = members if i % 5 else members[:2]
    child["required"] = list(redeclared)
    defs = {base_cls: base, **defs, child_cls: child, **{k: v for k, v in g.defs.items() if v}}
    order = list(defs)
    if i % 2:
        order = [child_cls] + [k for k in order if k != child_cls]  # the subclass first in the document
    hold_c, hold_b = ("child", "base") if plain_names else ("the-child", "the-base")
    doc = {
        "title": "Model",
        "type": "object",
        "properties": {hold_c: {"$ref": R + child_cls}, hold_b: {"$ref": R + base_cls}, "children": {"type": "array", "items": {"$ref": R + child_cls}}},
        "definitions": {k: defs[k] for k in order},
    }
    # instances: per member the wrapped leaf values; a child instance carries every re-declared member
    vals = {nm: wrap(kinds[nm][0], leaf_values(doc, leaves[nm])) for nm in members}
    req_base = {nm: vals[nm][-1] for nm in base_req}
    insts: list = []
    rounds = max(len(v) for v in vals.values())
    for k in range(rounds):
        ch = {nm: copy.deepcopy(vals[nm][min(k, len(vals[nm]) - 1)]) for nm in set(redeclared) | set(base_req)}
        insts.append({hold_c: ch})
        if k == 0:
            insts.append({"children": [copy.deepcopy(ch), copy.deepcopy(ch)], hold_b: {**copy.deepcopy(req_base), members[-1]: copy.deepcopy(vals[members[-1]][0])}})
    for nm in members:
        insts.append({hold_b: {**copy.deepcopy(req_base), nm: copy.deepcopy(vals[nm][0])}})
    return doc, feats, insts


def has_required_override(doc: Any) -> bool:
    """some schema of the document has `required` next to `allOf` naming a member it does not declare inline"""
    found = False

    def walk(s: Any) -> None:
        nonlocal found
        if isinstance(s, dict):
            if isinstance(s.get("allOf"), list) and isinstance(s.get("required"), list):
                own: set = set(s.get("properties") or {})
                for a in s["allOf"]:
                    if isinstance(a, dict):
                        own |= set(a.get("properties") or {})
                if any(n not in own for n in s["required"]):
                    found = True
            for v in s.values():
                walk(v)
        elif isinstance(s, list):
            for v in s:
                walk(v)

    walk(doc)
    return found
