"""Shared paths, seeded PRNG and small helpers for the /verif machinery."""
from __future__ import annotations

import os
import signal
import contextlib
from pathlib import Path

VERIF = Path(__file__).resolve().parent.parent
REPO = Path(os.environ.get("DCG_REPO", "/repo"))
LEAN = VERIF / "lean"
PY = "/venv/bin/python"
MASK = (1 << 64) - 1


def seed_from_env() -> int:
    try:
        return int(os.environ.get("VERIF_SEED", "0"))
    except ValueError:
        return 0


class Rng:
    """SplitMix64: every random choice of a run derives from VERIF_SEED through this."""

    def __init__(self, seed: int, stream: str = "") -> None:
        s = seed & MASK
        for ch in stream.encode():
            s = ((s ^ ch) * 0x100000001B3) & MASK
        self.s = s

    def next(self) -> int:
        self.s = (self.s + 0x9E3779B97F4A7C15) & MASK
        z = self.s
        z = ((z ^ (z >> 30)) * 0xBF58476D1CE4E5B9) & MASK
        z = ((z ^ (z >> 27)) * 0x94D049BB133111EB) & MASK
        return z ^ (z >> 31)

    def below(self, n: int) -> int:
        return self.next() % n if n > 0 else 0

    def range(self, lo: int, hi: int) -> int:
        return lo + self.below(hi - lo + 1)

    def chance(self, num: int, den: int) -> bool:
        return self.below(den) < num

    def choice(self, seq):
        return seq[self.below(len(seq))]

    def sample(self, seq, k: int):
        pool = list(seq)
        out = []
        for _ in range(min(k, len(pool))):
            out.append(pool.pop(self.below(len(pool))))
        return out

    def shuffle(self, seq) -> list:
        return self.sample(seq, len(seq))

    def fork(self, stream: str) -> "Rng":
        return Rng(self.next(), stream)


class Hang(Exception):
    pass


@contextlib.contextmanager
def watchdog(seconds: float):
    """Interrupt pure-Python non-termination in the main thread (SIGALRM)."""

    def on_alarm(signum, frame):
        raise Hang(f"no result after {seconds}s")

    old = signal.signal(signal.SIGALRM, on_alarm)
    signal.setitimer(signal.ITIMER_REAL, seconds)
    try:
        yield
    finally:
        signal.setitimer(signal.ITIMER_REAL, 0)
        signal.signal(signal.SIGALRM, old)


def hx(s: str) -> str:
    """String -> line-protocol form: 'x' + comma separated hex code points."""
    return "x" + ",".join(format(ord(c), "x") for c in s)


def unhx(t: str) -> str:
    assert t.startswith("x"), t
    body = t[1:]
    if not body:
        return ""
    return "".join(chr(int(p, 16)) for p in body.split(","))
