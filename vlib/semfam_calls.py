"""C04 family: unions of CONSTRAINED-TYPE CALLS whose keyword arguments are partly equal.

Without --field-constraints a constrained scalar is written as a call — `conint(ge=0, le=100, multiple_of=2)`,
`constr(pattern=r'^q', min_length=3, max_length=8)` — and an anyOf / oneOf of such members becomes
`Union[conint(…), conint(…)]`.  When the member is not required (or nullable) the rendered hint goes through the
string surgery of `types.get_optional_type` / `_remove_none_from_union`, which splits at every comma outside SQUARE
brackets: the keyword arguments of the calls are separate parts there.  Every member's every keyword must survive.

One description (`CallUnion`) gives three things that stay in step:
  * the schema (`schema()`), embedded in a complete document by `call_union_doc`,
  * the hint text the generator renders for it (`hint(style)`), used by the correspondence campaign,
  * boundary instances per keyword per member (`boundaries()`), labelled by jsonschema on the members.
Nothing here depends on particular names or values: kinds, keyword sets, which keyword is shared by which members
(first / middle / last in the call), the number of members, the position of a null member, the spelling (anyOf /
oneOf) and the place step with the index; values come from the seeded rng.
"""
from __future__ import annotations

from dataclasses import dataclass, field
from typing import Any

import jsonschema

from . import semgen
from .gens import Rng
from .semgen import Mutation

INT_KWSETS = [
    ("minimum", "maximum", "multipleOf"),
    ("minimum", "maximum"),
    ("exclusiveMinimum", "maximum", "multipleOf"),
    ("minimum", "exclusiveMaximum", "multipleOf"),
    ("maximum", "multipleOf"),
    ("exclusiveMinimum", "exclusiveMaximum"),
]
STR_KWSETS = [("pattern", "minLength", "maxLength"), ("minLength", "maxLength"), ("pattern", "maxLength"), ("pattern", "minLength")]

# (pattern, how to write a matching string of length n (None when impossible), trait); no quotes / control characters
PATTERNS: list[tuple[str, Any, str]] = [
    ("^q", lambda n: "q" + "w" * (n - 1) if n >= 1 else None, "plain"),
    ("^k\\w*$", lambda n: "k" + "v" * (n - 1) if n >= 1 else None, "plain"),
    ("^[qz]+$", lambda n: ("qz" * n)[:n] if n >= 1 else None, "brackets"),
    ("^w(, w)*$", lambda n: ", ".join("w" * ((n + 2) // 3)) if n % 3 == 1 else None, "comma_space"),
    ("^[v,z]+$", lambda n: ("v,z" * n)[:n] if n >= 1 else None, "comma_in_brackets"),
    ("^z{2,}", lambda n: "zz" + "k" * (n - 2) if n >= 2 else None, "comma_no_space"),  # rewritten as `{2, }`: known finding D33
]
PLACES = ("optional", "nullable_required", "optional_nullable", "optional", "required")
PY_KW = {"minimum": "ge", "maximum": "le", "exclusiveMinimum": "gt", "exclusiveMaximum": "lt", "multipleOf": "multiple_of", "minLength": "min_length", "maxLength": "max_length"}


@dataclass
class CallUnion:
    kind: str  # integer | number | string
    members: list[dict]  # constrained member schemas of `kind`, pairwise different
    shared: list[tuple[str, list[int]]]  # (keyword, indices of the members that state the SAME value for it)
    null_at: int | None = None  # position of a {"type": "null"} member, None = absent
    spelling: str = "anyOf"
    feats: set[str] = field(default_factory=set)

    def alts(self) -> list[dict]:
        out = [dict(m) for m in self.members]
        if self.null_at is not None:
            out.insert(min(self.null_at, len(out)), {"type": "null"})
        return out

    def schema(self) -> dict:
        return {self.spelling: self.alts()}

    # ---- labels: the members decide (oneOf spelled unions: a value two members accept is outside the property)
    def accepts(self, x: Any) -> list[int]:
        return [j for j, m in enumerate(self.members) if jsonschema.Draft7Validator(m).is_valid(x)]

    def violated(self, j: int, x: Any) -> list[str]:
        return sorted({e.validator for e in jsonschema.Draft7Validator(self.members[j]).iter_errors(x)})

    def _scan(self) -> list:
        if self.kind == "string":
            top = max([m.get("maxLength", 0) for m in self.members] + [m.get("minLength", 0) for m in self.members]) + 3
            pats = [p for p in PATTERNS if any(m.get("pattern") == p[0] for m in self.members)] or PATTERNS[:1]
            out = []
            for n in range(0, top + 1):
                for _p, mk, _t in pats:
                    s = mk(n)
                    if s is not None:
                        out.append(s)
                out.append("y" * n)  # matches none of the pool's patterns
            return out
        nums = [v for m in self.members for k, v in m.items() if k in semgen.BOUND_KEYS and k != "multipleOf"]
        lo, hi = (min(nums), max(nums)) if nums else (0, 10)
        mults = [m["multipleOf"] for m in self.members if "multipleOf" in m]
        span = max(mults) if mults else 1
        if self.kind == "integer":
            return list(range(int(lo) - 2 * span - 2, int(hi) + 2 * span + 3))
        q = 4  # quarters: exact in binary
        return [k / q for k in range(int((lo - 2 * span - 1) * q), int((hi + 2 * span + 1) * q) + 1)]

    def boundaries(self) -> tuple[list, list[tuple[str, int, Any]]]:
        """(values some member accepts, [(keyword, member index, value violating ONLY that keyword of that member and
        accepted by no member)]) — at most three values per (member, keyword), nearest to the bound first"""
        good, bad = [], []
        per: dict[tuple[int, str], list] = {}
        for x in self._scan():
            acc = self.accepts(x)
            if acc:
                if len(acc) == 1 or self.spelling == "anyOf":
                    good.append(x)
                continue
            for j in range(len(self.members)):
                v = self.violated(j, x)
                if len(v) == 1:
                    per.setdefault((j, v[0]), []).append(x)
        for (j, kw), xs in sorted(per.items(), key=lambda t: (t[0][0], t[0][1])):
            m = self.members[j]
            if kw in ("pattern",):
                pick = xs[:3]
            else:
                b = m[kw] if kw != "multipleOf" else None
                key = (lambda x: abs(len(x) - b)) if self.kind == "string" else ((lambda x: abs(x - b)) if b is not None else (lambda x: 0))
                pick = sorted(xs, key=key)[:3]
            bad += [(kw, j, x) for x in pick]
        return good, bad

    # ---- the text the generator writes for the union (what `_remove_none_from_union` gets to see)
    def call(self, j: int, style: str) -> str:
        m = self.members[j]
        if self.kind == "string":
            parts = []
            if "pattern" in m:
                parts.append(f"{'regex' if style == 'v1' else 'pattern'}=r'{m['pattern']}'")
            parts += [f"{PY_KW[k]}={m[k]}" for k in ("minLength", "maxLength") if k in m]
            return f"constr({', '.join(parts)})"
        order = ("minimum", "maximum", "multipleOf", "exclusiveMaximum", "exclusiveMinimum")
        fn = "conint" if self.kind == "integer" else "confloat"
        cast = int if self.kind == "integer" else float
        return f"{fn}({', '.join(f'{PY_KW[k]}={cast(m[k])!r}' for k in order if k in m)})"

    def hint(self, style: str, with_none: bool = True) -> str:
        parts = [self.call(j, style) for j in range(len(self.members))]
        if with_none and self.null_at is not None:
            parts.insert(min(self.null_at, len(parts)), "None")
        return f"Union[{', '.join(parts)}]"


def _distinct(members: list[dict]) -> bool:
    return all(members[a] != members[b] for a in range(len(members)) for b in range(a + 1, len(members)))


def call_union(rng: Rng, i: int, d33: bool = False) -> CallUnion:
    """union number `i` of the family.  The strata step with `i`: kind (3) × keyword set × which keyword is shared
    (each position of the call in turn) × which members share it × 2-3 members × null position × spelling.
    `d33`: the pattern pool includes `^z{2,}` (a comma not followed by a blank: the surgery rewrites it — known finding
    D33; pydantic v2 then refuses the class), used by the hint-level correspondence only."""
    kind = ("integer", "string", "number")[i % 3]
    s = i // 3
    n = 2 + (s % 2)
    kwsets = STR_KWSETS if kind == "string" else INT_KWSETS
    kws = kwsets[(s // 2) % len(kwsets)]
    sh_kw = kws[(s // 2 // len(kwsets) + s) % len(kws)]
    groups = [[0, 1]] if n == 2 else [[0, 1], [1, 2], [0, 2], [0, 1, 2]]
    group = groups[(s // 4) % len(groups)]
    two = len(kws) >= 3 and s % 5 == 4  # two shared keywords: only one keyword tells the members apart
    sh = [sh_kw] + ([kws[(kws.index(sh_kw) + 1) % len(kws)]] if two else [])
    for attempt in range(50):
        r = rng.fork(f"m{attempt}")
        members: list[dict] = []
        if kind == "string":
            pool = PATTERNS if d33 else PATTERNS[:-1]
            pats = [pool[(i + j + attempt) % len(pool)] for j in range(n)] if "pattern" in kws else []
            if "pattern" in kws and "pattern" not in sh and len({p[0] for p in pats}) < n:
                continue
            for j in range(n):
                lo = r.range(1, 4) + 4 * j
                m = {"type": "string"}
                if "pattern" in kws:
                    m["pattern"] = pats[j][0]
                if "minLength" in kws:
                    m["minLength"] = lo
                if "maxLength" in kws:
                    m["maxLength"] = lo + r.range(2, 5)
                members.append(m)
        else:
            step = 1 if kind == "integer" else 0.5
            mults = r.shuffle([2, 3, 5, 7]) if kind == "integer" else r.shuffle([0.5, 1.5, 2.5, 0.75])
            for j in range(n):
                lo = (r.range(-6, 12) + 17 * j) * step
                hi = lo + r.range(12, 30) * step
                m = {"type": kind}
                for k in kws:
                    m[k] = {"minimum": lo, "exclusiveMinimum": lo, "maximum": hi, "exclusiveMaximum": hi, "multipleOf": mults[j]}[k]
                members.append(m)
        for k in sh:
            vals = [members[j][k] for j in group]
            # an upper bound shared = the largest, a lower bound shared = the smallest: every member keeps a range
            v = max(vals) if k in ("maximum", "exclusiveMaximum", "maxLength") else (min(vals) if k in ("minimum", "exclusiveMinimum", "minLength") else vals[0])
            for j in group:
                members[j][k] = v
        # a shared bound must leave every member a non-empty range
        ok = True
        for m in members:
            lo = m.get("minimum", m.get("exclusiveMinimum", m.get("minLength")))
            hi = m.get("maximum", m.get("exclusiveMaximum", m.get("maxLength")))
            if lo is not None and hi is not None and hi - lo < 3:
                ok = False
        if not ok or not _distinct(members):
            continue
        u = CallUnion(kind, members, [(k, list(group)) for k in sh])
        good, bad = u.boundaries()
        need = {(j, k) for j, m in enumerate(members) for k in m if k != "type"}
        have = {(j, k) for k, j, _x in bad}
        if (good and len(need - have) <= (1 if attempt < 30 else len(need))) or (attempt >= 40 and (good or bad)):
            break
    else:
        raise RuntimeError(f"call_union({i}): no satisfiable union")
    u.null_at = [None, 0, 1, n][(s // 3) % 4]
    u.spelling = "oneOf" if s % 4 == 3 else "anyOf"
    pos = {kws[0]: "first", kws[-1]: "last"}.get(sh_kw, "middle")
    u.feats = {f"call_kind:{kind}", f"call_members:{n}", f"call_shared_keyword:{sh_kw}", f"call_shared_position:{pos}", f"call_shared_by:{''.join(map(str, group))}", f"call_shared_keywords:{len(sh)}", f"call_null:{'absent' if u.null_at is None else ('first' if u.null_at == 0 else ('last' if u.null_at >= n else 'middle'))}", f"call_spelling:{u.spelling}"}
    if kind == "string":
        for m in members:
            for p, _mk, trait in PATTERNS:
                if m.get("pattern") == p:
                    u.feats.add(f"call_pattern:{trait}")
    return u


def embed(unions: list[tuple[CallUnion, str]]) -> tuple[dict, list, list[Mutation], set[str]]:
    """a complete document with one member per union (place: optional / nullable_required / optional_nullable /
    required), its valid instances and the boundary mutations (each: one member's one keyword violated, no member
    accepting the value)"""
    names = list(semgen.PLAIN_NAMES)
    props: dict[str, dict] = {}
    req: list[str] = []
    base: dict[str, Any] = {}
    feats: set[str] = set()
    todo = []
    for pi, (u, place) in enumerate(unions):
        nm = names[pi]
        if place in ("optional", "required"):
            u.null_at = None
        elif u.null_at is None:
            u.null_at = pi % (len(u.members) + 1)
        props[nm] = u.schema()
        if place in ("required", "nullable_required"):
            req.append(nm)
        good, bad = u.boundaries()
        if good:
            base[nm] = good[len(good) // 2]
        feats |= u.feats | {f"call_place:{place}"}
        todo.append((nm, u, good, bad))
    doc = {"title": "Model", "type": "object", "properties": props, "required": req}
    insts = [dict(base)]
    muts: list[Mutation] = []
    for nm, u, good, bad in todo:
        for g in (good[:1] + good[-1:]):
            insts.append({**base, nm: g})
        for kw, j, x in bad:
            muts.append(Mutation({**base, nm: x}, kw, "member", [nm], {**u.members[j], "call_member": j, "call_members": len(u.members)}, "none", True, x, []))
    v = semgen.validator_for(doc)
    insts = [x for x in insts if v.is_valid(x)]
    muts = [m for m in muts if not v.is_valid(m.instance)]
    return doc, insts, muts, feats


def call_union_doc(rng: Rng, i: int, per_doc: int = 4) -> tuple[dict, list, list[Mutation], set[str], list[CallUnion]]:
    """document number `i`: `per_doc` consecutive unions of the family, one per member, places stepping with the index"""
    us = []
    for k in range(per_doc):
        idx = i * per_doc + k
        us.append((call_union(rng.fork(f"u{k}"), idx), PLACES[idx % len(PLACES)]))
    doc, insts, muts, feats = embed(us)
    return doc, insts, muts, feats, [u for u, _p in us]
