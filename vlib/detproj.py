"""Seeded generators for the WORKING-DIRECTORY family of the determinism check (C08): the directory a run is started from may
be a project that holds exactly the things the formatting stage of the generator (black, isort, ruff) looks for —

* a package / module / `src/` package / namespace directory named like a module the GENERATED code imports (custom base class,
  `additional_imports`, `customTypePath`): isort's first-party detection looks for `<name>/` and `<name>.py` in its `directory`
  (default: the process's working directory) and in `<directory>/src`;
* configuration files with formatter settings: `pyproject.toml` (`[tool.black]`, `[tool.isort]`, `[tool.ruff]`,
  `[tool.ruff.format]`, `[tool.ruff.lint.isort]`), `.isort.cfg`, `setup.cfg`, `tox.ini`, `.editorconfig`, `ruff.toml`,
  `.ruff.toml`; the run may be started from a sub-directory of the project (the tools walk upwards);
* a `.git` directory (black's project-root marker).

and the documents / options whose output such settings can change: imports of non-standard modules, long lines, string
literals with both kinds of quotes. Every choice comes from the Rng passed in; nothing here knows about any particular change of
the generator."""
from __future__ import annotations

import json

from . import docgen
from .common import Rng

# top-level module names the generated code is made to import; none of them is importable in the environment
PACKAGES = ["acme", "corpmodels", "sharedlib", "zz_base", "my_types"]
FORMATTER_SETS = [
    ["black", "isort"], ["black", "isort"], ["isort"], ["black"], ["isort", "black"],
    ["ruff-format"], ["ruff-check", "ruff-format"], ["isort", "ruff-format"], ["ruff-check"],
]
LONG = ("a \"quoted\" remark, it's long enough to be wrapped by a formatter that is told to use a short line length; "
        "second sentence with more words to be sure")


def project_document(rng: Rng, modular: bool = False) -> dict:
    """a JSON Schema whose rendering has long lines, string defaults with both kinds of quotes, and (sometimes) members typed by
    `customTypePath` (an import of a non-standard module that the document itself asks for); `modular`: dotted definition names,
    i.e. a package of modules each of which is formatted on its own"""
    if modular:
        doc = {"definitions": {}}
        names: list[str] = []
        for i in range(rng.range(2, 4)):
            name = f"{rng.choice(['a', 'b', 'c.d'])}.{rng.choice(docgen.WORDS).capitalize()}{i}"
            sub: dict = {"type": "object", "properties": {"v": {"type": rng.choice(["string", "integer"]), "description": LONG[: rng.range(30, 120)]}}}
            if names and rng.chance(2, 3):
                sub["properties"]["r"] = {"$ref": "#/definitions/" + rng.choice(names)}
            doc["definitions"][name] = sub
            names.append(name)
        props = doc["definitions"][names[0]]["properties"]
    else:
        doc = docgen.json_schema(rng, rng.range(1, 3))
        props = doc.setdefault("properties", {})
        doc.setdefault("type", "object")
    props["note"] = {"type": "string", "description": LONG, "default": rng.choice(["plain", "it's", 'say "hi"', "x" * rng.range(30, 70)])}
    props["tags"] = {"type": "array", "items": {"type": "string"}, "description": LONG[: rng.range(20, 110)]}
    if rng.chance(1, 3):
        pkg = rng.choice(PACKAGES)
        props["amount"] = {"type": "string", "customTypePath": f"{pkg}.money.Money"}
    if rng.chance(1, 3):
        doc["description"] = LONG
    return doc


def project_options(rng: Rng) -> dict:
    opts: dict = {}
    if rng.chance(3, 4):
        opts["base_class"] = f"{rng.choice(PACKAGES)}.{rng.choice(['models', 'base', 'core.model'])}.Base"
    if rng.chance(1, 2):
        opts["additional_imports"] = [f"{p}.{rng.choice(['types', 'util'])}.{rng.choice(['Money', 'Stamp', 'helper'])}" for p in rng.sample(PACKAGES, rng.range(1, 2))]
    if rng.chance(1, 2):
        opts["use_field_description"] = True
    if rng.chance(1, 3):
        opts["use_schema_description"] = True
    if rng.chance(1, 4):
        opts["use_double_quotes"] = True
    if rng.chance(1, 4):
        opts["use_annotated"] = True
        opts["field_constraints"] = True
    if rng.chance(1, 5):
        opts["wrap_string_literal"] = True
    return opts


def imported_packages(case_opts: dict, text: str) -> list[str]:
    """the non-standard top-level modules a case makes the generated code import"""
    names = []
    if case_opts.get("base_class"):
        names.append(case_opts["base_class"].split(".")[0])
    for imp in case_opts.get("additional_imports") or []:
        names.append(imp.split(".")[0])
    for p in PACKAGES:
        if f'"customTypePath": "{p}.' in text:
            names.append(p)
    return sorted(set(names))


# ---------------------------------------------------------------- what a project directory may hold
def _black_table(rng: Rng) -> str:
    lines = ["[tool.black]"]
    if rng.chance(2, 3):
        lines.append(f"line-length = {rng.choice([40, 60, 100, 120])}")
    if rng.chance(1, 2):
        lines.append("skip-string-normalization = false")
    if rng.chance(1, 4):
        lines.append("skip-magic-trailing-comma = true")
    return "\n".join(lines) + "\n"


def _isort_body(rng: Rng, toml: bool) -> str:
    q = (lambda s: json.dumps(s)) if toml else (lambda s: s)
    b = (lambda v: ("true" if v else "false")) if toml else (lambda v: ("True" if v else "False"))
    lst = (lambda xs: json.dumps(xs)) if toml else (lambda xs: ",".join(xs))
    out = []
    picks = rng.sample(["line_length", "force_single_line", "profile", "known_first_party", "known_third_party", "force_sort_within_sections",
                        "lines_after_imports", "multi_line_output", "from_first", "no_lines_before", "length_sort"], rng.range(1, 4))
    for pick in picks:
        if pick == "line_length":
            out.append(f"line_length = {rng.choice([40, 60, 100])}")
        elif pick == "force_single_line":
            out.append(f"force_single_line = {b(True)}")
        elif pick == "profile":
            out.append(f"profile = {q(rng.choice(['black', 'google', 'pycharm']))}")
        elif pick == "known_first_party":
            out.append(f"known_first_party = {lst(rng.sample(PACKAGES + ['pydantic'], rng.range(1, 3)))}")
        elif pick == "known_third_party":
            out.append(f"known_third_party = {lst(rng.sample(PACKAGES, rng.range(1, 2)))}")
        elif pick == "force_sort_within_sections":
            out.append(f"force_sort_within_sections = {b(True)}")
        elif pick == "lines_after_imports":
            out.append(f"lines_after_imports = {rng.choice([1, 3])}")
        elif pick == "multi_line_output":
            out.append(f"multi_line_output = {rng.choice([0, 3, 5])}")
        elif pick == "from_first":
            out.append(f"from_first = {b(True)}")
        elif pick == "no_lines_before":
            out.append(f"no_lines_before = {lst(['FIRSTPARTY', 'THIRDPARTY'])}")
        else:
            out.append(f"length_sort = {b(True)}")
    return "\n".join(out) + "\n"


def _ruff_body(rng: Rng, prefix: str) -> str:
    """ruff settings; `prefix` is 'tool.ruff.' inside pyproject.toml and '' in ruff.toml"""
    out = []
    if rng.chance(2, 3):
        out.append(f"line-length = {rng.choice([40, 60, 100])}")
    if prefix:
        out.insert(0, "[tool.ruff]")
    if rng.chance(2, 3):
        out.append(f"[{prefix}format]")
        out.append(f"quote-style = {json.dumps(rng.choice(['single', 'double', 'preserve']))}")
        if rng.chance(1, 3):
            out.append("skip-magic-trailing-comma = true")
    if rng.chance(1, 2):
        out.append(f"[{prefix}lint]")
        out.append(f"select = {json.dumps(rng.sample(['E', 'F', 'I', 'UP', 'Q'], rng.range(1, 4)))}")
        if rng.chance(1, 2):
            out.append(f"[{prefix}lint.isort]")
            out.append(f"known-first-party = {json.dumps(rng.sample(PACKAGES, rng.range(1, 2)))}")
    return "\n".join(out) + "\n"


def ingredient(rng: Rng, kind: str, pkg: str | None = None) -> dict[str, str | None]:
    """files (relative path -> text; None = a directory) of ONE thing a project directory may hold"""
    if kind == "package":
        return {f"{pkg}/__init__.py": "", f"{pkg}/models.py": "class Base:\n    pass\n"}
    if kind == "module":
        return {f"{pkg}.py": "class Base:\n    pass\n"}
    if kind == "src-package":
        return {f"src/{pkg}/__init__.py": ""}
    if kind == "namespace-dir":
        return {f"{pkg}/data.txt": "not python\n"}
    if kind == "pyproject-black":
        return {"pyproject.toml": _black_table(rng)}
    if kind == "pyproject-isort":
        return {"pyproject.toml": "[tool.isort]\n" + _isort_body(rng, True)}
    if kind == "pyproject-ruff":
        return {"pyproject.toml": _ruff_body(rng, "tool.ruff.")}
    if kind == "pyproject-all":
        return {"pyproject.toml": _black_table(rng) + "\n[tool.isort]\n" + _isort_body(rng, True) + "\n" + _ruff_body(rng, "tool.ruff.")}
    if kind == "isort-cfg":
        return {".isort.cfg": "[settings]\n" + _isort_body(rng, False)}
    if kind == "setup-cfg":
        return {"setup.cfg": "[isort]\n" + _isort_body(rng, False)}
    if kind == "tox-ini":
        return {"tox.ini": "[isort]\n" + _isort_body(rng, False)}
    if kind == "editorconfig":
        return {".editorconfig": f"root = true\n\n[*.py]\nline_length = {rng.choice([40, 60])}\nindent_style = space\n"}
    if kind == "ruff-toml":
        return {"ruff.toml": _ruff_body(rng, "")}
    if kind == "dot-ruff-toml":
        return {".ruff.toml": _ruff_body(rng, "")}
    if kind == "git-dir":
        return {".git": None}
    raise ValueError(kind)


PACKAGE_LAYOUTS = ["package", "package", "module", "src-package", "namespace-dir"]
CONFIG_KINDS = ["pyproject-black", "pyproject-isort", "pyproject-ruff", "pyproject-all", "isort-cfg", "setup-cfg", "tox-ini", "editorconfig",
                "ruff-toml", "dot-ruff-toml", "git-dir"]


def project(rng: Rng, flavour: str) -> dict:
    """a project directory: {"ingredients": [{"kind", "pkg", "files"}…], "sub": relative directory the run is started from}.
    flavours: `packages` (only importable-looking names), `configs` (only settings files), `full` (both, every package name),
    `mixed` (a random subset of everything)"""
    ings: list[dict] = []
    if flavour in ("packages", "full", "mixed"):
        for pkg in PACKAGES:
            if flavour == "mixed" and not rng.chance(3, 5):
                continue
            kind = rng.choice(PACKAGE_LAYOUTS)
            ings.append({"kind": kind, "pkg": pkg, "files": ingredient(rng, kind, pkg)})
    if flavour in ("configs", "full", "mixed"):
        kinds = list(CONFIG_KINDS)
        chosen: list[str] = []
        for kind in rng.shuffle(kinds):
            if kind.startswith("pyproject") and any(c.startswith("pyproject") for c in chosen):
                continue   # one pyproject.toml per directory
            if kind in ("ruff-toml", "dot-ruff-toml") and any(c in ("ruff-toml", "dot-ruff-toml") for c in chosen):
                continue
            if flavour == "full" or rng.chance(1, 2) or not chosen:
                chosen.append(kind)
        for kind in chosen:
            ings.append({"kind": kind, "pkg": None, "files": ingredient(rng, kind)})
    sub = rng.choice(["", "", "tools/gen", "scripts"])
    return {"flavour": flavour, "ingredients": ings, "sub": sub}


def project_files(proj: dict, only: list[int] | None = None) -> dict[str, str | None]:
    files: dict[str, str | None] = {}
    for i, ing in enumerate(proj["ingredients"]):
        if only is not None and i not in only:
            continue
        # packages sit in the directory the run is started from (that is where first-party detection looks), settings files at
        # the project root (the tools walk upwards to find them)
        prefix = proj["sub"] + "/" if ing["pkg"] and proj["sub"] else ""
        files.update({prefix + rel: text for rel, text in ing["files"].items()})
    return files
