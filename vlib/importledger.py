"""The REAL append/remove history of the reference-counted import sets during one `generate()` run.

`recording()` wraps `Imports.__init__/append/remove/remove_referenced_imports` of the working tree's
`datamodel_code_generator.imports` for the duration of a `with` block and restores them afterwards.
Every `Imports` instance created inside the block gets its own history, in creation order (instance 0
is `Parser.imports`, the module-independent set; then one per emitted module), as the operation list
the Lean model `Dcg.Model.Imports.LOp` reads:

    ["app", [imp, ...]]   Imports.append(x)             (x a single Import or an iterable; nothing is
                                                          recorded when x is falsy: the method does nothing)
    ["rem", [imp, ...]]   Imports.remove(iterable)      (a whole batch is taken back: `unused_model.imports`)
    ["rem1", imp]         Imports.remove(Import)        (one name: the pruning loop of Parser.parse)
    ["rr", path]          Imports.remove_referenced_imports(path)   (its inner self.remove is not recorded twice)

with imp = {"from", "name", "alias", "ref"}.  What is recorded is what was passed: iterables are
materialised once and the tuple is handed on, so generators are not consumed behind the callee's back.
"""
from __future__ import annotations

import contextlib


def imp_dict(i) -> dict:
    return {"from": i.from_, "name": i.import_, "alias": i.alias, "ref": i.reference_path}


class Recording:
    def __init__(self) -> None:
        self.instances: list = []  # the Imports objects, creation order
        self.histories: list[list] = []
        self._index: dict[int, int] = {}
        self._inside_rr = 0

    def history_of(self, inst) -> list:
        k = self._index.get(id(inst))
        if k is None:  # created before the block (or by a path that bypasses __init__)
            k = len(self.instances)
            self._index[id(inst)] = k
            self.instances.append(inst)
            self.histories.append([])
        return self.histories[k]


@contextlib.contextmanager
def recording():
    from datamodel_code_generator.imports import Import, Imports

    rec = Recording()
    o_init, o_app, o_rem, o_rr = Imports.__init__, Imports.append, Imports.remove, Imports.remove_referenced_imports

    def init(self, *a, **kw):
        o_init(self, *a, **kw)
        rec.history_of(self)

    def append(self, imports):
        if imports is not None and not isinstance(imports, Import):
            imports = tuple(imports)
        if imports:
            batch = [imports] if isinstance(imports, Import) else list(imports)
            rec.history_of(self).append(["app", [imp_dict(i) for i in batch]])
        return o_app(self, imports)

    def remove(self, imports):
        if rec._inside_rr:
            return o_rem(self, imports)
        if isinstance(imports, Import):
            rec.history_of(self).append(["rem1", imp_dict(imports)])
        else:
            imports = tuple(imports)
            rec.history_of(self).append(["rem", [imp_dict(i) for i in imports]])
        return o_rem(self, imports)

    def remove_referenced_imports(self, reference_path):
        rec.history_of(self).append(["rr", reference_path])
        rec._inside_rr += 1
        try:
            return o_rr(self, reference_path)
        finally:
            rec._inside_rr -= 1

    Imports.__init__, Imports.append, Imports.remove, Imports.remove_referenced_imports = init, append, remove, remove_referenced_imports
    try:
        yield rec
    finally:
        Imports.__init__, Imports.append, Imports.remove, Imports.remove_referenced_imports = o_init, o_app, o_rem, o_rr
