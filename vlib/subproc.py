"""Child-process helpers for the properties whose subject is process-level behaviour (C08, C18, C19):
run the real package in fresh interpreters, in parallel, with a controlled environment.
Under DCG_REPO (mutation testing) the children import the scratch copy through PYTHONPATH."""
from __future__ import annotations

import os
import subprocess
from concurrent.futures import ThreadPoolExecutor
from dataclasses import dataclass
from typing import Callable, Iterable, Sequence

from .common import PY

WORKERS = int(os.environ.get("VERIF_WORKERS", "12"))


def child_env(extra: dict[str, str] | None = None, hashseed: str | int = 0) -> dict[str, str]:
    env = {k: v for k, v in os.environ.items() if k not in ("PYTHONPATH",)}
    if os.environ.get("DCG_REPO"):
        env["PYTHONPATH"] = os.path.join(os.environ["DCG_REPO"], "src")
    env["PYTHONHASHSEED"] = str(hashseed)
    env["PYTHONWARNINGS"] = "ignore"
    env["NO_COLOR"] = "1"
    env.pop("COLUMNS", None)
    if extra:
        env.update(extra)
    return env


@dataclass
class Proc:
    rc: int
    out: str
    err: str
    timed_out: bool = False


def run_py(args: Sequence[str], cwd: str, env: dict[str, str] | None = None, timeout: float = 120.0, stdin: str | None = None) -> Proc:
    try:
        p = subprocess.run(
            [PY, *args], cwd=cwd, env=env or child_env(), capture_output=True, text=True, timeout=timeout, input=stdin
        )
        return Proc(p.returncode, p.stdout, p.stderr)
    except subprocess.TimeoutExpired as e:
        return Proc(-9, (e.stdout or b"").decode("utf-8", "replace") if isinstance(e.stdout, bytes) else (e.stdout or ""), "timeout", True)


def pmap(fn: Callable, items: Iterable, workers: int | None = None) -> list:
    items = list(items)
    if not items:
        return []
    with ThreadPoolExecutor(max_workers=workers or WORKERS) as ex:
        return list(ex.map(fn, items))
