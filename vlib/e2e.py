"""End-to-end observation of the real generator (DESIGN.md §2.3.3): run `generate()` in-process
under a watchdog in a scratch directory, collect what it wrote; load emitted modules."""
from __future__ import annotations

import ast
import importlib.util
import io
import contextlib
import json
import os
import shutil
import sys
import tempfile
import time
import warnings
from dataclasses import dataclass, field
from pathlib import Path
from typing import Any

from .common import Hang, watchdog

MODEL_KINDS = [
    "pydantic.BaseModel",
    "pydantic_v2.BaseModel",
    "dataclasses.dataclass",
    "typing.TypedDict",
    "msgspec.Struct",
]
EXECUTABLE_KINDS = MODEL_KINDS[:4]  # msgspec is not installed in this sandbox

_scratch_root: str | None = None


def scratch_root() -> str:
    global _scratch_root
    if _scratch_root is None:
        _scratch_root = tempfile.mkdtemp(prefix="dcgverif-")
        import atexit

        atexit.register(lambda: shutil.rmtree(_scratch_root, ignore_errors=True))
    return _scratch_root


@dataclass
class Result:
    ok: bool
    files: dict[str, str] = field(default_factory=dict)
    error_type: str = ""
    error_msg: str = ""
    hang: bool = False
    wall_s: float = 0.0

    @property
    def code(self) -> str:
        """single-file output"""
        return self.files.get("out.py", "")


def _dcg():
    import datamodel_code_generator as d

    return d


def run_generate(
    source: Any,
    *,
    input_file_type: str = "jsonschema",
    model: str = "pydantic_v2.BaseModel",
    opts: dict[str, Any] | None = None,
    formatters: list | None = None,
    timeout: float = 20.0,
    modular: bool = False,
    target: str | None = None,
) -> Result:
    """`source` is a str (document text) or a JSON-able value (dumped with json.dumps).
    `formatters=None` means no formatter at all (black's parser must not be a hidden safety net);
    pass "default" for the generator's defaults."""
    d = _dcg()
    from datamodel_code_generator.format import PythonVersion, Formatter

    text = source if isinstance(source, str) else json.dumps(source)
    work = tempfile.mkdtemp(dir=scratch_root())
    out = Path(work) / ("pkg" if modular else "out.py")
    kwargs: dict[str, Any] = dict(opts or {})
    kwargs.setdefault("disable_timestamp", True)
    if formatters == "default":
        pass
    else:
        kwargs["formatters"] = [Formatter(f) if isinstance(f, str) else f for f in (formatters or [])]
    if target:
        kwargs["target_python_version"] = PythonVersion(target)
    t0 = time.time()
    res = Result(ok=False)
    cwd = os.getcwd()
    try:
        with watchdog(timeout), warnings.catch_warnings(), contextlib.redirect_stderr(io.StringIO()):
            warnings.simplefilter("ignore")
            d.generate(
                text,
                input_file_type=d.InputFileType(input_file_type),
                output=out,
                output_model_type=d.DataModelType(model),
                **kwargs,
            )
        res.ok = True
    except Hang as e:
        res.hang = True
        res.error_type, res.error_msg = "Hang", str(e)
    except RecursionError as e:
        res.error_type, res.error_msg = "RecursionError", str(e)[:200]
    except BaseException as e:  # noqa: BLE001 - generator errors are data here
        if isinstance(e, (KeyboardInterrupt, SystemExit)):
            raise
        res.error_type, res.error_msg = type(e).__name__, str(e)[:300]
    finally:
        if os.getcwd() != cwd:
            os.chdir(cwd)
    res.wall_s = time.time() - t0
    if out.is_file():
        res.files["out.py"] = out.read_text(encoding="utf-8", errors="surrogateescape")
    elif out.is_dir():
        for p in sorted(out.rglob("*")):
            if p.is_file():
                res.files[str(p.relative_to(out))] = p.read_text(encoding="utf-8", errors="surrogateescape")
    shutil.rmtree(work, ignore_errors=True)
    return res


def parses(code: str, target: str | None = None) -> str | None:
    """None when `code` is valid Python (for the target grammar), else the error text."""
    try:
        fv = None
        if target:
            major, minor = target.split(".")
            fv = (int(major), int(minor))
        with warnings.catch_warnings():
            warnings.simplefilter("ignore")
            ast.parse(code, feature_version=fv)
        return None
    except (SyntaxError, ValueError) as e:
        return f"{type(e).__name__}: {e}"


_mod_counter = 0


def load_module(code: str, model: str):
    """Import generated single-file code as a real module (registered in sys.modules — pydantic
    needs that to resolve forward references). pydantic-v1-style output runs on `pydantic.v1`."""
    global _mod_counter
    _mod_counter += 1
    name = f"dcgverif_gen_{os.getpid()}_{_mod_counter}"
    if model == "pydantic.BaseModel":
        code = code.replace("from pydantic import", "from pydantic.v1 import").replace(
            "from pydantic.dataclasses import", "from pydantic.v1.dataclasses import"
        )
    d = Path(tempfile.mkdtemp(dir=scratch_root()))
    p = d / f"{name}.py"
    p.write_text(code, encoding="utf-8")
    spec = importlib.util.spec_from_file_location(name, p)
    mod = importlib.util.module_from_spec(spec)
    sys.modules[name] = mod
    try:
        with warnings.catch_warnings():
            warnings.simplefilter("ignore")
            spec.loader.exec_module(mod)
    except BaseException:
        sys.modules.pop(name, None)
        shutil.rmtree(d, ignore_errors=True)
        raise
    shutil.rmtree(d, ignore_errors=True)
    return mod


def unload(mod) -> None:
    sys.modules.pop(getattr(mod, "__name__", ""), None)


def skeleton(code: str) -> str:
    """AST shape with every identifier and constant blanked: what must not depend on input text."""
    tree = ast.parse(code)

    def go(n) -> str:
        if isinstance(n, ast.AST):
            parts = []
            for f, v in ast.iter_fields(n):
                if f in ("id", "attr", "name", "arg", "asname", "module", "value") and not isinstance(v, (ast.AST, list)):
                    continue
                if f in ("lineno", "col_offset", "end_lineno", "end_col_offset", "kind", "type_comment"):
                    continue
                parts.append(go(v))
            return type(n).__name__ + "(" + ",".join(parts) + ")"
        if isinstance(n, list):
            return "[" + ",".join(go(x) for x in n) + "]"
        return ""

    return go(tree)


def string_constants(code: str) -> list[str]:
    with warnings.catch_warnings():
        warnings.simplefilter("ignore")
        tree = ast.parse(code)
    return [n.value for n in ast.walk(tree) if isinstance(n, ast.Constant) and isinstance(n.value, str)]
