"""Running generated models for C03 / C04 / C14 (new shared file, used only by them):
build the classes for a (document, style, routing/options) combination with the REAL generator,
validate instances, dump by wire name, read the reported JSON Schema, and normalise schemas for a
keyword-by-keyword comparison."""
from __future__ import annotations

import json
import warnings
from dataclasses import dataclass, field
from typing import Any

from . import e2e
from .semgen import BOUND_KEYS, STR_KEYS, ARR_KEYS, merge_all_of, resolve, types_of

STYLE_MODEL = {"v1": "pydantic.BaseModel", "v2": "pydantic_v2.BaseModel"}
ROUTING_OPTS: dict[str, dict[str, Any]] = {
    "contype": {},
    "field": {"field_constraints": True},
    "annotated": {"field_constraints": True, "use_annotated": True},
    # not a constraint routing: the field-name resolver renames camel-case members too (used by focused documents)
    "snake": {"snake_case_field": True},
}


def strip_doc(doc: dict) -> dict:
    return {k: v for k, v in doc.items() if k != "x-draft4"}


@dataclass
class Built:
    ok: bool
    style: str
    kind: str = ""
    code: str = ""
    error: str = ""
    module: Any = None
    root: Any = None
    root_name: str = ""

    def close(self) -> None:
        if self.module is not None:
            e2e.unload(self.module)
            self.module = None

    # -- validation: (accepted?, object-or-error-text)
    def validate(self, inst: Any) -> tuple[bool, Any]:
        with warnings.catch_warnings():
            warnings.simplefilter("ignore")
            if self.kind == "pydantic.BaseModel":
                import pydantic.v1 as p1

                try:
                    return True, self.root.parse_obj(inst)
                except p1.ValidationError as e:
                    return False, str(e)[:300]
                except Exception as e:  # noqa: BLE001 - a broken class (not a verdict on the instance)
                    return False, f"MODEL-ERROR {type(e).__name__}: {str(e)[:200]}"
            import pydantic

            try:
                if self.kind == "pydantic_v2.BaseModel":
                    return True, self.root.model_validate(inst)
                return True, pydantic.TypeAdapter(self.root).validate_python(inst)
            except pydantic.ValidationError as e:
                return False, str(e)[:300]
            except Exception as e:  # noqa: BLE001
                return False, f"MODEL-ERROR {type(e).__name__}: {str(e)[:200]}"

    def dump(self, obj: Any) -> Any:
        """serialise by wire name, only what was set, as a JSON value"""
        with warnings.catch_warnings():
            warnings.simplefilter("ignore")
            if self.kind == "pydantic.BaseModel":
                v = json.loads(obj.json(by_alias=True, exclude_unset=True))
                return v
            if self.kind == "pydantic_v2.BaseModel":
                return obj.model_dump(mode="json", by_alias=True, exclude_unset=True)
            import pydantic

            return pydantic.TypeAdapter(self.root).dump_python(obj, mode="json", by_alias=True, exclude_unset=True)

    def schema(self) -> dict:
        with warnings.catch_warnings():
            warnings.simplefilter("ignore")
            if self.kind == "pydantic.BaseModel":
                return self.root.schema(by_alias=True)
            if self.kind == "pydantic_v2.BaseModel":
                return self.root.model_json_schema(by_alias=True)
            import pydantic

            return pydantic.TypeAdapter(self.root).json_schema(by_alias=True)


def to_openapi(doc: dict) -> dict:
    """the same document as an OpenAPI 3 specification: the definitions and the body (as `Model`) become
    `components.schemas`, local references are rewritten"""

    def rw(x: Any) -> Any:
        if isinstance(x, dict):
            return {k: (v.replace("#/definitions/", "#/components/schemas/") if isinstance(v, str) and (k == "$ref" or v.startswith("#/definitions/")) else rw(v)) for k, v in x.items()}
        if isinstance(x, list):
            return [rw(v) for v in x]
        return x

    d = strip_doc(doc)
    body = {k: v for k, v in d.items() if k != "definitions"}
    schemas = {**{k: rw(v) for k, v in (d.get("definitions") or {}).items()}, "Model": rw(body)}
    return {"openapi": "3.0.3", "info": {"title": "t", "version": "1"}, "paths": {}, "components": {"schemas": schemas}}


def openapi_scopes() -> list:
    """schemas + paths + parameters: the query parameters of an operation are generated as a model too"""
    from datamodel_code_generator import OpenAPIScope

    return [OpenAPIScope.Schemas, OpenAPIScope.Paths, OpenAPIScope.Parameters]


def build(doc: dict, style: str = "v2", opts: dict | None = None, kind: str | None = None, formatters=None, target: str | None = None, root_name: str = "Model", input_file_type: str = "jsonschema") -> Built:
    """`input_file_type="openapi"`: `doc` is an OpenAPI document (it has the key `openapi`) or a JSON-Schema
    document that is wrapped into one (`to_openapi`); every OpenAPI run has the scopes schemas + paths + parameters.
    `root_name="*Suffix"`: the class under test is the one class of the module whose name ends with the suffix."""
    kind = kind or STYLE_MODEL[style]
    if input_file_type == "openapi":
        src = strip_doc(doc) if "openapi" in doc else to_openapi(doc)
        opts = {"openapi_scopes": openapi_scopes(), **(opts or {})}
    else:
        src = strip_doc(doc)
    res = e2e.run_generate(src, model=kind, opts=opts or {}, formatters=formatters, target=target, input_file_type=input_file_type)
    b = Built(ok=False, style=style, kind=kind, code=res.code)
    if not res.ok:
        b.error = f"generate: {res.error_type}: {res.error_msg}"
        return b
    try:
        b.module = e2e.load_module(res.code, kind)
    except BaseException as e:  # noqa: BLE001
        b.error = f"import: {type(e).__name__}: {str(e)[:300]}"
        return b
    if root_name.startswith("*"):
        found = [n for n in vars(b.module) if n.endswith(root_name[1:]) and isinstance(getattr(b.module, n), type) and getattr(getattr(b.module, n), "__module__", None) == b.module.__name__]
        b.root = getattr(b.module, found[0]) if len(found) == 1 else None
        b.root_name = found[0] if len(found) == 1 else ""
    else:
        b.root = getattr(b.module, root_name, None)
        b.root_name = root_name
    if b.root is None:
        b.error = f"no class {root_name} in the generated module"
        b.close()
        return b
    b.ok = True
    return b


# ------------------------------------------------------------------ normal form
def _num(x):
    if isinstance(x, bool):
        return x
    if isinstance(x, float) and x == int(x):
        return int(x)
    return x


def _jkey(v) -> str:
    return json.dumps(v, sort_keys=True, default=str)


class NF:
    """Normal form of a schema node (input side and pydantic's reported side go through the same
    function): refs inlined (bounded), oneOf→anyOf, allOf of objects flattened, `const c`→`enum [c]`,
    `type:[T,"null"]` / `anyOf[…,{type:null}]` → null flag, draft-4 exclusive flags → numbers,
    `additionalProperties: true` → absent."""

    def __init__(self, doc: dict, max_depth: int = 6) -> None:
        self.doc = doc
        self.defs = doc.get("definitions") or doc.get("$defs") or {}
        self.max_depth = max_depth

    def _res(self, s: dict) -> dict:
        n = 0
        while isinstance(s, dict) and "$ref" in s and n < 30:
            sib = {k: v for k, v in s.items() if k != "$ref"}
            name = s["$ref"].rsplit("/", 1)[1]
            s = {**self.defs.get(name, {}), **{k: v for k, v in sib.items() if k in ("default",)}}
            n += 1
        return s

    def _with_siblings(self, a: Any, sib: dict) -> Any:
        ar = self._res(a) if isinstance(a, dict) else a
        if not isinstance(ar, dict) or any(k in ar for k in ("anyOf", "oneOf", "allOf", "enum", "const")):
            return a
        ts = [t for t in types_of(ar) if t != "null"]
        if len(ts) != 1:
            return a
        keys = {"integer": BOUND_KEYS, "number": BOUND_KEYS, "string": STR_KEYS, "array": ARR_KEYS}.get(ts[0], ())
        add = {k: v for k, v in sib.items() if k in keys and k not in ar}
        if add and isinstance(a, dict) and "$ref" in a:
            add["x-sibling-on-ref"] = True  # (the generator does not merge sibling keywords into a `$ref` member)
        return {**ar, **add} if add else a

    def nf(self, s: Any, depth: int = 0) -> dict:
        if s is True or s is None:
            return {"k": "any"}
        if s is False:
            return {"k": "never"}
        if depth > self.max_depth:
            return {"k": "cut"}
        s = self._res(s)
        # single-element allOf wrapping a ref (pydantic v1 does this when the field has siblings)
        if "allOf" in s and len(s["allOf"]) == 1 and not s.get("properties"):
            inner = self.nf(s["allOf"][0], depth)
            return inner
        if "allOf" in s:
            s = merge_all_of({"definitions": self.defs}, s)
        if "const" in s:
            return {"k": "enum", "values": [_jkey(_num(s["const"]))], "null": False, "const": True}
        if "enum" in s:
            vals = sorted({_jkey(_num(v)) for v in s["enum"] if v is not None})
            return {"k": "enum", "values": vals, "null": None in s["enum"]}
        alts = s.get("anyOf") or s.get("oneOf")
        if alts:
            null = False
            out = []
            # validation keywords written NEXT TO the combination hold for the value whichever member admits it:
            # {"anyOf": [A, B], kw} ≡ {"anyOf": [A ∧ kw, B ∧ kw]}, and a keyword says nothing about a member of another
            # type (maxLength about an integer). Each member gets the sibling keywords of its own type that it does not
            # state itself — independently of its position in the list.
            sib = {k: s[k] for k in (*BOUND_KEYS, *STR_KEYS, *ARR_KEYS) if s.get(k) is not None}
            if sib:
                alts = [self._with_siblings(a, sib) for a in alts]
            for a in alts:
                ar = self._res(a)
                if ar.get("type") == "null":
                    null = True
                    continue
                n = self.nf(a, depth + 1)
                if n.get("null"):
                    null = True
                    n = {**n, "null": False}
                if n["k"] == "union":
                    out += n["alts"]
                else:
                    out.append(n)
            if len(out) == 1:
                return {**out[0], "null": null or out[0].get("null", False)}
            return {"k": "union", "alts": sorted(out, key=_jkey), "null": null}
        ts = types_of(s)
        null = "null" in ts
        ts = [t for t in ts if t != "null"]
        if not ts and ("properties" in s or "additionalProperties" in s):
            ts = ["object"]
        if not ts:
            return {"k": "any"} if not null else {"k": "null"}
        if len(ts) > 1:
            return {"k": "union", "alts": sorted((self.nf({**s, "type": t}, depth + 1) for t in ts), key=_jkey), "null": null}
        t = ts[0]
        if t in ("integer", "number"):
            n: dict = {"k": "scalar", "type": t, "null": null}
            mn, mx = s.get("minimum"), s.get("maximum")
            emn, emx = s.get("exclusiveMinimum"), s.get("exclusiveMaximum")
            if emn is True:
                emn, mn = mn, None
            elif emn is False:
                emn = None
            if emx is True:
                emx, mx = mx, None
            elif emx is False:
                emx = None
            for k, v in (("minimum", mn), ("maximum", mx), ("exclusiveMinimum", emn), ("exclusiveMaximum", emx), ("multipleOf", s.get("multipleOf"))):
                if v is not None:
                    n[k] = _num(v)
            if s.get("x-sibling-on-ref"):
                n["sibling_on_ref"] = True
            return n
        if t == "string":
            n = {"k": "scalar", "type": t, "null": null}
            for k in STR_KEYS:
                if s.get(k) is not None:
                    n[k] = s[k]
            if n.get("minLength") == 0:
                del n["minLength"]
            if s.get("x-sibling-on-ref"):
                n["sibling_on_ref"] = True
            return n
        if t == "boolean":
            return {"k": "scalar", "type": t, "null": null}
        if t == "array":
            n = {"k": "array", "items": self.nf(s.get("items", True), depth + 1), "null": null}
            for k in ARR_KEYS:
                if s.get(k) is not None:
                    n[k] = s[k]
            if n.get("minItems") == 0:
                del n["minItems"]
            return n
        if t == "object":
            props = s.get("properties") or {}
            ap = s.get("additionalProperties")
            n = {"k": "object", "null": null}
            if isinstance(s.get("type"), list) and "null" in s["type"]:
                n["type_list_null"] = True  # stays when a union hoists the null flag
            n["props"] = {nm: self.nf(ps, depth + 1) for nm, ps in props.items()}
            n["required"] = sorted(s.get("required", []))
            if s.get("x-allof-inherited-required"):
                n["inherited_required"] = list(s["x-allof-inherited-required"])
            if ap is False:
                n["ap"] = "forbid"
            elif isinstance(ap, dict) and ap:
                n["ap"] = self.nf(ap, depth + 1)
            else:
                n["ap"] = "open"
            return n
        return {"k": "any"}


@dataclass
class Diff:
    path: str
    keyword: str
    location: str
    expected: Any
    got: Any
    leaf: dict = field(default_factory=dict)


def compare(inp: dict, rep: dict, style: str, path: str = "$", location: str = "root", required: bool = True) -> list[Diff]:
    """Differences where the reported schema fails to carry a keyword of the input schema with the
    same value at the same place (directional: what the input states must be reported).
    Nullability is not compared for non-required members (pydantic adds `null` there: the property's
    null exemption) and not at all for v1 (`schema()` of pydantic v1 does not report it)."""
    out: list[Diff] = []
    if inp["k"] in ("any", "cut") or rep["k"] == "cut":
        return out
    if inp["k"] != rep["k"]:
        # a union with one alternative on one side etc. are already collapsed by nf
        out.append(Diff(path, "type", location, inp["k"], rep["k"], inp))
        return out
    if style == "v2" and required and inp.get("null") is False and rep.get("null") is True:
        out.append(Diff(path, "type", location, "not nullable", "nullable", inp))
    k = inp["k"]
    if k == "scalar":
        if inp["type"] != rep["type"]:
            out.append(Diff(path, "type", location, inp["type"], rep["type"], inp))
            return out
        for kw in (*BOUND_KEYS, *STR_KEYS):
            if kw in inp and inp[kw] != rep.get(kw):
                out.append(Diff(path, kw, location, inp[kw], rep.get(kw), inp))
    elif k == "enum":
        if inp["values"] != rep["values"]:
            out.append(Diff(path, "enum", location, inp["values"], rep["values"], inp))
    elif k == "array":
        for kw in ARR_KEYS:
            if kw in inp and inp[kw] != rep.get(kw):
                out.append(Diff(path, kw, location, inp[kw], rep.get(kw), inp))
        out += compare(inp["items"], rep["items"], style, path + "[]", "array_item", True)
    elif k == "object":
        for nm, ps in inp["props"].items():
            if nm not in rep["props"]:
                out.append(Diff(f"{path}.{nm}", "properties", "member", "declared", "missing", ps))
                continue
            # nullability is compared only where both sides agree the member is required (a lost
            # `required` is reported once, below; pydantic adds `null` to every non-required member)
            out += compare(ps, rep["props"][nm], style, f"{path}.{nm}", "member", nm in inp["required"] and nm in rep["required"])
        for nm in inp["required"]:
            if nm not in rep["required"]:
                ps = inp["props"].get(nm, {})
                if ps.get("k") == "cut":
                    continue  # recursion horizon of the normal form: the same class was compared one level up
                if nm in inp.get("inherited_required", []):
                    ps = {**ps, "inherited_required": True}
                out.append(Diff(f"{path}.{nm}", "required", "member", "required", "not required", ps))
        ia, ra = inp["ap"], rep["ap"]
        if ia == "forbid" and ra != "forbid":
            out.append(Diff(path, "additionalProperties", location, "false", ra if isinstance(ra, str) else "schema", inp))
        elif isinstance(ia, dict) and not inp["props"]:
            if not isinstance(ra, dict):
                out.append(Diff(path + ".*", "additionalProperties", "ap_value", "schema", ra, inp))
            else:
                out += compare(ia, ra, style, path + ".*", "ap_value", True)
    elif k == "union":
        ia, ra = inp["alts"], rep["alts"]
        if len(ia) != len(ra):
            out.append(Diff(path, "anyOf", location, len(ia), len(ra), inp))
        else:
            # alternatives are matched greedily by fewest differences
            left = list(ra)
            for a in ia:
                def cost(r):
                    same_kind = a["k"] == r["k"] and a.get("type") == r.get("type")
                    return (0 if same_kind else 1000) + len(compare(a, r, style, path + "|", location, True))

                best = min(left, key=cost)
                out += compare(a, best, style, path + "|", location, True)
                left.remove(best)
    return out
