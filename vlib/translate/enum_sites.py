"""Translator: who reserves which enum member names → Dcg/Gen/EnumSites.lean.

Two things are read off the syntax trees (never by running the code):

* `EnumFieldNameResolver.get_valid_name` (reference.py): the single `return super().get_valid_name(name=…,
  excludes=…, …)`.  The `excludes` argument is recognised as `excludes` (nothing added), `{"a", …} | (excludes or
  set())` or `(excludes or set()) | {"a", …}` (the string constants are the names the RESOLVER reserves for every
  caller); the `name` argument as `name` (no rewrite) or `"b" if name == "a" else name` (one rewrite).  Anything
  else is `unrecognised` (the flag `resolverRecognised` becomes false and the obligations about it break).
* every function of `parser/*.py` that calls `….get_valid_field_name(…, model_type=ModelType.ENUM)` — the CALL
  SITES of the enum resolver (`JsonSchemaParser.parse_enum`, inherited by the OpenAPI parser, and
  `GraphQLParser.parse_enum`).  Per site: the qualified name, the initial value of the set that is passed as
  `excludes=` (`set()` or a set display of string constants, read from the assignment that precedes the loop),
  whether that very set is what is passed (`passesSet`), and whether the returned name is added to it after each
  call (`addsResult`: `<set>.add(<target of the call>)` in the same loop body).  A site whose shape is not
  recognised gets `recognised = false`.

Moving the reservation of a name from the resolver into one call site, adding a third caller that starts from an
empty set, or dropping the `.add(...)` changes these tables; the model (`Dcg.Model.Names.effExcl` reads
`resolverExcludes`) follows, and the call-site obligations of Props/C09 are re-checked against them.
"""
from __future__ import annotations

import ast

from ..common import REPO
from ..lean import lean_str, lean_string

GEN_NAME = "EnumSites"
PKG = REPO / "src" / "datamodel_code_generator"


def _str_set(node: ast.AST) -> list[str] | None:
    """`set()` / `{"a", "b"}` → the strings; None when it is something else"""
    if isinstance(node, ast.Call) and isinstance(node.func, ast.Name) and node.func.id == "set" and not node.args and not node.keywords:
        return []
    if isinstance(node, ast.Set) and all(isinstance(e, ast.Constant) and isinstance(e.value, str) for e in node.elts):
        return sorted({e.value for e in node.elts})
    return None


def _is_name(node: ast.AST, ident: str) -> bool:
    return isinstance(node, ast.Name) and node.id == ident


def _excludes_or_empty(node: ast.AST) -> bool:
    """`excludes or set()`"""
    return (isinstance(node, ast.BoolOp) and isinstance(node.op, ast.Or) and len(node.values) == 2
            and _is_name(node.values[0], "excludes") and _str_set(node.values[1]) == [])


def resolver_facts() -> dict:
    tree = ast.parse((PKG / "reference.py").read_text())
    out = {"recognised": False, "excludes": [], "renames": [], "cls": ""}
    # which class serves ModelType.ENUM
    for node in ast.walk(tree):
        if isinstance(node, (ast.Assign, ast.AnnAssign)):
            tgt = node.targets[0] if isinstance(node, ast.Assign) else node.target
            if _is_name(tgt, "DEFAULT_FIELD_NAME_RESOLVERS") and isinstance(node.value, ast.Dict):
                for k, v in zip(node.value.keys, node.value.values):
                    if isinstance(k, ast.Attribute) and k.attr == "ENUM" and isinstance(v, ast.Name):
                        out["cls"] = v.id
    cls = next((n for n in tree.body if isinstance(n, ast.ClassDef) and n.name == out["cls"]), None)
    if cls is None:
        return out
    fn = next((n for n in cls.body if isinstance(n, ast.FunctionDef) and n.name == "get_valid_name"), None)
    if fn is None:
        # the class inherits get_valid_name unchanged: nothing reserved, nothing rewritten
        out["recognised"] = True
        return out
    stmts = [s for s in fn.body if not (isinstance(s, ast.Expr) and isinstance(s.value, ast.Constant))]
    if len(stmts) != 1 or not isinstance(stmts[0], ast.Return) or not isinstance(stmts[0].value, ast.Call):
        return out
    call = stmts[0].value
    f = call.func
    if not (isinstance(f, ast.Attribute) and f.attr == "get_valid_name" and isinstance(f.value, ast.Call)
            and _is_name(f.value.func, "super")) or call.args:
        return out
    kws = {k.arg: k.value for k in call.keywords}
    if set(kws) != {"name", "excludes", "ignore_snake_case_field", "upper_camel"}:
        return out
    if not (_is_name(kws["ignore_snake_case_field"], "ignore_snake_case_field") and _is_name(kws["upper_camel"], "upper_camel")):
        return out
    ex = kws["excludes"]
    if _is_name(ex, "excludes"):
        excludes: list[str] | None = []
    elif isinstance(ex, ast.BinOp) and isinstance(ex.op, ast.BitOr):
        a, b = ex.left, ex.right
        if _excludes_or_empty(b) and _str_set(a) is not None:
            excludes = _str_set(a)
        elif _excludes_or_empty(a) and _str_set(b) is not None:
            excludes = _str_set(b)
        else:
            excludes = None
    else:
        excludes = None
    nm = kws["name"]
    if _is_name(nm, "name"):
        renames: list[tuple[str, str]] | None = []
    elif (isinstance(nm, ast.IfExp) and isinstance(nm.body, ast.Constant) and isinstance(nm.body.value, str)
          and _is_name(nm.orelse, "name") and isinstance(nm.test, ast.Compare) and _is_name(nm.test.left, "name")
          and len(nm.test.ops) == 1 and isinstance(nm.test.ops[0], ast.Eq)
          and isinstance(nm.test.comparators[0], ast.Constant) and isinstance(nm.test.comparators[0].value, str)):
        renames = [(nm.test.comparators[0].value, nm.body.value)]
    else:
        renames = None
    if excludes is None or renames is None:
        return out
    out.update(recognised=True, excludes=excludes, renames=renames)
    return out


def _enum_calls(fn: ast.FunctionDef) -> list[ast.Call]:
    calls = []
    for node in ast.walk(fn):
        if isinstance(node, ast.Call) and isinstance(node.func, ast.Attribute) and node.func.attr == "get_valid_field_name":
            for kw in node.keywords:
                if kw.arg == "model_type" and isinstance(kw.value, ast.Attribute) and kw.value.attr == "ENUM":
                    calls.append(node)
    return calls


def _site(cls: str, fn: ast.FunctionDef, call: ast.Call) -> dict:
    site = {"name": f"{cls}.{fn.name}", "recognised": False, "init": [], "passesSet": False, "addsResult": False}
    ex = next((k.value for k in call.keywords if k.arg == "excludes"), call.args[1] if len(call.args) > 1 else None)
    if not isinstance(ex, ast.Name):
        return site
    var = ex.id
    # the one assignment of the set, directly in the function body, before the loop that contains the call
    assigns = [s for s in fn.body if isinstance(s, (ast.Assign, ast.AnnAssign))
               and _is_name(s.targets[0] if isinstance(s, ast.Assign) else s.target, var)]
    others = [n for n in ast.walk(fn) if isinstance(n, (ast.Assign, ast.AnnAssign, ast.AugAssign))
              and _is_name(n.targets[0] if isinstance(n, ast.Assign) else n.target, var) and n not in assigns]
    if len(assigns) != 1 or others or assigns[0].value is None:
        return site
    init = _str_set(assigns[0].value)
    if init is None:
        return site
    loop = next((s for s in fn.body if isinstance(s, ast.For) and any(n is call for n in ast.walk(s))), None)
    if loop is None or fn.body.index(loop) < fn.body.index(assigns[0]):
        return site
    site.update(recognised=True, init=init, passesSet=True)
    # `<target> = …get_valid_field_name(…)` and later in the same loop body `<var>.add(<target>)`
    tgt = None
    for i, s in enumerate(loop.body):
        if isinstance(s, ast.Assign) and s.value is call and len(s.targets) == 1 and isinstance(s.targets[0], ast.Name):
            tgt = (i, s.targets[0].id)
    if tgt is not None:
        for s in loop.body[tgt[0] + 1:]:
            if isinstance(s, ast.Assign) and any(_is_name(t, tgt[1]) for t in s.targets):
                break  # the name is rebound before it is recorded
            if (isinstance(s, ast.Expr) and isinstance(s.value, ast.Call) and isinstance(s.value.func, ast.Attribute)
                    and s.value.func.attr == "add" and _is_name(s.value.func.value, var)
                    and len(s.value.args) == 1 and _is_name(s.value.args[0], tgt[1])):
                site["addsResult"] = True
                break
    # nothing else may touch the set inside the loop (discard / clear / remove / update)
    for n in ast.walk(loop):
        if (isinstance(n, ast.Call) and isinstance(n.func, ast.Attribute) and _is_name(n.func.value, var)
                and n.func.attr != "add"):
            site["recognised"] = False
    return site


def call_sites() -> list[dict]:
    sites = []
    for path in sorted((PKG / "parser").glob("*.py")):
        tree = ast.parse(path.read_text())
        for cls in [n for n in tree.body if isinstance(n, ast.ClassDef)]:
            for fn in [n for n in cls.body if isinstance(n, ast.FunctionDef)]:
                for call in _enum_calls(fn):
                    sites.append(_site(cls.name, fn, call))
        # calls outside any class method (none today) are sites too
        for fn in [n for n in tree.body if isinstance(n, ast.FunctionDef)]:
            for call in _enum_calls(fn):
                sites.append(_site(path.stem, fn, call))
    return sorted(sites, key=lambda s: s["name"])


def facts() -> dict:
    return {"resolver": resolver_facts(), "sites": call_sites()}


def generate() -> str:
    f = facts()
    r = f["resolver"]
    b = lambda v: "true" if v else "false"  # noqa: E731
    out = ["namespace Dcg.Gen.EnumSites", ""]
    out.append(f"/-- the class registered for `ModelType.ENUM` in `DEFAULT_FIELD_NAME_RESOLVERS` -/")
    out.append(f"def resolverClass : String := {lean_string(r['cls'])}")
    out.append("/-- its `get_valid_name` has the reviewed shape `return super().get_valid_name(name=…, excludes=…, …)` -/")
    out.append(f"def resolverRecognised : Bool := {b(r['recognised'])}")
    out.append("/-- names the resolver itself adds to the excludes of every call -/")
    out.append("def resolverExcludes : List (List Char) := [" + ", ".join(f"{lean_str(s)} /- {s} -/" for s in r["excludes"]) + "]")
    out.append("/-- names the resolver rewrites before sanitising (`\"b\" if name == \"a\" else name`) -/")
    out.append("def resolverRenames : List (List Char × List Char) := ["
               + ", ".join(f"({lean_str(a)}, {lean_str(c)}) /- {a} -> {c} -/" for a, c in r["renames"]) + "]")
    out.append("")
    out.append("/-- a function that asks the enum resolver for member names -/")
    out.append("structure Site where")
    out.append("  name : String")
    out.append("  /-- the shape of the function was recognised by the translator -/")
    out.append("  recognised : Bool")
    out.append("  /-- what the excludes set holds before the first member -/")
    out.append("  init : List (List Char)")
    out.append("  /-- that set is what is passed as `excludes=` -/")
    out.append("  passesSet : Bool")
    out.append("  /-- every returned name is added to it -/")
    out.append("  addsResult : Bool")
    out.append("")
    out.append("def sites : List Site := [")
    out.append(",\n".join(
        f"  ⟨{lean_string(s['name'])}, {b(s['recognised'])}, [" + ", ".join(f"{lean_str(x)} /- {x} -/" for x in s["init"])
        + f"], {b(s['passesSet'])}, {b(s['addsResult'])}⟩" for s in f["sites"]))
    out.append("]")
    out += ["", "end Dcg.Gen.EnumSites", ""]
    return "\n".join(out)
