"""Regenerate every Dcg/Gen/*.lean file from /repo's current working tree."""
from __future__ import annotations

import importlib
import pkgutil
import sys

from .. import lean

# module name -> Gen file name; each module has generate() -> str
REGISTRY = {
    "esc": "EscTables",
    "templates": "Templates",
}


def discover() -> dict[str, str]:
    reg = dict(REGISTRY)
    from . import __path__ as pkgpath

    for m in pkgutil.iter_modules(pkgpath):
        if m.name in ("all",) or m.name in reg:
            continue
        mod = importlib.import_module(f"{__package__}.{m.name}")
        if hasattr(mod, "GEN_NAME") and hasattr(mod, "generate"):
            reg[m.name] = mod.GEN_NAME
    return reg


def regenerate(only: list[str] | None = None) -> dict[str, bool]:
    out = {}
    for modname, gen in discover().items():
        if only and gen not in only:
            continue
        mod = importlib.import_module(f"{__package__}.{modname}")
        out[gen] = lean.write_gen(gen, mod.generate())
    return out


if __name__ == "__main__":
    with lean.build_lock():
        res = regenerate()
    for k, v in res.items():
        print(f"Gen/{k}.lean: {'rewritten' if v else 'unchanged'}")
    sys.exit(0)
