"""Translator: every Jinja template → list of interpolation sites with the Python lexical
state(s) in which each one stands → Dcg/Gen/Templates.lean.

The lexical state is computed by a small data-flow analysis over the template's block
structure: a *set* of possible states is propagated; `if/elif/else` joins its branches
(plus fall-through when there is no `else`), `for` is a fix-point of zero-or-more
iterations, `macro` bodies are analysed from `code`."""
from __future__ import annotations

import re

from jinja2 import Environment

from ..common import REPO
from ..lean import lean_string

TEMPLATE_DIR = REPO / "src" / "datamodel_code_generator" / "model" / "template"

CODE, SQ, DQ, TSQ, TDQ, COMMENT, ERR = "code", "sq", "dq", "tsq", "tdq", "comment", "err"


def lex_text(state: str, text: str) -> str:
    """Python lexical state after `text`, starting in `state`."""
    i, n = 0, len(text)
    while i < n:
        c = text[i]
        if state == CODE:
            if c == "#":
                state = COMMENT
            elif text.startswith("'''", i):
                state, i = TSQ, i + 2
            elif text.startswith('"""', i):
                state, i = TDQ, i + 2
            elif c == "'":
                state = SQ
            elif c == '"':
                state = DQ
        elif state == COMMENT:
            if c in "\r\n":
                state = CODE
        elif state in (SQ, DQ):
            q = "'" if state == SQ else '"'
            if c == "\\":
                i += 1
            elif c == q:
                state = CODE
            elif c in "\r\n":
                state = ERR
        elif state in (TSQ, TDQ):
            q = "'''" if state == TSQ else '"""'
            if c == "\\":
                i += 1
            elif text.startswith(q, i):
                state, i = CODE, i + 2
        i += 1
    return state


def _nodes(source: str):
    """Flat token stream of jinja2's own lexer (whitespace control already applied) →
    list of ('data', text) | ('var', expr, filters, line) | ('block', name, rest, line)."""
    env = Environment()  # noqa: S701
    toks = list(env.lex(source))
    out = []
    i = 0
    while i < len(toks):
        line, typ, val = toks[i]
        if typ == "data":
            out.append(("data", val))
            i += 1
        elif typ in ("variable_begin", "block_begin"):
            end = "variable_end" if typ == "variable_begin" else "block_end"
            j = i + 1
            parts = []
            while toks[j][1] != end:
                if toks[j][1] != "whitespace":
                    parts.append(toks[j][2])
                j += 1
            if typ == "variable_begin":
                text = " ".join(parts)
                segs = [s.strip() for s in text.split("|")]
                expr = re.sub(r"\s+", "", segs[0])
                filters = [re.sub(r"\s+", "", s) for s in segs[1:]]
                out.append(("var", expr, filters, line))
            else:
                out.append(("block", parts[0] if parts else "", " ".join(parts[1:]), line))
            i = j + 1
        else:  # comments, raw etc.
            i += 1
    return out


class Analyzer:
    def __init__(self, name: str) -> None:
        self.name = name
        self.sites: dict[tuple, set[str]] = {}
        self.order: list[tuple] = []

    def site(self, idx: int, line: int, expr: str, filters, states: set[str]) -> None:
        key = (idx, line, expr, tuple(filters))
        if key not in self.sites:
            self.sites[key] = set()
            self.order.append(key)
        self.sites[key] |= states

    def seq(self, nodes, i: int, states: set[str], stop: tuple[str, ...]) -> tuple[int, set[str], str]:
        """Analyse nodes from i until a block whose name is in `stop`; returns (index of the
        stopping block, states, its name)."""
        while i < len(nodes):
            nd = nodes[i]
            if nd[0] == "data":
                states = {lex_text(s, nd[1]) for s in states}
                i += 1
            elif nd[0] == "var":
                self.site(i, nd[3], nd[1], nd[2], states)
                i += 1
            else:
                _, name, rest, line = nd
                if name in stop:
                    return i, states, name
                if name == "if":
                    out: set[str] = set()
                    has_else = False
                    j, st, which = self.seq(nodes, i + 1, set(states), ("elif", "else", "endif"))
                    out |= st
                    while which in ("elif", "else"):
                        if which == "else":
                            has_else = True
                        j, st, which = self.seq(nodes, j + 1, set(states), ("elif", "else", "endif"))
                        out |= st
                    if not has_else:
                        out |= states
                    states = out
                    i = j + 1
                elif name == "for":
                    self.site(i, line, "for:" + re.sub(r"\s+", "", rest), (), {"-"})  # no output: state irrelevant
                    cur = set(states)
                    while True:
                        j, st, _ = self.seq(nodes, i + 1, set(cur), ("endfor",))
                        new = cur | st
                        if new == cur:
                            break
                        cur = new
                    states = cur
                    i = j + 1
                elif name == "macro":
                    j, _st, _ = self.seq(nodes, i + 1, {CODE}, ("endmacro",))
                    i = j + 1
                elif name == "filter":
                    j, states, _ = self.seq(nodes, i + 1, states, ("endfilter",))
                    i = j + 1
                elif name == "include":
                    self.site(i, line, "include:" + rest.strip().strip("'\""), (), states)
                    i += 1
                else:  # set, etc.: no output
                    i += 1
        return i, states, ""


def analyse(path) -> tuple[list[tuple[int, str, tuple, list[str]]], list[str]]:
    a = Analyzer(path.name)
    _, final, _ = a.seq(_nodes(path.read_text()), 0, {CODE}, ())
    return [(k[1], k[2], k[3], sorted(a.sites[k])) for k in a.order], sorted(final)


def all_sites():
    res = []
    finals = []
    for p in sorted(TEMPLATE_DIR.rglob("*.jinja2")):
        rel = str(p.relative_to(TEMPLATE_DIR))
        sites, final = analyse(p)
        for line, expr, filters, states in sites:
            res.append((rel, line, expr, list(filters), states))
        finals.append((rel, final))
    return res, finals


def generate() -> str:
    sites, finals = all_sites()
    out = [
        "namespace Dcg.Gen.Templates",
        "",
        "structure Site where",
        "  template : String",
        "  line : Nat",
        "  expr : String",
        "  filters : List String",
        "  states : List String",
        "  deriving Repr, DecidableEq",
        "",
        "def sites : List Site := [",
    ]
    rows = []
    for rel, line, expr, filters, states in sites:
        fl = "[" + ", ".join(lean_string(f) for f in filters) + "]"
        sl = "[" + ", ".join(lean_string(s) for s in states) + "]"
        rows.append(f"  ⟨{lean_string(rel)}, {line}, {lean_string(expr)}, {fl}, {sl}⟩")
    out.append(",\n".join(rows))
    out.append("]\n")
    out.append("/-- lexical state(s) at the end of each template -/")
    out.append("def finals : List (String × List String) := [")
    out.append(",\n".join(f"  ({lean_string(r)}, [{', '.join(lean_string(s) for s in f)}])" for r, f in finals))
    out.append("]\n")
    out.append("end Dcg.Gen.Templates")
    return "\n".join(out) + "\n"
