"""Translator: the effect sequence of `generate()` and `chdir()` → Dcg/Gen/GenerateSteps.lean.

From the `ast` of `src/datamodel_code_generator/__init__.py`:

* `generate()` is flattened, in source (= evaluation) order, into steps: every call is either a
  file-system effect (`mkdir`, `open` for writing, `print(file=…)`/`.write`, `close`, other
  mutators), an `os.chdir`, the enter/exit of `with chdir(…)`, a call of the BENIGN list below
  (pure on the values it receives here), or a *may-raise* step (everything else: loaders, parser
  construction, `parser.parse()`, file reads, imports, asserts); `raise` statements are steps of
  their own.  The first loop that contains a file-system effect is THE write loop: the list is
  split into `pre`, `loopBody`, `post` there.
* From the first file-system effect on — and in the whole write loop, whose second iteration
  comes after the effects of the first — classification is STRICT: only `exists/is_dir/is_file`,
  `str.rstrip/strip` and `.format` on a variable that `generate()` assembles from string literals
  and f-strings alone are benign; every other call, every `%` on a non-numeric left operand and
  every subscript is a may-raise step (a user-supplied header run through `str.format` after
  `open` is one).
* `<text>.encode(…)` is an `encodeCheck` step; inside a loop over the same dict as the write loop it
  is marked `perModule`. The expression it encodes and the expressions the write loop prints are
  recorded (normalised: `x.rstrip()` ↦ `x`, `x or ''` ↦ `x`) so that Lean can decide that what is
  printed was checked.
* `chdir()` is flattened into save / try / chdir / yield / finally steps, separately for the
  `path is None` branch and the other one; a file-system effect of the context manager itself (`mkdir`, open for writing,
  `write_text`, `unlink`, … — directly or through a module-level helper) is a `mkdir` / `fsEffect` step of its table.
* a call of a module-level function of `__init__.py` (a helper of `generate()`) contributes, before its own may-raise step,
  the file-system effects and directory switches found in its body (nested helpers up to depth 3).

* `parseCallArguments`: the arguments `generate()` passes to `parser.parse(…)` (positional ones as `<positional>`, keywords by
  name). The formatting stage (black / isort / ruff configuration discovery, isort's first-party detection) runs inside
  `parse()` and looks at the process's working directory unless it is told otherwise; Props/C08 reads this list and the
  `chdirEnter` step (`what` = source text `chdir(output)`) as the reviewed shape "formatting happens in the output directory".

Moving an `open` above `parser.parse()`, adding a may-raise call to the write loop, or dropping
the `finally` changes these tables and the theorems of Props/C20 are re-checked against them.
"""
from __future__ import annotations

import ast

from ..common import REPO
from ..lean import lean_string

GEN_NAME = "GenerateSteps"
SRC = REPO / "src" / "datamodel_code_generator" / "__init__.py"

# Calls that cannot fail on the values `generate()` hands them (type tests, string/dict/path
# arithmetic without I/O, existence tests).  TRUSTED list, printed into the generated file.
BENIGN = {
    "isinstance", "getattr", "str", "sorted", "dict", "list", "tuple", "set", "len", "cast", "bool",
    "format", "rstrip", "strip", "items", "keys", "values", "joinpath", "as_posix", "exists",
    "is_dir", "is_file", "geturl", "now", "replace", "isoformat", "get", "print",
}
# the only calls treated as benign once the file system has been touched (see module docstring)
STRICT_BENIGN = {"exists", "is_dir", "is_file", "rstrip", "strip"}
FS_MUTATORS = {"unlink", "rename", "rmdir", "touch", "rmtree", "remove", "replace_file", "symlink_to", "hardlink_to", "chmod", "makedirs"}


def dotted(node: ast.AST) -> str:
    if isinstance(node, ast.Name):
        return node.id
    if isinstance(node, ast.Attribute):
        return dotted(node.value) + "." + node.attr
    if isinstance(node, ast.Call):
        return dotted(node.func) + "()"
    return "<expr>"


def const_str(node: ast.AST | None) -> str | None:
    return node.value if isinstance(node, ast.Constant) and isinstance(node.value, str) else None


def open_mode(call: ast.Call) -> str | None:
    """mode of `X.open(mode, …)` / `open(file, mode, …)`; None = not given (read)"""
    is_method = isinstance(call.func, ast.Attribute)
    pos = call.args[0:1] if is_method else call.args[1:2]
    for kw in call.keywords:
        if kw.arg == "mode":
            return const_str(kw.value) or "?"
    if pos:
        return const_str(pos[0]) or "?"
    return None


def target_of(node: ast.AST, loop_var: str | None) -> str:
    """which path a file-system effect acts on, relative to the write loop's variable"""
    s = ast.unparse(node)
    if loop_var and s == loop_var:
        return "loopPath"
    if loop_var and s == f"{loop_var}.parent":
        return "loopPathParent"
    return "other:" + s


def base_expr(node: ast.AST | None) -> str:
    """normal form of a text expression: `x.rstrip()`/`x.strip()` ↦ x, `x or ''` ↦ x"""
    if node is None:
        return ""
    if isinstance(node, ast.Call) and isinstance(node.func, ast.Attribute) and node.func.attr in ("rstrip", "strip") and not node.args:
        return base_expr(node.func.value)
    if isinstance(node, ast.BoolOp) and isinstance(node.op, ast.Or) and len(node.values) == 2 and isinstance(node.values[1], ast.Constant) and node.values[1].value == "":
        return base_expr(node.values[0])
    return ast.unparse(node)


def literal_built_names(fn: ast.FunctionDef) -> set[str]:
    """local variables of `fn` that are assembled from string literals and f-strings only"""
    params = {a.arg for a in [*fn.args.posonlyargs, *fn.args.args, *fn.args.kwonlyargs]}
    ok: dict[str, bool] = {}

    def lit(v: ast.AST | None) -> bool:
        return isinstance(v, ast.JoinedStr) or (isinstance(v, ast.Constant) and isinstance(v.value, str))

    for node in ast.walk(fn):
        targets: list[ast.AST] = []
        value = None
        if isinstance(node, ast.Assign):
            targets, value = node.targets, node.value
        elif isinstance(node, (ast.AugAssign, ast.AnnAssign)):
            targets, value = [node.target], node.value
            if isinstance(node, ast.AnnAssign) and value is None:
                continue
        elif isinstance(node, (ast.For, ast.comprehension)):
            targets, value = [node.target], None
        elif isinstance(node, ast.withitem) and node.optional_vars is not None:
            targets, value = [node.optional_vars], None
        elif isinstance(node, ast.NamedExpr):
            targets, value = [node.target], node.value
        for t in targets:
            for nm in [n.id for n in ast.walk(t) if isinstance(n, ast.Name)]:
                ok[nm] = ok.get(nm, True) and lit(value) and isinstance(t, ast.Name)
    return {n for n, good in ok.items() if good and n not in params}


def has_fs_effect(stmts: list[ast.stmt]) -> bool:
    f = Flatten(set())
    f.block(stmts)
    return any(k in EFFECTS for k, _, _ in f.steps)


class Flatten:
    def __init__(self, literal_names: set[str], helpers: dict[str, ast.FunctionDef] | None = None, depth: int = 0) -> None:
        self.helpers = helpers or {}   # module-level functions of __init__.py: their file-system effects are inlined at the call
        self.depth = depth
        self.steps: list[tuple[str, str, str]] = []  # (kind, what, target)
        self.loop_vars: list[str] = []
        self.loop_iters: list[str] = []
        self.file_vars: dict[str, str] = {}  # variable bound to an open-for-writing file -> target
        self.literal_names = literal_names
        self.strict_loops = 0  # inside a loop that contains a file-system effect

    @property
    def strict(self) -> bool:
        return self.strict_loops > 0 or any(k in EFFECTS for k, _, _ in self.steps)

    def emit(self, kind: str, what: str, target: str = "") -> None:
        self.steps.append((kind, what, target))

    # ---- expressions -------------------------------------------------------
    def expr(self, node: ast.AST | None) -> None:
        if node is None:
            return
        if isinstance(node, ast.Lambda):
            return
        if isinstance(node, ast.Call):
            if isinstance(node.func, ast.Attribute):
                self.expr(node.func.value)
            elif not isinstance(node.func, ast.Name):
                self.expr(node.func)
            for a in node.args:
                self.expr(a.value if isinstance(a, ast.Starred) else a)
            for kw in node.keywords:
                self.expr(kw.value)
            self.call(node)
            return
        for child in ast.iter_child_nodes(node):
            if isinstance(child, (ast.expr, ast.comprehension, ast.keyword)):
                self.expr(child)
        if isinstance(node, ast.BinOp) and isinstance(node.op, ast.Mod) and not (
            isinstance(node.left, ast.Constant) and isinstance(node.left.value, (int, float))
        ):
            self.emit("mayRaise" if self.strict else "benign", "%-format")
        elif isinstance(node, ast.Subscript) and isinstance(node.ctx, ast.Load) and self.strict:
            self.emit("mayRaise", "subscript " + ast.unparse(node)[:30])

    def call(self, node: ast.Call) -> None:
        name = dotted(node.func)
        last = name.split(".")[-1]
        lv = self.loop_vars[-1] if self.loop_vars else None
        recv = node.func.value if isinstance(node.func, ast.Attribute) else None
        if name in self.helpers and self.depth < 3:
            # a helper defined beside generate(): what it does to the file system (and to the working directory) happens HERE
            sub = Flatten(set(), {k: v for k, v in self.helpers.items() if k != name}, self.depth + 1)
            sub.block(self.helpers[name].body)
            for k, w, _ in sub.steps:
                if k in EFFECTS or k == "osChdir":
                    self.emit(k, f"{name}(): {w}", "other:" + name)
        if name == "os.chdir" or last == "chdir" and name != "chdir":
            self.emit("osChdir", name)
        elif last == "mkdir" or name in ("os.makedirs", "os.mkdir"):
            self.emit("mkdir", name, target_of(recv, lv) if recv is not None else "other:?")
        elif last == "open" and (recv is not None or name == "open"):
            mode = open_mode(node)
            tgt = target_of(recv, lv) if recv is not None else ("other:" + ast.unparse(node.args[0]) if node.args else "other:?")
            if mode is not None and any(c in mode for c in "wax+?"):
                self.emit("openW", f"{name}({mode!r})", tgt)
            else:
                self.emit("mayRaise", f"{name}(read)")
        elif last in ("write_text", "write_bytes"):
            tgt = target_of(recv, lv)
            self.emit("openW", name, tgt)
            self.emit("write", name, tgt)
            self.emit("close", name, tgt)
        elif last in ("write", "writelines", "flush", "truncate"):
            self.emit("write", name, self.file_vars.get(dotted(recv), "other:" + dotted(recv)))
        elif last == "close":
            self.emit("close", name, self.file_vars.get(dotted(recv), "other:" + dotted(recv)))
        elif name == "print":
            fkw = next((kw.value for kw in node.keywords if kw.arg == "file"), None)
            if fkw is None or ast.unparse(fkw) in ("sys.stderr", "sys.stdout"):
                self.emit("benign", "print(console)")
            else:
                # what = the (normalised) text expression that is written; "" for a bare newline
                self.emit("write", base_expr(node.args[0]) if node.args else "", self.file_vars.get(dotted(fkw), "other:" + dotted(fkw)))
        elif last in FS_MUTATORS or name.startswith("shutil."):
            self.emit("fsOther", name, target_of(recv, lv) if recv is not None else "other:?")
        elif last == "encode" and recv is not None:
            per_module = bool(self.loop_iters) and self.loop_iters[-1] != ""
            self.emit("encodeCheck", base_expr(recv), ("iter:" + self.loop_iters[-1]) if per_module else "")
        elif self.strict:
            if last in STRICT_BENIGN and recv is not None:
                self.emit("benign", name)
            elif last == "format" and isinstance(recv, ast.Name) and recv.id in self.literal_names:
                self.emit("benign", f"{name}(literal-built)")
            else:
                self.emit("mayRaise", name)
        elif last in BENIGN:
            self.emit("benign", name)
        else:
            self.emit("mayRaise", name)

    # ---- statements ---------------------------------------------------------
    def block(self, stmts: list[ast.stmt]) -> None:
        for st in stmts:
            self.stmt(st)

    def stmt(self, st: ast.stmt) -> None:
        if isinstance(st, (ast.FunctionDef, ast.AsyncFunctionDef, ast.ClassDef, ast.Pass, ast.Global, ast.Nonlocal, ast.Break, ast.Continue)):
            return
        if isinstance(st, (ast.Import, ast.ImportFrom)):
            mod = st.module if isinstance(st, ast.ImportFrom) else st.names[0].name
            self.emit("mayRaise", f"import {mod}")
        elif isinstance(st, ast.Raise):
            self.expr(st.exc)
            self.emit("raise", ast.unparse(st.exc).split("(")[0] if st.exc else "re-raise")
        elif isinstance(st, ast.Assert):
            self.expr(st.test)
            self.emit("mayRaise", "assert")
        elif isinstance(st, ast.If):
            self.expr(st.test)
            self.block(st.body)
            self.block(st.orelse)
        elif isinstance(st, (ast.For, ast.While)):
            if isinstance(st, ast.For):
                self.expr(st.iter)
                var = ast.unparse(st.target.elts[0]) if isinstance(st.target, ast.Tuple) else ast.unparse(st.target)
            else:
                self.expr(st.test)
                var = ""
            it = ast.unparse(st.iter) if isinstance(st, ast.For) else ""
            self.emit("loopBegin", it or "while")
            effectful = has_fs_effect(st.body)
            self.loop_vars.append(var)
            self.loop_iters.append(it)
            self.strict_loops += effectful
            self.block(st.body)
            self.strict_loops -= effectful
            self.loop_iters.pop()
            self.loop_vars.pop()
            self.emit("loopEnd", "")
            self.block(st.orelse)
        elif isinstance(st, ast.With):
            exits = []
            for item in st.items:
                ce = item.context_expr
                if isinstance(ce, ast.Call) and dotted(ce.func) == "chdir":
                    for a in ce.args:
                        self.expr(a)
                    self.emit("chdirEnter", ast.unparse(ce))
                    exits.append(("chdirExit", ""))
                elif isinstance(ce, ast.Call) and dotted(ce.func).split(".")[-1] == "open":
                    n0 = len(self.steps)
                    self.expr(ce)
                    if any(k == "openW" for k, _, _ in self.steps[n0:]) and item.optional_vars is not None:
                        tgt = next(t for k, _, t in self.steps[n0:] if k == "openW")
                        self.file_vars[ast.unparse(item.optional_vars)] = tgt
                        exits.append(("close", "with-exit", tgt))
                else:
                    self.expr(ce)
            self.block(st.body)
            for e in reversed(exits):
                self.emit(*e)
        elif isinstance(st, ast.Try):
            if st.finalbody:
                self.emit("tryBegin", "")
            self.block(st.body)
            for h in st.handlers:
                self.block(h.body)
            self.block(st.orelse)
            if st.finalbody:
                self.emit("finallyBegin", "")
                self.block(st.finalbody)
                self.emit("tryEnd", "")
        elif isinstance(st, ast.Return):
            self.expr(st.value)
            self.emit("ret", "")
        elif isinstance(st, ast.Assign):
            self.expr(st.value)
            # `file = path.open("wt")`: remember which variable holds the file opened for writing
            if self.steps and self.steps[-1][0] == "openW" and len(st.targets) == 1:
                self.file_vars[ast.unparse(st.targets[0])] = self.steps[-1][2]
        elif isinstance(st, (ast.AugAssign, ast.AnnAssign)):
            self.expr(st.value)
        elif isinstance(st, ast.Expr):
            self.expr(st.value)
        elif isinstance(st, ast.Delete):
            return
        else:
            self.emit("unknown", type(st).__name__)


EFFECTS = {"mkdir", "openW", "write", "close", "fsOther"}


def split_at_write_loop(steps: list[tuple[str, str, str]]):
    """(pre, loopBody, post): the first loop whose body contains a file-system effect"""
    i = 0
    while i < len(steps):
        if steps[i][0] == "loopBegin":
            depth, j = 1, i + 1
            while j < len(steps) and depth:
                depth += steps[j][0] == "loopBegin"
                depth -= steps[j][0] == "loopEnd"
                j += 1
            body = steps[i + 1 : j - 1]
            if any(k in EFFECTS for k, _, _ in body):
                return steps[:i], body, steps[j:], steps[i][1]
        i += 1
    return steps, [], [], ""


def key_exprs(fn: ast.FunctionDef, loop_iter: str) -> list[str]:
    """key expressions of the dict displays / comprehensions assigned to the variable the write loop iterates over"""
    var = loop_iter.split(".")[0]
    out = []
    for node in ast.walk(fn):
        if isinstance(node, ast.Assign) and any(ast.unparse(t) == var for t in node.targets):
            v = node.value
            if isinstance(v, ast.Dict):
                out += [ast.unparse(k) for k in v.keys if k is not None]
            elif isinstance(v, ast.DictComp):
                out.append(ast.unparse(v.key))
            else:
                out.append("<" + type(v).__name__ + ">")
    return sorted(set(out))


def chdir_tables(fn: ast.FunctionDef, helpers: dict[str, ast.FunctionDef] | None = None) -> tuple[list[tuple[str, str]], list[tuple[str, str]]]:
    """(steps when `path is None`, steps otherwise) of the context manager"""

    def flat(stmts: list[ast.stmt], saved: set[str]) -> list[tuple[str, str]]:
        out: list[tuple[str, str]] = []
        for st in stmts:
            if isinstance(st, ast.Expr) and isinstance(st.value, (ast.Yield, ast.YieldFrom)):
                out.append(("yield", ""))
            elif isinstance(st, ast.Expr) and isinstance(st.value, ast.Constant):
                continue  # docstring
            elif isinstance(st, ast.Assign) and isinstance(st.value, ast.Call) and dotted(st.value.func) in ("Path.cwd", "os.getcwd"):
                saved.add(ast.unparse(st.targets[0]))
                out.append(("saveCwd", ast.unparse(st.targets[0])))
            elif isinstance(st, ast.Expr) and isinstance(st.value, ast.Call) and dotted(st.value.func) == "os.chdir":
                arg = ast.unparse(st.value.args[0]) if st.value.args else "?"
                out.append(("chdirSaved", arg) if arg in saved else ("chdirTarget", arg))
            elif isinstance(st, ast.Try):
                if st.handlers or st.orelse or not st.finalbody:
                    out.append(("unknown", "try with handlers"))
                out.append(("tryBegin", ""))
                out += flat(st.body, saved)
                out.append(("finallyBegin", ""))
                out += flat(st.finalbody, saved)
                out.append(("tryEnd", ""))
            elif isinstance(st, ast.If):
                out.append(("unknown", "nested if"))
            else:
                # any other statement: its file-system effects (mkdir / open for writing / write_text / unlink / …, also those of
                # module-level helpers it calls) are steps of their own, in evaluation order; a directory switch hidden in it too
                f = Flatten(set(), helpers)
                f.stmt(st)
                eff = [(k, w) for k, w, _ in f.steps if k in EFFECTS or k == "osChdir"]
                for k, w in eff:
                    out.append(("mkdir", w) if k == "mkdir" else (("chdirTarget", w) if k == "osChdir" else ("fsEffect", w)))
                if not eff:
                    out.append(("other", ast.unparse(st)[:40]))
        return out

    body = [st for st in fn.body if not (isinstance(st, ast.Expr) and isinstance(st.value, ast.Constant))]
    if len(body) == 1 and isinstance(body[0], ast.If) and ast.unparse(body[0].test) in ("path is None", "not path"):
        return flat(body[0].body, set()), flat(body[0].orelse, set())
    both = flat(body, set())
    return both, both


def parse_call_arguments(fn: ast.FunctionDef) -> list[str]:
    """what `generate()` passes to `parser.parse(...)`: `<positional>` per positional argument, keyword names, `**` for a splat"""
    out: list[str] = []
    for node in ast.walk(fn):
        if isinstance(node, ast.Call) and dotted(node.func) == "parser.parse":
            out += ["<positional>"] * len(node.args)
            out += [kw.arg if kw.arg is not None else "**" for kw in node.keywords]
    return out


# ---------------------------------------------------------------- refusals: every `raise` with its guarding conditions
def _own_exprs(st: ast.stmt) -> list[ast.AST]:
    """the expressions evaluated by the statement itself (not by the blocks nested in it)"""
    if isinstance(st, (ast.If, ast.While)):
        return [st.test]
    if isinstance(st, ast.For):
        return [st.iter]
    if isinstance(st, ast.With):
        return [i.context_expr for i in st.items]
    if isinstance(st, ast.Try):
        return []
    if isinstance(st, (ast.FunctionDef, ast.AsyncFunctionDef, ast.ClassDef)):
        return []
    return [st]


def _calls(nodes: list[ast.AST]) -> list[ast.Call]:
    out = []
    for n in nodes:
        out += [c for c in ast.walk(n) if isinstance(c, ast.Call) and not isinstance(c, ast.Lambda)]
    return out


class Refusals:
    """walk of a function body in source order with the stack of enclosing conditions; `raise` statements of module-level helpers
    called on the way are inlined under the conditions of the call site (one level deep, helpers of helpers too, no recursion)"""

    def __init__(self, fns: dict[str, ast.FunctionDef]) -> None:
        self.fns = fns
        self.helpers = {n for n, f in fns.items() if n != "generate" and any(isinstance(x, ast.Raise) for x in ast.walk(f))}
        self.rows: list[tuple[str, str, str, list[str], bool, bool]] = []
        self.seen_parse = False
        self.seen_write = False

    def message(self, block: list[ast.stmt], i: int, exc: ast.AST | None) -> tuple[str, str]:
        if exc is None:
            return "re-raise", ""
        name = dotted(exc.func) if isinstance(exc, ast.Call) else dotted(exc)
        arg = exc.args[0] if isinstance(exc, ast.Call) and exc.args else None
        if isinstance(arg, ast.Name):
            for prev in reversed(block[:i]):
                if isinstance(prev, ast.Assign) and any(ast.unparse(t) == arg.id for t in prev.targets):
                    arg = prev.value
                    break
        if arg is None:
            return name, ""
        return name, (const_str(arg) if const_str(arg) is not None else ast.unparse(arg))

    def leaf(self, fn: str, st: ast.stmt, conds: list[str], depth: int) -> None:
        own = _own_exprs(st)
        for c in _calls(own):
            nm = dotted(c.func)
            if nm in self.helpers and nm != fn and depth < 3:
                self.block(nm, self.fns[nm].body, conds, depth + 1)
            if fn == "generate" and nm == "parser.parse":
                self.seen_parse = True
        if fn == "generate" and own and not isinstance(st, (ast.If, ast.While, ast.For, ast.With)) and has_fs_effect([st]):
            self.seen_write = True

    def block(self, fn: str, stmts: list[ast.stmt], conds: list[str], depth: int = 0) -> None:
        for i, st in enumerate(stmts):
            if isinstance(st, (ast.FunctionDef, ast.AsyncFunctionDef, ast.ClassDef)):
                continue
            self.leaf(fn, st, conds, depth)
            if isinstance(st, ast.Raise):
                exc, msg = self.message(stmts, i, st.exc)
                self.rows.append((fn, exc, msg, list(conds), self.seen_parse, not self.seen_write))
            elif isinstance(st, ast.If):
                t = ast.unparse(st.test)
                self.block(fn, st.body, [*conds, t], depth)
                self.block(fn, st.orelse, [*conds, f"not ({t})"], depth)
            elif isinstance(st, (ast.For, ast.While)):
                self.block(fn, st.body, conds, depth)
                self.block(fn, st.orelse, conds, depth)
            elif isinstance(st, ast.With):
                if fn == "generate" and any(has_fs_effect([ast.Expr(i.context_expr)]) for i in st.items):
                    self.seen_write = True
                self.block(fn, st.body, conds, depth)
            elif isinstance(st, ast.Try):
                self.block(fn, st.body, conds, depth)
                for h in st.handlers:
                    self.block(fn, h.body, [*conds, "except " + (ast.unparse(h.type) if h.type else "<any>")], depth)
                self.block(fn, st.orelse, conds, depth)
                self.block(fn, st.finalbody, conds, depth)


def refusals() -> list[tuple[str, str, str, list[str], bool, bool]]:
    """(function, exception, message, guarding conditions in order, after parser.parse()?, before the first file-system effect?)
    for every `raise` reachable from `generate()` in `__init__.py`"""
    tree = ast.parse(SRC.read_text())
    fns = {n.name: n for n in tree.body if isinstance(n, ast.FunctionDef)}
    r = Refusals(fns)
    r.block("generate", fns["generate"].body, [])
    return r.rows


def tables():
    tree = ast.parse(SRC.read_text())
    fns = {n.name: n for n in tree.body if isinstance(n, ast.FunctionDef)}
    helpers = {n: fn for n, fn in fns.items() if n not in ("generate", "chdir")}
    f = Flatten(literal_built_names(fns["generate"]), helpers)
    f.block(fns["generate"].body)
    pre, loop, post, loop_iter = split_at_write_loop(f.steps)
    # an encode step is `perModule` when its loop iterates over the same expression as the write loop
    fix = lambda steps: [(k, w, ("perModule" if k == "encodeCheck" and t == "iter:" + loop_iter and loop_iter else ("" if k == "encodeCheck" else t))) for k, w, t in steps]
    pre, loop, post = fix(pre), fix(loop), fix(post)
    keys = key_exprs(fns["generate"], loop_iter) if loop else []
    none_steps, some_steps = chdir_tables(fns["chdir"], helpers)
    decorated = any(dotted(d) in ("contextlib.contextmanager", "contextmanager") for d in fns["chdir"].decorator_list)
    return pre, loop, post, loop_iter, keys, none_steps, some_steps, decorated


KIND = {
    "mayRaise": ".mayRaise", "raise": ".raise", "benign": ".benign", "encodeCheck": ".encodeCheck", "mkdir": ".mkdir", "openW": ".openW",
    "write": ".write", "close": ".close", "fsOther": ".fsOther", "osChdir": ".osChdir", "chdirEnter": ".chdirEnter",
    "chdirExit": ".chdirExit", "loopBegin": ".loopBegin", "loopEnd": ".loopEnd", "tryBegin": ".tryBegin",
    "finallyBegin": ".finallyBegin", "tryEnd": ".tryEnd", "ret": ".ret", "unknown": ".unknown",
}
CKIND = {
    "saveCwd": ".saveCwd", "tryBegin": ".tryBegin", "finallyBegin": ".finallyBegin", "tryEnd": ".tryEnd",
    "chdirTarget": ".chdirTarget", "chdirSaved": ".chdirSaved", "yield": ".yield", "other": ".other", "unknown": ".unknown",
    "mkdir": ".mkdir", "fsEffect": ".fsEffect",
}


def lean_target(t: str) -> str:
    if t == "loopPath":
        return ".loopPath"
    if t == "loopPathParent":
        return ".loopPathParent"
    if t == "perModule":
        return ".perModule"
    if t == "":
        return ".none"
    return f"(.other {lean_string(t[len('other:'):] if t.startswith('other:') else t)})"


def generate() -> str:
    pre, loop, post, loop_iter, keys, none_steps, some_steps, decorated = tables()
    out = [
        "import Dcg.Model.Write",
        "namespace Dcg.Gen.GenerateSteps",
        "open Dcg.Model.Write",
        "",
        "/-- calls treated as unable to fail (trusted list of the translator) -/",
        "def benignCalls : List String :=\n  [" + ", ".join(lean_string(b) for b in sorted(BENIGN)) + "]",
        "",
        "/-- the only calls treated as unable to fail from the first file-system effect on (plus `.format` on a literal-built variable) -/",
        "def strictBenignCalls : List String :=\n  [" + ", ".join(lean_string(b) for b in sorted(STRICT_BENIGN)) + "]",
        "",
    ]

    def lst(name: str, doc: str, steps) -> None:
        rows = ",\n   ".join(f"⟨{KIND[k]}, {lean_string(w)}, {lean_target(t)}⟩" for k, w, t in steps)
        out.append(f"/-- {doc} -/\ndef {name} : List Step :=\n  [{rows}]\n")

    lst("pre", "`generate()` up to the write loop", pre)
    lst("loopBody", "body of the write loop (`for path, (body, filename) in modules.items()`), once per module", loop)
    lst("post", "`generate()` after the write loop", post)
    out.append(f"/-- what the write loop iterates over -/\ndef loopIter : String := {lean_string(loop_iter)}\n")
    out.append(
        "/-- key expressions of the dict the write loop iterates over -/\ndef moduleKeyExprs : List String :=\n  ["
        + ", ".join(lean_string(k) for k in keys)
        + "]\n"
    )

    def clst(name: str, doc: str, steps) -> None:
        rows = ",\n   ".join(f"⟨{CKIND[k]}, {lean_string(w)}⟩" for k, w in steps)
        out.append(f"/-- {doc} -/\ndef {name} : List CStep :=\n  [{rows}]\n")

    clst("chdirNone", "`chdir(None)`", none_steps)
    clst("chdirSome", "`chdir(path)`, path not None", some_steps)
    out.append(f"/-- `chdir` is a `contextlib.contextmanager` generator -/\ndef chdirIsContextManager : Bool := {'true' if decorated else 'false'}\n")
    tree = ast.parse(SRC.read_text())
    gen_fn = next(n for n in tree.body if isinstance(n, ast.FunctionDef) and n.name == "generate")
    out.append(
        "/-- the arguments `generate()` passes to `parser.parse(…)` (`<positional>` / keyword names) -/\ndef parseCallArguments : List String :=\n  ["
        + ", ".join(lean_string(a) for a in parse_call_arguments(gen_fn))
        + "]\n"
    )
    rows = ",\n   ".join(
        f"⟨{lean_string(fn)}, {lean_string(exc)}, {lean_string(msg)}, [" + ", ".join(lean_string(c) for c in conds) + f"], {'true' if ap else 'false'}, {'true' if bw else 'false'}⟩"
        for fn, exc, msg, conds, ap, bw in refusals()
    )
    out.append(
        "/-- every `raise` reachable from `generate()` (helpers of `__init__.py` inlined under the call site's conditions): function, exception,\n"
        "message, guarding conditions in order, after `parser.parse()`?, before the first file-system effect? -/\n"
        f"def refusals : List Refusal :=\n  [{rows}]\n"
    )
    out.append("end Dcg.Gen.GenerateSteps")
    return "\n".join(out) + "\n"


if __name__ == "__main__":
    print(generate())
