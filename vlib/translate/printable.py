"""Translator: CPython's `str.isprintable` on single characters → Dcg/Gen/Printable.lean.

`nonPrintable` = {c | not chr(c).isprintable()} over ALL code points 0 … 0x10FFFF (the surrogates included: they are not
printable, and Lean's `Char` cannot hold them anyway) as sorted, disjoint, inclusive ranges, read off the running interpreter
(environment, not repository — the same kind of table as Gen/Unicode). `model/pydantic/types.py pattern_literal` consults
`str.isprintable` to choose between the raw literal and `repr()`; the theorems of Props/C01 about that choice take the predicate as
a parameter with two decidable side conditions (`printableOK`, `noBoundaryPrintable`) which are discharged for THIS table by
`decide`, so they are re-checked by the kernel whenever the interpreter's table changes."""
from __future__ import annotations

GEN_NAME = "Printable"
MAXC = 0x110000


def ranges() -> list[tuple[int, int]]:
    out: list[tuple[int, int]] = []
    start = None
    for i in range(MAXC):
        np_ = not chr(i).isprintable()
        if np_ and start is None:
            start = i
        elif not np_ and start is not None:
            out.append((start, i - 1))
            start = None
    if start is not None:
        out.append((start, MAXC - 1))
    return out


def generate() -> str:
    rs = ranges()
    lines = ["namespace Dcg.Gen.Printable", "",
             f"/-- not chr(c).isprintable(), all code points ({len(rs)} ranges, sorted, disjoint, inclusive) -/",
             "def nonPrintable : List (Nat × Nat) :="]
    body = [f"({a}, {b})" for a, b in rs]
    rows = [", ".join(body[i:i + 8]) for i in range(0, len(body), 8)]
    lines.append("  [" + ",\n   ".join(rows) + "]")
    lines += ["", "end Dcg.Gen.Printable", ""]
    return "\n".join(lines)
