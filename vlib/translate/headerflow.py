"""Gen/HeaderFlow — what generate() writes into an output file, and from where: translated from the source of generate().

Two tables, in source order:
  prints   — every `print(..., file=...)` call of generate(): class of its argument (the header expression `custom_file_header
             or header.format(filename)`, nothing = a blank line, `body.rstrip()` / `body`, anything else) and whether the call is
             under an `if body:` test;
  bindings — every place of generate() that binds one of the names read by those calls (and `modules`, the mapping the loop
             variables come from): parameter, loop variable over `modules.items()`, `custom_file_header_path.read_text(...)`,
             a string literal, `+=` of text, the display / comprehension over the parser's results, anything else (with the
             key of its source text).
A change that routes the header or the body through anything else (a helper, a re-binding, another name) changes these tables
and breaks `header_flow_reviewed` in Props/C19.
"""
from __future__ import annotations

import ast
import io
import tokenize
from pathlib import Path

from ..keyenc import k

GEN_NAME = "HeaderFlow"


def _source() -> tuple[str, ast.FunctionDef]:
    import datamodel_code_generator as d

    src = Path(d.__file__).read_text(encoding="utf-8")
    tree = ast.parse(src)
    fn = next(n for n in tree.body if isinstance(n, ast.FunctionDef) and n.name == "generate")
    return src, fn


def _is_name(e, name: str) -> bool:
    return isinstance(e, ast.Name) and e.id == name


def _print_class(call: ast.Call) -> str:
    if any(kw.arg == "file" and ast.unparse(kw.value) in ("sys.stderr", "sys.stdout") for kw in call.keywords):
        return "console"   # a message for the user, not an output file
    if not call.args:
        return "blank"
    if len(call.args) != 1:
        return "other"
    a = call.args[0]
    if (isinstance(a, ast.BoolOp) and isinstance(a.op, ast.Or) and len(a.values) == 2 and _is_name(a.values[0], "custom_file_header")
            and ast.unparse(a.values[1]) == "header.format(filename)"):
        return "header"
    if _is_name(a, "body") or (isinstance(a, ast.Call) and not a.args and not a.keywords and isinstance(a.func, ast.Attribute)
                               and a.func.attr == "rstrip" and _is_name(a.func.value, "body")):
        return "body"
    return "other"


def prints() -> list[tuple[int, str, bool, str]]:
    """(line, class, under `if body:`, source text)"""
    _, fn = _source()
    out = []

    def walk(node, under_body: bool) -> None:
        for ch in ast.iter_child_nodes(node):
            ub = under_body
            if isinstance(node, ast.If) and ch in node.body and _is_name(node.test, "body"):
                ub = True
            if isinstance(ch, ast.Call) and _is_name(ch.func, "print") and any(kw.arg == "file" for kw in ch.keywords):
                out.append((ch.lineno, _print_class(ch), ub, ast.unparse(ch)))
            walk(ch, ub)

    walk(fn, False)
    return sorted(out)


def _flow_names(fn: ast.FunctionDef) -> set[str]:
    names = {"modules"}
    for n in ast.walk(fn):
        if isinstance(n, ast.Call) and _is_name(n.func, "print") and any(kw.arg == "file" for kw in n.keywords) and _print_class(n) != "console":
            for a in n.args:
                names.update(x.id for x in ast.walk(a) if isinstance(x, ast.Name))
    return names


def _targets(t) -> list[str]:
    return [x.id for x in ast.walk(t) if isinstance(x, ast.Name) and isinstance(x.ctx, ast.Store)]


def _value_class(v) -> tuple[str, str]:
    txt = ast.unparse(v)
    if isinstance(v, ast.Constant) and isinstance(v.value, str):
        return "literal", txt
    if isinstance(v, ast.Call) and isinstance(v.func, ast.Attribute) and v.func.attr == "read_text" and _is_name(v.func.value, "custom_file_header_path"):
        return "readPath", txt
    if isinstance(v, (ast.Dict, ast.DictComp)):
        vals = v.values if isinstance(v, ast.Dict) else [v.value]
        if all(isinstance(x, ast.Tuple) and x.elts and ast.unparse(x.elts[0]) in ("results", "result.body") for x in vals):
            return "fromResults", txt
    return "other", txt


def bindings() -> list[tuple[int, str, str, str]]:
    """(line, name, class, source text of what is bound)"""
    _, fn = _source()
    names = _flow_names(fn)
    out = []
    for a in [*fn.args.posonlyargs, *fn.args.args, *fn.args.kwonlyargs]:
        if a.arg in names:
            out.append((a.lineno, a.arg, "param", a.arg))
    for n in ast.walk(fn):
        if isinstance(n, ast.Assign):
            for t in n.targets:
                for name in _targets(t):
                    if name in names:
                        cls, txt = _value_class(n.value) if isinstance(t, ast.Name) else ("other", ast.unparse(n.value))
                        out.append((n.lineno, name, cls, txt))
        elif isinstance(n, ast.AnnAssign) and n.value is not None:
            for name in _targets(n.target):
                if name in names:
                    out.append((n.lineno, name, *_value_class(n.value)))
        elif isinstance(n, ast.AugAssign):
            for name in _targets(n.target):
                if name in names:
                    cls = "appendText" if isinstance(n.op, ast.Add) and isinstance(n.value, (ast.JoinedStr, ast.Constant)) else "other"
                    out.append((n.lineno, name, cls, ast.unparse(n.value)))
        elif isinstance(n, (ast.For, ast.AsyncFor)):
            for name in _targets(n.target):
                if name in names:
                    cls = "loopVar" if ast.unparse(n.iter) == "modules.items()" else "other"
                    out.append((n.lineno, name, cls, ast.unparse(n.iter)))
        elif isinstance(n, ast.NamedExpr):
            if n.target.id in names:
                out.append((n.lineno, n.target.id, "other", ast.unparse(n.value)))
        elif isinstance(n, (ast.With, ast.AsyncWith)):
            for it in n.items:
                if it.optional_vars is not None:
                    for name in _targets(it.optional_vars):
                        if name in names:
                            out.append((n.lineno, name, "other", ast.unparse(it.context_expr)))
        elif isinstance(n, ast.comprehension):
            for name in _targets(n.target):
                if name in names:
                    out.append((n.target.lineno, name, "other", ast.unparse(n.iter)))
    return sorted(out)


def flow_names() -> list[str]:
    """the names whose bindings are in the table: read by a print into an output file, and `modules`"""
    return sorted(_flow_names(_source()[1]))


def print_tokens() -> int:
    """independent count: NAME tokens `print` followed by `(` inside generate() (tokenize, not ast)"""
    src, fn = _source()
    seg = "\n".join(src.splitlines()[fn.lineno - 1:fn.end_lineno])
    toks = [t for t in tokenize.generate_tokens(io.StringIO(seg).readline) if t.type not in (tokenize.NL, tokenize.NEWLINE, tokenize.COMMENT, tokenize.INDENT, tokenize.DEDENT)]
    return sum(1 for a, b in zip(toks, toks[1:]) if a.type == tokenize.NAME and a.string == "print" and b.string == "(")


def store_tokens(name: str) -> int:
    """independent count: lines of generate() on which `name` is followed by `=`, `+=`, or stands in a `for … in` target or the
    parameter list (token level)"""
    src, fn = _source()
    return sum(1 for n in ast.walk(fn) if isinstance(n, ast.Name) and n.id == name and isinstance(n.ctx, ast.Store)) + sum(
        1 for a in [*fn.args.posonlyargs, *fn.args.args, *fn.args.kwonlyargs] if a.arg == name)


def generate() -> str:
    out = ["import Dcg.Model.Key", "import Dcg.Model.Header", "namespace Dcg.Gen.HeaderFlow", "open Dcg.Model.Header", ""]
    out.append("/-- (line, class of what is printed, under `if body:`) for every print(…, file=…) of generate() -/")
    out.append("def prints : List (Nat × Out × Bool) := [")
    ps = prints()
    for i, (ln, cls, ub, txt) in enumerate(ps):
        out.append(f"  ({ln}, .{cls}, {'true' if ub else 'false'}){',' if i + 1 < len(ps) else ''}  -- {txt[:90]}")
    out.append("]")
    out.append("")
    out.append("/-- (line, name, how it is bound) for every binding in generate() of a name those calls read, and of `modules` -/")
    out.append("def bindings : List (Nat × Nat × Src) := [")
    bs = bindings()
    for i, (ln, name, cls, txt) in enumerate(bs):
        src = f".other ({k(txt[:60])})" if cls == "other" else f".{cls}"
        out.append(f"  ({ln}, {k(name)}, {src}){',' if i + 1 < len(bs) else ''}  -- {txt[:70].splitlines()[0] if txt else ''}")
    out.append("]")
    out.append("")
    out.append("end Dcg.Gen.HeaderFlow")
    return "\n".join(out) + "\n"
