"""Translator: the SHAPE of the fix-point loops of the JSON-Schema / OpenAPI parsers → Dcg/Gen/LoopSites.lean.

The termination half of C01 rests on two loops that repeat "while something still changes":

* the `while reserved_refs:` loop of `JsonSchemaParser._parse_file` (exit: the set of reserved `$ref`s is the same as
  after the previous pass — a set that only grows inside the finite set of `$ref` strings of the document), and
* `JsonSchemaParser._resolve_unparsed_json_pointer` (also run by the OpenAPI parser): one pass over the reserved JSON
  pointers, repeated while `len(self.results)` changed — `results` is NOT bounded by the document (a pointer that is
  never marked as loaded makes every pass append a model), so the exit "the count did not change" is not enough by
  itself; as a self-recursion the repetition is bounded by the interpreter's recursion limit (RecursionError).

What is extracted, from the sources' AST on every run, for the parser files:

* every `while` statement, with the exits it has: its test (`countUnchanged` when it compares a value with
  `len(self.results)`, `setEmpty` for the truth value of a name bound to a set of reserved refs, …), every `break`
  that is directly inside it with the test that guards it (`setUnchanged`: two names that hold the reserved set before
  and after the pass compare equal; `iterationLimit`: a counter compared with a bound), `return`/`raise`;
* every PARAMETERLESS self-recursion `self.f()` inside `f` (recursion on mutable state, not on a smaller part of the
  document) with the test that guards it;
* every mutation of `self.reserved_refs` (method names), so that "the set only grows" is an obligation.

Anything not recognised is written as `other:<source>` and is not a reviewed exit."""
from __future__ import annotations

import ast

from ..common import REPO
from ..lean import lean_string

SRC = REPO / "src" / "datamodel_code_generator"
FILES = ["parser/jsonschema.py", "parser/openapi.py"]
GEN_NAME = "LoopSites"


def _mentions_results_len(e: ast.AST) -> bool:
    for n in ast.walk(e):
        if isinstance(n, ast.Call) and isinstance(n.func, ast.Name) and n.func.id == "len" and n.args:
            if "results" in ast.unparse(n.args[0]):
                return True
    return False


def _set_names(fn: ast.FunctionDef) -> set[str]:
    """local names bound (anywhere in the function) to the reserved-ref set or to another such name"""
    names: set[str] = set()
    changed = True
    while changed:
        changed = False
        for target, value in _name_bindings(fn):
            src = ast.unparse(value)
            if ("reserved_refs" in src and "self." in src) or (isinstance(value, ast.Name) and value.id in names):
                if target not in names:
                    names.add(target)
                    changed = True
    return names


def _name_bindings(fn: ast.FunctionDef):
    """(name, value) of every `name = value` / `name: T = value` in the function"""
    for n in ast.walk(fn):
        if isinstance(n, ast.Assign) and len(n.targets) == 1 and isinstance(n.targets[0], ast.Name):
            yield n.targets[0].id, n.value
        elif isinstance(n, ast.AnnAssign) and isinstance(n.target, ast.Name) and n.value is not None:
            yield n.target.id, n.value


def _count_names(fn: ast.FunctionDef) -> set[str]:
    """local names assigned from `len(self.results)`"""
    return {t for t, v in _name_bindings(fn) if _mentions_results_len(v)}


def _classify_test(test: ast.expr, sets: set[str], counts: set[str], *, for_break: bool) -> str:
    src = ast.unparse(test)
    if isinstance(test, ast.Compare) and len(test.ops) == 1:
        l, r = test.left, test.comparators[0]
        both_names = isinstance(l, ast.Name) and isinstance(r, ast.Name)
        if for_break and isinstance(test.ops[0], ast.Eq) and both_names and {l.id, r.id} <= sets and l.id != r.id:
            return "setUnchanged"
        involved = {x.id for x in (l, r) if isinstance(x, ast.Name)}
        if _mentions_results_len(test) and (involved & counts or both_names):
            return "countUnchanged"
        if isinstance(test.ops[0], (ast.Lt, ast.LtE, ast.Gt, ast.GtE)) and any(isinstance(x, ast.Constant) and isinstance(x.value, int) for x in (l, r)):
            return "iterationLimit"
    if isinstance(test, ast.Name) and test.id in sets and not for_break:
        return "setEmpty"
    return "other:" + src


def _direct(body: list[ast.stmt]):
    """statements of a loop body that are not inside a nested loop or function, each with the chain of `if` tests above it"""
    out = []

    def go(stmts, guards):
        for s in stmts:
            if isinstance(s, (ast.For, ast.While, ast.FunctionDef, ast.AsyncFunctionDef, ast.ClassDef)):
                if isinstance(s, ast.For):
                    # `return`/`raise` inside a nested for still leave the outer loop; `break` does not
                    for n in ast.walk(s):
                        if isinstance(n, (ast.Return, ast.Raise)):
                            out.append((n, guards + ["<in nested for>"]))
                continue
            if isinstance(s, ast.If):
                go(s.body, guards + [s.test])
                go(s.orelse, guards + [ast.UnaryOp(op=ast.Not(), operand=s.test)])
                continue
            if isinstance(s, (ast.With, ast.Try)):
                go(s.body, guards)
                for h in getattr(s, "handlers", []):
                    go(h.body, guards)
                go(getattr(s, "orelse", []), guards)
                go(getattr(s, "finalbody", []), guards)
                continue
            out.append((s, guards))

    go(body, [])
    return out


def loop_sites() -> list[tuple[str, str, str, str, list[str]]]:
    """(file, function, kind, source of the test, exits)"""
    out = []
    for f in FILES:
        p = SRC / f
        try:
            tree = ast.parse(p.read_text())
        except Exception as e:  # noqa: BLE001
            out.append((f, "<unreadable>", "other", type(e).__name__, ["other:unreadable"]))
            continue
        for fn in [n for n in ast.walk(tree) if isinstance(n, ast.FunctionDef)]:
            sets, counts = _set_names(fn), _count_names(fn)
            for node in ast.walk(fn):
                if isinstance(node, ast.While):
                    exits = []
                    if not (isinstance(node.test, ast.Constant) and node.test.value is True):
                        exits.append(_classify_test(node.test, sets, counts, for_break=False))
                    for s, guards in _direct(node.body):
                        if isinstance(s, ast.Break):
                            g = guards[-1] if guards else None
                            exits.append("other:unguarded break" if g is None or isinstance(g, str) else _classify_test(g, sets, counts, for_break=True))
                        elif isinstance(s, ast.Return):
                            exits.append("return")
                        elif isinstance(s, ast.Raise):
                            exits.append("raise")
                    out.append((f, fn.name, "while", ast.unparse(node.test), exits))
            # parameterless self-recursion
            guards_of: list[tuple[ast.Call, list]] = []

            def find(stmts, guards, fn=fn, acc=guards_of):
                for s in stmts:
                    if isinstance(s, (ast.FunctionDef, ast.AsyncFunctionDef, ast.ClassDef)):
                        continue
                    if isinstance(s, ast.If):
                        find(s.body, guards + [s.test])
                        find(s.orelse, guards + [ast.UnaryOp(op=ast.Not(), operand=s.test)])
                        for c in ast.walk(s.test):
                            _rec(c, guards, fn, acc)
                        continue
                    subs = [getattr(s, a, []) for a in ("body", "orelse", "finalbody")]
                    if any(subs) and not isinstance(s, ast.If):
                        for sub in subs:
                            find(sub, guards)
                        for h in getattr(s, "handlers", []):
                            find(h.body, guards)
                        continue
                    for c in ast.walk(s):
                        _rec(c, guards, fn, acc)

            def _rec(c, guards, fn, acc):
                if isinstance(c, ast.Call) and isinstance(c.func, ast.Attribute) and c.func.attr == fn.name \
                        and isinstance(c.func.value, ast.Name) and c.func.value.id == "self" and not c.args and not c.keywords:
                    acc.append((c, guards))

            find(fn.body, [])
            for _, guards in guards_of:
                g = guards[-1] if guards else None
                exits = ["other:unguarded recursion"] if g is None else [_classify_test(g, sets, counts, for_break=False)]
                out.append((f, fn.name, "recursion", "" if g is None else ast.unparse(g), exits))
    return sorted(out)


def reserved_refs_mutations() -> list[tuple[str, str]]:
    """(file, how) for every statement that changes `self.reserved_refs` or one of its sets: the method called on
    `self.reserved_refs[...]` / `self.reserved_refs`, an assignment, a `del`"""
    out = []
    for p in sorted((SRC / "parser").glob("*.py")):
        try:
            tree = ast.parse(p.read_text())
        except Exception:  # noqa: BLE001
            out.append((p.name, "unreadable"))
            continue
        for n in ast.walk(tree):
            if isinstance(n, ast.Call) and isinstance(n.func, ast.Attribute):
                base = n.func.value
                base_src = ast.unparse(base)
                if base_src.startswith("self.reserved_refs") and n.func.attr not in ("get", "items", "keys", "values", "copy"):
                    out.append((p.name, n.func.attr))
            elif isinstance(n, (ast.Assign, ast.AugAssign, ast.AnnAssign)):
                targets = n.targets if isinstance(n, ast.Assign) else [n.target]
                for t in targets:
                    if ast.unparse(t).startswith("self.reserved_refs"):
                        # the initial binding in __init__ is `self.reserved_refs: … = defaultdict(set)`
                        val = ast.unparse(n.value) if getattr(n, "value", None) is not None else ""
                        out.append((p.name, "init" if val == "defaultdict(set)" and ast.unparse(t) == "self.reserved_refs" else "assign:" + val))
            elif isinstance(n, ast.Delete):
                for t in n.targets:
                    if ast.unparse(t).startswith("self.reserved_refs"):
                        out.append((p.name, "del"))
    return sorted(out)


def generate() -> str:
    out = ["namespace Dcg.Gen.LoopSites", ""]
    out.append("/-- (file, function, kind = while | recursion, source of the test / guard, exits) of every `while` loop and every")
    out.append("parameterless self-recursion of the JSON-Schema / OpenAPI parsers -/")
    out.append("def loopSites : List (String × String × String × String × List String) := [")
    out.append(",\n".join(
        f"  ({lean_string(f)}, {lean_string(fn)}, {lean_string(k)}, {lean_string(t)}, [{', '.join(lean_string(e) for e in ex)}])"
        for f, fn, k, t, ex in loop_sites()))
    out.append("]\n")
    out.append("/-- (file, how) for every statement that changes `self.reserved_refs` -/")
    out.append("def reservedRefsMutations : List (String × String) := [")
    out.append(",\n".join(f"  ({lean_string(f)}, {lean_string(h)})" for f, h in reserved_refs_mutations()))
    out.append("]\n")
    out.append("end Dcg.Gen.LoopSites")
    return "\n".join(out) + "\n"


if __name__ == "__main__":
    print(generate())
