"""Translator: where named schemas live and how formats are mapped → Dcg/Gen/Formats.lean.

* JsonSchemaParser.SCHEMA_PATHS / OpenAPIParser.SCHEMA_PATHS (runtime) and their split form
  (`schema_paths`: the container keys walked from the document root)
* json_schema_data_formats (runtime): type → format → Types member
* the keys and the literal truth values `validate_exclusive_maximum_and_exclusive_minimum` looks at (ast)
* the shape of the loop of `JsonSchemaParser._parse_file` over `schema_paths` that collects the named schemas,
  and of the loops that consume what it collected (ast)
"""
from __future__ import annotations

import ast

from ..common import REPO
from ..guard import table
from ..lean import lean_string

GEN_NAME = "Formats"
SRC = REPO / "src" / "datamodel_code_generator" / "parser" / "jsonschema.py"


def schema_paths() -> dict[str, list[str]]:
    from datamodel_code_generator.parser.jsonschema import JsonSchemaParser
    from datamodel_code_generator.parser.openapi import OpenAPIParser

    return {"jsonSchemaPaths": list(JsonSchemaParser.SCHEMA_PATHS), "openapiSchemaPaths": list(OpenAPIParser.SCHEMA_PATHS)}


def split_path(p: str) -> list[str]:
    """JsonSchemaParser.schema_paths: s.lstrip('#/').split('/')"""
    return p.lstrip("#/").split("/")


def data_formats() -> list[tuple[str, list[tuple[str, str]]]]:
    from datamodel_code_generator.parser.jsonschema import json_schema_data_formats

    return [(t, [(f, ty.name) for f, ty in fm.items()]) for t, fm in json_schema_data_formats.items()]


def bounds_steps() -> list[tuple[str, str, str]]:
    """(keyword tested, literal it is compared with by `is`, action) for every branch of the validator,
    in source order; action is `move:<from>` (values[kw] = values[from]; del values[from]) or `drop`."""
    tree = ast.parse(SRC.read_text())
    fn = next(n for n in ast.walk(tree) if isinstance(n, ast.FunctionDef) and n.name == "validate_exclusive_maximum_and_exclusive_minimum")
    var_kw: dict[str, str] = {}
    for n in ast.walk(fn):
        if isinstance(n, (ast.Assign, ast.AnnAssign)) and isinstance(n.value, ast.Call) and ast.unparse(n.value.func) == "values.get":
            tgt = n.targets[0] if isinstance(n, ast.Assign) else n.target
            var_kw[ast.unparse(tgt)] = n.value.args[0].value
    out: list[tuple[str, str, str]] = []

    def branch(test: ast.AST, body: list[ast.stmt]) -> None:
        if not (isinstance(test, ast.Compare) and isinstance(test.ops[0], ast.Is) and ast.unparse(test.left) in var_kw):
            out.append(("?", ast.unparse(test), "?"))
            return
        kw = var_kw[ast.unparse(test.left)]
        lit = ast.unparse(test.comparators[0])
        action = "?"
        stmts = [ast.unparse(s) for s in body]
        if len(stmts) == 1 and stmts[0] == f"del values['{kw}']":
            action = "drop"
        elif len(stmts) == 2 and stmts[0].startswith(f"values['{kw}'] = values['") and stmts[1].startswith("del values['"):
            src = stmts[0].split("values['")[2].rstrip("']")
            if stmts[1] == f"del values['{src}']":
                action = f"move:{src}"
        out.append((kw, lit, action))

    def walk_if(node: ast.If) -> None:
        branch(node.test, node.body)
        if len(node.orelse) == 1 and isinstance(node.orelse[0], ast.If):
            walk_if(node.orelse[0])
        elif node.orelse:
            out.append(("?", "else", "?"))

    for s in fn.body:
        if isinstance(s, ast.If) and "isinstance" not in ast.unparse(s.test):
            walk_if(s)
    return out


def _one_line(stmts: list[ast.stmt]) -> str:
    return "; ".join(" ".join(ast.unparse(s).split()) for s in stmts)


def container_loop() -> list[str]:
    """The loop `for … in self.schema_paths:` of `_parse_file`, one entry per statement of its body (a `try` gives
    one entry for its body and one per handler; anything with an else/finally part is marked `?`), followed by
    one entry per later loop over what it collected (`definitions`): its header, the assignments to `path` and the
    `self.parse_*` calls inside it, in source order."""
    tree = ast.parse(SRC.read_text())
    fn = next(n for n in ast.walk(tree) if isinstance(n, ast.FunctionDef) and n.name == "_parse_file")
    loops = [n for n in ast.walk(fn) if isinstance(n, ast.For)]
    loops.sort(key=lambda n: n.lineno)
    walk = [n for n in loops if ast.unparse(n.iter) == "self.schema_paths"]
    if len(walk) != 1:
        return [f"? {len(walk)} loops over self.schema_paths"]
    loop = walk[0]
    out = [f"for {ast.unparse(loop.target)} in {ast.unparse(loop.iter)}:"]
    if loop.orelse:
        out.append("? else: " + _one_line(loop.orelse))
    for st in loop.body:
        if isinstance(st, ast.Try):
            out.append("try: " + _one_line(st.body))
            for h in st.handlers:
                out.append(f"except {ast.unparse(h.type) if h.type else ''}: " + _one_line(h.body))
            if st.orelse or st.finalbody:
                out.append("? try-else/finally: " + _one_line(st.orelse + st.finalbody))
        elif isinstance(st, ast.If):
            out.append(f"if {ast.unparse(st.test)}: " + _one_line(st.body))
            if st.orelse:
                out.append("else: " + _one_line(st.orelse))
        else:
            out.append(_one_line([st]))

    def uses(n: ast.For) -> list[str]:
        got: list[str] = []

        def visit(x: ast.AST) -> None:
            if isinstance(x, ast.Assign) and [ast.unparse(t) for t in x.targets] == ["path"]:
                got.append(_one_line([x]))
            elif isinstance(x, ast.Expr) and isinstance(x.value, ast.Call) and ast.unparse(x.value.func).startswith("self.parse_"):
                got.append(_one_line([x]))
            else:
                for c in ast.iter_child_nodes(x):
                    visit(c)

        for b in n.body:
            visit(b)
        return got

    for n in loops:
        if n.lineno > loop.lineno and any(isinstance(x, ast.Name) and x.id == "definitions" for x in ast.walk(n.iter)):
            out.append(f"for {ast.unparse(n.target)} in {ast.unparse(n.iter)}: " + "; ".join(uses(n)))
    return out


def _strs(xs) -> str:
    return "[" + ", ".join(lean_string(x) for x in xs) + "]"


def generate() -> str:
    out = ["namespace Dcg.Gen.Formats", ""]
    for name, paths in table(schema_paths, {"jsonSchemaPaths": [], "openapiSchemaPaths": []}).items():
        out.append(f"/-- SCHEMA_PATHS of the parser class -/\ndef {name} : List String := {_strs(paths)}\n")
        out.append(f"/-- the same, split into the keys walked from the document root (`schema_paths`) -/\ndef {name}Split : List (List String) :=\n  [" + ", ".join(_strs(split_path(p)) for p in paths) + "]\n")
    rows = ",\n   ".join(
        f"({lean_string(t)}, [" + ", ".join(f"({lean_string(f)}, {lean_string(ty)})" for f, ty in fm) + "])" for t, fm in table(data_formats, [])
    )
    out.append(f"/-- json_schema_data_formats: type ↦ format ↦ Types member -/\ndef dataFormats : List (String × List (String × String)) :=\n  [{rows}]\n")
    steps = ", ".join(f"({lean_string(a)}, {lean_string(b)}, {lean_string(c)})" for a, b, c in table(bounds_steps, [("?", "unrecognised shape of the validator", "?")]))
    out.append(
        "/-- branches of validate_exclusive_maximum_and_exclusive_minimum in source order:\n"
        "(keyword, literal compared by `is`, action) -/\n"
        f"def boundsSteps : List (String × String × String) :=\n  [{steps}]\n"
    )
    loop = table(container_loop, ["? unrecognised shape of _parse_file"])
    out.append(
        "/-- the loop of JsonSchemaParser._parse_file over `schema_paths` (one entry per statement) and the later\n"
        "loops over the list it fills (header, assignments to `path`, `self.parse_*` calls) -/\n"
        "def containerLoop : List String :=\n  [" + ",\n   ".join(lean_string(x) for x in loop) + "]\n"
    )
    out.append("end Dcg.Gen.Formats")
    return "\n".join(out) + "\n"
