"""Translator: where named schemas live and how formats are mapped → Dcg/Gen/Formats.lean.

* JsonSchemaParser.SCHEMA_PATHS / OpenAPIParser.SCHEMA_PATHS (runtime) and their split form
  (`schema_paths`: the container keys walked from the document root)
* json_schema_data_formats (runtime): type → format → Types member
* the keys and the literal truth values `validate_exclusive_maximum_and_exclusive_minimum` looks at (ast)
"""
from __future__ import annotations

import ast

from ..common import REPO
from ..guard import table
from ..lean import lean_string

GEN_NAME = "Formats"
SRC = REPO / "src" / "datamodel_code_generator" / "parser" / "jsonschema.py"


def schema_paths() -> dict[str, list[str]]:
    from datamodel_code_generator.parser.jsonschema import JsonSchemaParser
    from datamodel_code_generator.parser.openapi import OpenAPIParser

    return {"jsonSchemaPaths": list(JsonSchemaParser.SCHEMA_PATHS), "openapiSchemaPaths": list(OpenAPIParser.SCHEMA_PATHS)}


def split_path(p: str) -> list[str]:
    """JsonSchemaParser.schema_paths: s.lstrip('#/').split('/')"""
    return p.lstrip("#/").split("/")


def data_formats() -> list[tuple[str, list[tuple[str, str]]]]:
    from datamodel_code_generator.parser.jsonschema import json_schema_data_formats

    return [(t, [(f, ty.name) for f, ty in fm.items()]) for t, fm in json_schema_data_formats.items()]


def bounds_steps() -> list[tuple[str, str, str]]:
    """(keyword tested, literal it is compared with by `is`, action) for every branch of the validator,
    in source order; action is `move:<from>` (values[kw] = values[from]; del values[from]) or `drop`."""
    tree = ast.parse(SRC.read_text())
    fn = next(n for n in ast.walk(tree) if isinstance(n, ast.FunctionDef) and n.name == "validate_exclusive_maximum_and_exclusive_minimum")
    var_kw: dict[str, str] = {}
    for n in ast.walk(fn):
        if isinstance(n, (ast.Assign, ast.AnnAssign)) and isinstance(n.value, ast.Call) and ast.unparse(n.value.func) == "values.get":
            tgt = n.targets[0] if isinstance(n, ast.Assign) else n.target
            var_kw[ast.unparse(tgt)] = n.value.args[0].value
    out: list[tuple[str, str, str]] = []

    def branch(test: ast.AST, body: list[ast.stmt]) -> None:
        if not (isinstance(test, ast.Compare) and isinstance(test.ops[0], ast.Is) and ast.unparse(test.left) in var_kw):
            out.append(("?", ast.unparse(test), "?"))
            return
        kw = var_kw[ast.unparse(test.left)]
        lit = ast.unparse(test.comparators[0])
        action = "?"
        stmts = [ast.unparse(s) for s in body]
        if len(stmts) == 1 and stmts[0] == f"del values['{kw}']":
            action = "drop"
        elif len(stmts) == 2 and stmts[0].startswith(f"values['{kw}'] = values['") and stmts[1].startswith("del values['"):
            src = stmts[0].split("values['")[2].rstrip("']")
            if stmts[1] == f"del values['{src}']":
                action = f"move:{src}"
        out.append((kw, lit, action))

    def walk_if(node: ast.If) -> None:
        branch(node.test, node.body)
        if len(node.orelse) == 1 and isinstance(node.orelse[0], ast.If):
            walk_if(node.orelse[0])
        elif node.orelse:
            out.append(("?", "else", "?"))

    for s in fn.body:
        if isinstance(s, ast.If) and "isinstance" not in ast.unparse(s.test):
            walk_if(s)
    return out


def _strs(xs) -> str:
    return "[" + ", ".join(lean_string(x) for x in xs) + "]"


def generate() -> str:
    out = ["namespace Dcg.Gen.Formats", ""]
    for name, paths in table(schema_paths, {"jsonSchemaPaths": [], "openapiSchemaPaths": []}).items():
        out.append(f"/-- SCHEMA_PATHS of the parser class -/\ndef {name} : List String := {_strs(paths)}\n")
        out.append(f"/-- the same, split into the keys walked from the document root (`schema_paths`) -/\ndef {name}Split : List (List String) :=\n  [" + ", ".join(_strs(split_path(p)) for p in paths) + "]\n")
    rows = ",\n   ".join(
        f"({lean_string(t)}, [" + ", ".join(f"({lean_string(f)}, {lean_string(ty)})" for f, ty in fm) + "])" for t, fm in table(data_formats, [])
    )
    out.append(f"/-- json_schema_data_formats: type ↦ format ↦ Types member -/\ndef dataFormats : List (String × List (String × String)) :=\n  [{rows}]\n")
    steps = ", ".join(f"({lean_string(a)}, {lean_string(b)}, {lean_string(c)})" for a, b, c in table(bounds_steps, [("?", "unrecognised shape of the validator", "?")]))
    out.append(
        "/-- branches of validate_exclusive_maximum_and_exclusive_minimum in source order:\n"
        "(keyword, literal compared by `is`, action) -/\n"
        f"def boundsSteps : List (String × String × String) :=\n  [{steps}]\n"
    )
    out.append("end Dcg.Gen.Formats")
    return "\n".join(out) + "\n"
