"""Translator: what depends on the target Python version → Dcg/Gen/Versions.lean.

Runtime: `PythonVersion` members, truth table of every `has_*` property; `get_data_model_types(mt, ver)`
for every pair with each selected class's DEFAULT_IMPORTS / BASE_CLASS; the imports reachable from the
type map of the selected DataTypeManager; the default scalar/union models of GraphQLParser and the enum
model; every `IMPORT_*` constant of every module of the package.
`ast`: every place where a `has_*` predicate is consulted (file, function, predicate).
Names are written as `k! "text"` keys (lean/Dcg/Model/Key.lean).
"""
from __future__ import annotations

import ast
import importlib
import inspect
import pkgutil

from ..common import REPO
from ..keyenc import k

GEN_NAME = "Versions"
SRC = REPO / "src" / "datamodel_code_generator"


def minor(value: str) -> int:
    return int(value.split(".")[1])


def versions() -> list[tuple[str, int]]:
    from datamodel_code_generator.format import PythonVersion

    return [(v.value, minor(v.value)) for v in PythonVersion]


def _preds() -> list[str]:
    """names of the `has_*` properties defined on PythonVersion (Enum hides them from dir())"""
    from datamodel_code_generator.format import PythonVersion

    return sorted(n for n in vars(PythonVersion) if n.startswith("has_"))


def has_table() -> list[tuple[str, list[tuple[int, bool]]]]:
    from datamodel_code_generator.format import PythonVersion

    preds = _preds()
    return [(p, [(minor(v.value), bool(getattr(v, p))) for v in PythonVersion]) for p in preds]


def _cls(c) -> dict:
    return {
        "qualname": f"{c.__module__}.{c.__qualname__}",
        "base": getattr(c, "BASE_CLASS", "") or "",
        "imports": [(i.from_ or "", i.import_) for i in (getattr(c, "DEFAULT_IMPORTS", ()) or ())],
    }


ROLES = ("data_model", "root_model", "field_model", "data_type_manager")


def selection() -> list[tuple[tuple[str, int], list[tuple[str, dict]]]]:
    from datamodel_code_generator import DataModelType
    from datamodel_code_generator.format import PythonVersion
    from datamodel_code_generator.model import get_data_model_types

    out = []
    for mt in DataModelType:
        for ver in PythonVersion:
            s = get_data_model_types(mt, ver)
            out.append(((mt.value, minor(ver.value)), [(r, _cls(getattr(s, r))) for r in ROLES]))
    return out


def type_map_imports() -> list[tuple[tuple[str, int], list[tuple[str, str]]]]:
    from datamodel_code_generator import DataModelType
    from datamodel_code_generator.format import PythonVersion
    from datamodel_code_generator.model import get_data_model_types
    from datamodel_code_generator.types import Types

    out = []
    for mt in DataModelType:
        for ver in PythonVersion:
            s = get_data_model_types(mt, ver)
            imps: set[tuple[str, str]] = set()
            for flags in ({}, {"use_standard_collections": True}, {"use_generic_container_types": True}, {"use_pendulum": True}):
                try:
                    dtm = s.data_type_manager(python_version=ver, **flags)
                except Exception:  # noqa: BLE001
                    continue
                for t in Types:
                    try:
                        dt = dtm.get_data_type(t)
                    except Exception:  # noqa: BLE001
                        continue
                    for i in dt.all_imports:
                        imps.add((i.from_ or "", i.import_))
            out.append(((mt.value, minor(ver.value)), sorted(imps)))
    return out


def _import_value(v) -> list[tuple[str, str]] | None:
    """the Imports a class attribute holds: an Import, or a non-empty tuple / list / set / frozenset of Imports"""
    from datamodel_code_generator.imports import Import

    if isinstance(v, Import):
        return [(v.from_ or "", v.import_)]
    if isinstance(v, (tuple, list, set, frozenset)) and v and all(isinstance(x, Import) for x in v):
        return sorted((x.from_ or "", x.import_) for x in v)
    return None


def class_import_attrs() -> list[tuple[tuple[str, int], list[tuple[str, str, str, list[tuple[str, str]]]]]]:
    """for every (model type, version): every attribute of every selected class — as the class RESOLVES it (a subclass's
    override hides the base's value), looked up statically (no property is evaluated) — whose value is an Import or a
    collection of Imports: (role, class that defines the value, attribute, imports). DEFAULT_IMPORTS is one of them; a second
    tuple next to it (imports of a newer construct, chosen by the same class selection) is another."""
    from datamodel_code_generator import DataModelType
    from datamodel_code_generator.format import PythonVersion
    from datamodel_code_generator.model import get_data_model_types

    out = []
    for mt in DataModelType:
        for ver in PythonVersion:
            s = get_data_model_types(mt, ver)
            rows = []
            for r in ROLES:
                c = getattr(s, r)
                for name in sorted(dir(c)):
                    if name.startswith("__"):
                        continue
                    try:
                        v = inspect.getattr_static(c, name)
                    except AttributeError:
                        continue
                    imps = _import_value(v)
                    if imps is None:
                        continue
                    owner = next((b for b in c.__mro__ if name in vars(b)), c)
                    rows.append((r, f"{owner.__module__}.{owner.__qualname__}", name, imps))
            out.append(((mt.value, minor(ver.value)), rows))
    return out


def graphql_classes() -> list[tuple[str, dict]]:
    from datamodel_code_generator.parser.graphql import GraphQLParser

    sig = inspect.signature(GraphQLParser.__init__)
    return [
        ("data_model_scalar_type", _cls(sig.parameters["data_model_scalar_type"].default)),
        ("data_model_union_type", _cls(sig.parameters["data_model_union_type"].default)),
    ]


def enum_class() -> dict:
    from datamodel_code_generator.model.enum import Enum

    return _cls(Enum)


def import_constants() -> list[tuple[str, str, str, str]]:
    """(module, constant name, from_, import_) for every IMPORT_* module attribute that is *defined* there."""
    import datamodel_code_generator as pkg
    from datamodel_code_generator.imports import Import

    out = []
    for m in pkgutil.walk_packages(pkg.__path__, pkg.__name__ + "."):
        if m.name.endswith("__main__"):
            continue
        try:
            mod = importlib.import_module(m.name)
        except Exception:  # noqa: BLE001
            continue
        try:
            tree = ast.parse(inspect.getsource(mod))
        except (OSError, TypeError):
            continue
        defined = {
            t.id
            for n in tree.body
            if isinstance(n, (ast.Assign, ast.AnnAssign))
            for t in (n.targets if isinstance(n, ast.Assign) else [n.target])
            if isinstance(t, ast.Name)
        }
        for name in sorted(defined):
            v = getattr(mod, name, None)
            if name.startswith("IMPORT_") and isinstance(v, Import):
                out.append((m.name.removeprefix("datamodel_code_generator."), name, v.from_ or "", v.import_))
    return sorted(out)


def literal_imports() -> list[tuple[str, str, str]]:
    """(file, from_, import_) of every `Import.from_full_path("a.b")` / `Import(from_="a", import_="b")` call with
    constant arguments that is not the right-hand side of an IMPORT_* constant."""
    out = []
    for path in sorted(SRC.rglob("*.py")):
        tree = ast.parse(path.read_text())
        const_rhs = set()
        for n in ast.walk(tree):
            if isinstance(n, ast.Assign) and any(isinstance(t, ast.Name) and t.id.startswith("IMPORT_") for t in n.targets):
                const_rhs.add(id(n.value))
        for n in ast.walk(tree):
            if not isinstance(n, ast.Call) or id(n) in const_rhs:
                continue
            f = ast.unparse(n.func)
            if f.endswith("Import.from_full_path") and n.args and isinstance(n.args[0], ast.Constant) and isinstance(n.args[0].value, str):
                parts = n.args[0].value.split(".")
                out.append((str(path.relative_to(SRC)), ".".join(parts[:-1]), parts[-1]))
            elif f == "Import":
                kw = {x.arg: x.value for x in n.keywords}
                a, b = kw.get("from_"), kw.get("import_")
                if isinstance(a, ast.Constant) and isinstance(b, ast.Constant) and isinstance(a.value, str) and isinstance(b.value, str):
                    out.append((str(path.relative_to(SRC)), a.value, b.value))
    return sorted(set(out))


def guard_sites() -> list[tuple[str, str, str]]:
    """(file, enclosing function, predicate) for every attribute access `.has_*` outside format.py's definitions"""
    out = []
    for path in sorted(SRC.rglob("*.py")):
        tree = ast.parse(path.read_text())

        def visit(node, fn):
            for ch in ast.iter_child_nodes(node):
                f = ch.name if isinstance(ch, (ast.FunctionDef, ast.AsyncFunctionDef)) else fn
                if isinstance(ch, ast.Attribute) and ch.attr.startswith("has_") and isinstance(ch.ctx, ast.Load):
                    out.append((str(path.relative_to(SRC)), fn, ch.attr))
                visit(ch, f)

        visit(tree, "<module>")
    from datamodel_code_generator.format import PythonVersion

    preds = set(_preds())
    return sorted(t for t in set(out) if t[2] in preds)


# ------------------------------------------------------------------ rendering
def _imps(xs) -> str:
    return "[" + ", ".join(f"({k(a)}, {k(b)})" for a, b in xs) + "]"


def _cls_lean(c: dict) -> str:
    return f"{{ qualname := {k(c['qualname'])}, base := {k(c['base'])}, imports := {_imps(c['imports'])} }}"


def generate() -> str:
    out = ["import Dcg.Model.Key", "namespace Dcg.Gen.Versions", ""]
    out.append(
        "structure Cls where\n  qualname : Nat\n  base : Nat\n  imports : List (Nat × Nat)\n  deriving Repr, DecidableEq\n"
    )
    out.append(
        "/-- `PythonVersion` members in definition order: (value, minor) -/\n"
        "def versions : List (Nat × Nat) :=\n  [" + ", ".join(f"({k(v)}, {m})" for v, m in versions()) + "]\n"
    )
    rows = [f"({k(p)}, [" + ", ".join(f"({m}, {'true' if b else 'false'})" for m, b in tt) + "])" for p, tt in has_table()]
    out.append(
        "/-- truth table of every `has_*` property of `PythonVersion`: (predicate, [(minor, value)]) -/\n"
        "def hasTable : List (Nat × List (Nat × Bool)) :=\n  [" + ",\n   ".join(rows) + "]\n"
    )
    rows = []
    for (mt, m), roles in selection():
        rows.append(f"(({k(mt)}, {m}),\n    [" + ",\n     ".join(f"({k(r)}, {_cls_lean(c)})" for r, c in roles) + "])")
    out.append(
        "/-- `get_data_model_types(model_type, version)`: ((model type, minor), [(role, class)]) -/\n"
        "def selection : List ((Nat × Nat) × List (Nat × Cls)) :=\n  [" + ",\n   ".join(rows) + "]\n"
    )
    rows = [f"(({k(mt)}, {m}), {_imps(imps)})" for (mt, m), imps in type_map_imports()]
    out.append(
        "/-- imports reachable from the type map of the selected DataTypeManager (all `Types`, with and without\n"
        "use_standard_collections / use_generic_container_types / use_pendulum) -/\n"
        "def typeMapImports : List ((Nat × Nat) × List (Nat × Nat)) :=\n  [" + ",\n   ".join(rows) + "]\n"
    )
    rows = []
    for (mt, m), attrs in class_import_attrs():
        rows.append(f"(({k(mt)}, {m}),\n    [" + ",\n     ".join(f"({k(r)}, {k(q)}, {k(a)}, {_imps(imps)})" for r, q, a, imps in attrs) + "])")
    out.append(
        "/-- every attribute of every selected class (as the class resolves it) that holds an Import or a collection of Imports:\n"
        "((model type, minor), [(role, defining class, attribute, imports)]) -/\n"
        "def classImportAttrs : List ((Nat × Nat) × List (Nat × Nat × Nat × List (Nat × Nat))) :=\n  [" + ",\n   ".join(rows) + "]\n"
    )
    out.append(
        "/-- default scalar / union model classes of `GraphQLParser.__init__` -/\n"
        "def graphqlClasses : List (Nat × Cls) :=\n  [" + ",\n   ".join(f"({k(r)}, {_cls_lean(c)})" for r, c in graphql_classes()) + "]\n"
    )
    out.append(f"/-- the enum model (`model/enum.py`) -/\ndef enumClass : Cls := {_cls_lean(enum_class())}\n")
    rows = [f"({k(m)}, {k(n)}, {k(a)}, {k(b)})" for m, n, a, b in import_constants()]
    out.append(
        "/-- every `IMPORT_*` constant: (defining module, constant, from_, import_) -/\n"
        "def importConstants : List (Nat × Nat × Nat × Nat) :=\n  [" + ",\n   ".join(rows) + "]\n"
    )
    rows = [f"({k(f)}, {k(a)}, {k(b)})" for f, a, b in literal_imports()]
    out.append(
        "/-- `Import.from_full_path(\"…\")` / `Import(from_=…, import_=…)` calls with constant arguments outside the constants -/\n"
        "def literalImports : List (Nat × Nat × Nat) :=\n  [" + ",\n   ".join(rows) + "]\n"
    )
    rows = [f"({k(f)}, {k(fn)}, {k(p)})" for f, fn, p in guard_sites()]
    out.append(
        "/-- every place where a `has_*` predicate is consulted: (file, function, predicate) -/\n"
        "def guardSites : List (Nat × Nat × Nat) :=\n  [" + ",\n   ".join(rows) + "]\n"
    )
    out.append("end Dcg.Gen.Versions")
    return "\n".join(out) + "\n"
