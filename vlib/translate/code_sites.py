"""Translator: code-state interpolation sites that are written by PYTHON code (not by a template) and whose
value class is therefore an assumption of the template site table — extracted from the source's AST on every
run → Dcg/Gen/CodeSites.lean.

* `kwargSites`: every call `….add_base_class_kwarg(name, value)` (the `{{ key }}={{ value }}` sites of
  msgspec.jinja2): the keyword name and the FORM of the value expression — a string constant, an attribute read
  `….represented_default` (repr-rendered), or an f-string that puts expressions between hand-written quotes,
  with the source text of each embedded expression.
* `fieldExtraKeySites`: the expressions that become keyword NAMES of `Field(...)` (pydantic v1) — the key
  expressions of the dict(-comprehension)s of `JsonSchemaParser.get_field_extras`, followed through helper methods
  of the same class — and whether each one is a call of the identifier sanitiser `self.get_field_extra_key(…)`.
* `fieldExtraKeySanitiser`: WHAT that sanitiser is — every binding of `get_field_extra_key` in `JsonSchemaParser` (an
  assignment `self.get_field_extra_key = …` of a lambda or of a method of the class, or a method of that name), the
  guard it stands under (`self.data_model_field_type.can_have_extra_keys` true / false / none), and for EVERY return
  path of the bound function its form: `resolver` = `self.model_resolver.get_valid_field_name_and_alias(<the key
  parameter, untouched>)[0]`, `identity` = the key parameter itself, anything else with its source text.  A fast path
  that hands a key back unchanged (e.g. `if key.isidentifier(): return key` — keywords are identifiers for
  `str.isidentifier`) is an `identity` path under the `can_have_extra_keys` guard: a broken obligation."""
from __future__ import annotations

import ast

from ..common import REPO
from ..lean import lean_string

SRC = REPO / "src" / "datamodel_code_generator"


def kwarg_sites() -> list[tuple[str, str, str, list[str]]]:
    """(file, keyword name, form, embedded expressions)"""
    out = []
    for p in sorted(SRC.rglob("*.py")):
        tree = ast.parse(p.read_text())
        for node in ast.walk(tree):
            if isinstance(node, ast.Call) and isinstance(node.func, ast.Attribute) and node.func.attr == "add_base_class_kwarg" and len(node.args) == 2:
                name_node, value = node.args
                name = name_node.value if isinstance(name_node, ast.Constant) and isinstance(name_node.value, str) else "<dynamic:" + ast.unparse(name_node) + ">"
                embedded: list[str] = []
                if isinstance(value, ast.Constant) and isinstance(value.value, str):
                    form = "const"
                elif isinstance(value, ast.Attribute) and value.attr == "represented_default":
                    form = "represented_default"
                elif isinstance(value, ast.JoinedStr):
                    lits = [v.value for v in value.values if isinstance(v, ast.Constant)]
                    embedded = [ast.unparse(v.value) for v in value.values if isinstance(v, ast.FormattedValue)]
                    quoted = len(value.values) == 3 and lits == ["'", "'"] and isinstance(value.values[1], ast.FormattedValue)
                    form = "single-quoted" if quoted else "fstring:" + ast.unparse(value)
                else:
                    form = "other:" + ast.unparse(value)
                out.append((str(p.relative_to(SRC)), name, form, embedded))
    return out


def _returns(fn: ast.FunctionDef) -> list[ast.expr]:
    return [n.value for n in ast.walk(fn) if isinstance(n, ast.Return) and n.value is not None]


def field_extra_key_sites() -> list[tuple[str, str, bool]]:
    """(function, key expression, sanitised?)"""
    tree = ast.parse((SRC / "parser" / "jsonschema.py").read_text())
    cls = next((n for n in ast.walk(tree) if isinstance(n, ast.ClassDef) and n.name == "JsonSchemaParser"), None)
    if cls is None:
        return []
    methods = {n.name: n for n in cls.body if isinstance(n, ast.FunctionDef)}
    out: list[tuple[str, str, bool]] = []
    seen: set[str] = set()

    def is_sanitiser(e: ast.expr) -> bool:
        return isinstance(e, ast.Call) and isinstance(e.func, ast.Attribute) and e.func.attr == "get_field_extra_key" \
            and isinstance(e.func.value, ast.Name) and e.func.value.id == "self"

    def key_expr(fn_name: str, e: ast.expr) -> None:
        if is_sanitiser(e):
            out.append((fn_name, ast.unparse(e), True))
            return
        if isinstance(e, ast.IfExp):
            key_expr(fn_name, e.body)
            key_expr(fn_name, e.orelse)
            return
        if isinstance(e, ast.Call) and isinstance(e.func, ast.Attribute) and isinstance(e.func.value, ast.Name) \
                and e.func.value.id == "self" and e.func.attr in methods and e.func.attr not in seen:
            seen.add(e.func.attr)
            rets = _returns(methods[e.func.attr])
            if not rets:
                out.append((e.func.attr, "<no return>", False))
            for r in rets:
                key_expr(e.func.attr, r)
            return
        out.append((fn_name, ast.unparse(e), False))

    fn = methods.get("get_field_extras")
    if fn is None:
        return []
    for node in ast.walk(fn):
        if isinstance(node, ast.DictComp):
            key_expr("get_field_extras", node.key)
        elif isinstance(node, ast.Dict):
            for k in node.keys:
                if k is not None:
                    key_expr("get_field_extras", k)
    return out


def _split_paths(e: ast.expr) -> list[ast.expr]:
    if isinstance(e, ast.IfExp):
        return _split_paths(e.body) + _split_paths(e.orelse)
    if isinstance(e, ast.BoolOp):  # `a or b` returns either operand
        return [p for v in e.values for p in _split_paths(v)]
    return [e]


def _falls_off(body: list[ast.stmt]) -> bool:
    """can control reach the end of this statement list (an implicit `return None`)"""
    if not body:
        return True
    last = body[-1]
    if isinstance(last, (ast.Return, ast.Raise)):
        return False
    if isinstance(last, ast.If):
        return _falls_off(last.body) or _falls_off(last.orelse)
    return True


def _path_form(e: ast.expr, param: str | None) -> str:
    if isinstance(e, ast.Name) and e.id == param:
        return "identity"
    if (isinstance(e, ast.Subscript) and isinstance(e.slice, ast.Constant) and e.slice.value == 0 and isinstance(e.value, ast.Call)
            and ast.unparse(e.value.func) == "self.model_resolver.get_valid_field_name_and_alias" and not e.value.keywords
            and len(e.value.args) == 1 and isinstance(e.value.args[0], ast.Name) and e.value.args[0].id == param):
        return "resolver"
    return "other"


def field_extra_key_sanitiser() -> list[tuple[str, str, str]]:
    """(guard, form, source text) for every return path of every function bound to `get_field_extra_key`"""
    tree = ast.parse((SRC / "parser" / "jsonschema.py").read_text())
    cls = next((n for n in ast.walk(tree) if isinstance(n, ast.ClassDef) and n.name == "JsonSchemaParser"), None)
    if cls is None:
        return []
    methods = {n.name: n for n in cls.body if isinstance(n, ast.FunctionDef)}
    out: list[tuple[str, str, str]] = []

    def of_function(guard: str, fn: ast.FunctionDef | ast.Lambda, bound: bool) -> None:
        args = [a.arg for a in fn.args.args]
        if bound and args[:1] == ["self"]:
            args = args[1:]
        param = args[0] if len(args) == 1 and not fn.args.vararg and not fn.args.kwarg and not fn.args.kwonlyargs else None
        if isinstance(fn, ast.Lambda):
            rets = _split_paths(fn.body)
        else:
            rets = [p for n in ast.walk(fn) if isinstance(n, ast.Return) and n.value is not None for p in _split_paths(n.value)]
            # the key parameter must reach the return untouched: an assignment to it anywhere makes every path `other`
            if any(isinstance(n, ast.Name) and n.id == param and isinstance(n.ctx, (ast.Store, ast.Del)) for n in ast.walk(fn)):
                param = None
            if _falls_off(fn.body) or any(isinstance(n, ast.Return) and n.value is None for n in ast.walk(fn)):
                out.append((guard, "other", "<returns None>"))
        for r in rets:
            out.append((guard, _path_form(r, param), ast.unparse(r)))

    def of_value(guard: str, v: ast.expr) -> None:
        if isinstance(v, ast.Lambda):
            of_function(guard, v, False)
        elif isinstance(v, ast.Attribute) and isinstance(v.value, ast.Name) and v.value.id == "self" and v.attr in methods:
            of_function(guard, methods[v.attr], True)
        else:
            out.append((guard, "other", ast.unparse(v)))

    def is_target(t: ast.expr) -> bool:
        return isinstance(t, ast.Attribute) and t.attr == "get_field_extra_key" and isinstance(t.value, ast.Name) and t.value.id == "self"

    def walk(stmts: list[ast.stmt], guard: str) -> None:
        for st in stmts:
            if isinstance(st, ast.Assign) and any(is_target(t) for t in st.targets):
                of_value(guard, st.value)
            elif isinstance(st, ast.AnnAssign) and is_target(st.target) and st.value is not None:
                of_value(guard, st.value)
            elif isinstance(st, ast.If):
                test = ast.unparse(st.test)
                if test == "self.data_model_field_type.can_have_extra_keys" and guard == "always":
                    walk(st.body, "can_have_extra_keys")
                    walk(st.orelse, "not can_have_extra_keys")
                elif test == "not self.data_model_field_type.can_have_extra_keys" and guard == "always":
                    walk(st.body, "not can_have_extra_keys")
                    walk(st.orelse, "can_have_extra_keys")
                else:  # any other condition: what is bound under it must be safe whatever the field type
                    walk(st.body, "always" if guard != "can_have_extra_keys" else guard)
                    walk(st.orelse, "always" if guard != "can_have_extra_keys" else guard)
            else:
                for field in ("body", "orelse", "finalbody", "handlers"):
                    sub = getattr(st, field, None)
                    if isinstance(sub, list) and sub and isinstance(sub[0], (ast.stmt, ast.ExceptHandler)):
                        walk([x for h in sub for x in (h.body if isinstance(h, ast.ExceptHandler) else [h])], "always" if guard != "can_have_extra_keys" else guard)

    for fn in methods.values():
        walk(fn.body, "always")
    if "get_field_extra_key" in methods:  # a method of that name instead of an instance attribute
        of_function("always", methods["get_field_extra_key"], True)
    return out


GEN_NAME = "CodeSites"


def generate() -> str:
    out = ["namespace Dcg.Gen.CodeSites", ""]
    out.append("/-- (file, keyword name, form of the value expression, expressions embedded between the hand-written quotes) of every")
    out.append("`add_base_class_kwarg(name, value)` call: the values of the `{{ key }}={{ value }}` sites of msgspec.jinja2 -/")
    out.append("def kwargSites : List (String × String × String × List String) := [")
    out.append(",\n".join(
        f"  ({lean_string(f)}, {lean_string(n)}, {lean_string(form)}, [{', '.join(lean_string(e) for e in emb)}])" for f, n, form, emb in kwarg_sites()))
    out.append("]\n")
    out.append("/-- (function, expression, is a call of `self.get_field_extra_key`) for every expression that becomes a key of the")
    out.append("field extras (pydantic v1: a keyword NAME of `Field(...)`) -/")
    out.append("def fieldExtraKeySites : List (String × String × Bool) := [")
    out.append(",\n".join(f"  ({lean_string(f)}, {lean_string(e)}, {'true' if ok else 'false'})" for f, e, ok in field_extra_key_sites()))
    out.append("]\n")
    out.append("/-- (guard, form, source) of every return path of every function bound to `get_field_extra_key` in `JsonSchemaParser`:")
    out.append("guard = the `can_have_extra_keys` branch the binding stands in; form = `resolver` (the field-name resolver applied to the")
    out.append("untouched key, first component), `identity` (the key itself) or `other` -/")
    out.append("def fieldExtraKeySanitiser : List (String × String × String) := [")
    out.append(",\n".join(f"  ({lean_string(g)}, {lean_string(f)}, {lean_string(src)})" for g, f, src in field_extra_key_sanitiser()))
    out.append("]\n")
    out.append("end Dcg.Gen.CodeSites")
    return "\n".join(out) + "\n"


if __name__ == "__main__":
    print(generate())
