"""Translator: code-state interpolation sites that are written by PYTHON code (not by a template) and whose
value class is therefore an assumption of the template site table — extracted from the source's AST on every
run → Dcg/Gen/CodeSites.lean.

* `kwargSites`: every call `….add_base_class_kwarg(name, value)` (the `{{ key }}={{ value }}` sites of
  msgspec.jinja2): the keyword name and the FORM of the value expression — a string constant, an attribute read
  `….represented_default` (repr-rendered), or an f-string that puts expressions between hand-written quotes,
  with the source text of each embedded expression.
* `fieldExtraKeySites`: the expressions that become keyword NAMES of `Field(...)` (pydantic v1) — the key
  expressions of the dict(-comprehension)s of `JsonSchemaParser.get_field_extras`, followed through helper methods
  of the same class — and whether each one is a call of the identifier sanitiser `self.get_field_extra_key(…)`."""
from __future__ import annotations

import ast

from ..common import REPO
from ..lean import lean_string

SRC = REPO / "src" / "datamodel_code_generator"


def kwarg_sites() -> list[tuple[str, str, str, list[str]]]:
    """(file, keyword name, form, embedded expressions)"""
    out = []
    for p in sorted(SRC.rglob("*.py")):
        tree = ast.parse(p.read_text())
        for node in ast.walk(tree):
            if isinstance(node, ast.Call) and isinstance(node.func, ast.Attribute) and node.func.attr == "add_base_class_kwarg" and len(node.args) == 2:
                name_node, value = node.args
                name = name_node.value if isinstance(name_node, ast.Constant) and isinstance(name_node.value, str) else "<dynamic:" + ast.unparse(name_node) + ">"
                embedded: list[str] = []
                if isinstance(value, ast.Constant) and isinstance(value.value, str):
                    form = "const"
                elif isinstance(value, ast.Attribute) and value.attr == "represented_default":
                    form = "represented_default"
                elif isinstance(value, ast.JoinedStr):
                    lits = [v.value for v in value.values if isinstance(v, ast.Constant)]
                    embedded = [ast.unparse(v.value) for v in value.values if isinstance(v, ast.FormattedValue)]
                    quoted = len(value.values) == 3 and lits == ["'", "'"] and isinstance(value.values[1], ast.FormattedValue)
                    form = "single-quoted" if quoted else "fstring:" + ast.unparse(value)
                else:
                    form = "other:" + ast.unparse(value)
                out.append((str(p.relative_to(SRC)), name, form, embedded))
    return out


def _returns(fn: ast.FunctionDef) -> list[ast.expr]:
    return [n.value for n in ast.walk(fn) if isinstance(n, ast.Return) and n.value is not None]


def field_extra_key_sites() -> list[tuple[str, str, bool]]:
    """(function, key expression, sanitised?)"""
    tree = ast.parse((SRC / "parser" / "jsonschema.py").read_text())
    cls = next((n for n in ast.walk(tree) if isinstance(n, ast.ClassDef) and n.name == "JsonSchemaParser"), None)
    if cls is None:
        return []
    methods = {n.name: n for n in cls.body if isinstance(n, ast.FunctionDef)}
    out: list[tuple[str, str, bool]] = []
    seen: set[str] = set()

    def is_sanitiser(e: ast.expr) -> bool:
        return isinstance(e, ast.Call) and isinstance(e.func, ast.Attribute) and e.func.attr == "get_field_extra_key" \
            and isinstance(e.func.value, ast.Name) and e.func.value.id == "self"

    def key_expr(fn_name: str, e: ast.expr) -> None:
        if is_sanitiser(e):
            out.append((fn_name, ast.unparse(e), True))
            return
        if isinstance(e, ast.IfExp):
            key_expr(fn_name, e.body)
            key_expr(fn_name, e.orelse)
            return
        if isinstance(e, ast.Call) and isinstance(e.func, ast.Attribute) and isinstance(e.func.value, ast.Name) \
                and e.func.value.id == "self" and e.func.attr in methods and e.func.attr not in seen:
            seen.add(e.func.attr)
            rets = _returns(methods[e.func.attr])
            if not rets:
                out.append((e.func.attr, "<no return>", False))
            for r in rets:
                key_expr(e.func.attr, r)
            return
        out.append((fn_name, ast.unparse(e), False))

    fn = methods.get("get_field_extras")
    if fn is None:
        return []
    for node in ast.walk(fn):
        if isinstance(node, ast.DictComp):
            key_expr("get_field_extras", node.key)
        elif isinstance(node, ast.Dict):
            for k in node.keys:
                if k is not None:
                    key_expr("get_field_extras", k)
    return out


GEN_NAME = "CodeSites"


def generate() -> str:
    out = ["namespace Dcg.Gen.CodeSites", ""]
    out.append("/-- (file, keyword name, form of the value expression, expressions embedded between the hand-written quotes) of every")
    out.append("`add_base_class_kwarg(name, value)` call: the values of the `{{ key }}={{ value }}` sites of msgspec.jinja2 -/")
    out.append("def kwargSites : List (String × String × String × List String) := [")
    out.append(",\n".join(
        f"  ({lean_string(f)}, {lean_string(n)}, {lean_string(form)}, [{', '.join(lean_string(e) for e in emb)}])" for f, n, form, emb in kwarg_sites()))
    out.append("]\n")
    out.append("/-- (function, expression, is a call of `self.get_field_extra_key`) for every expression that becomes a key of the")
    out.append("field extras (pydantic v1: a keyword NAME of `Field(...)`) -/")
    out.append("def fieldExtraKeySites : List (String × String × Bool) := [")
    out.append(",\n".join(f"  ({lean_string(f)}, {lean_string(e)}, {'true' if ok else 'false'})" for f, e, ok in field_extra_key_sites()))
    out.append("]\n")
    out.append("end Dcg.Gen.CodeSites")
    return "\n".join(out) + "\n"


if __name__ == "__main__":
    print(generate())
