"""Translator: the per-member part of every class template → the conditions under which the
annotation is written as `field.type_hint` / `field.annotated` and under which ` = field.field` /
` = field.represented_default` is appended → Dcg/Gen/FieldTemplates.lean.

The template is parsed with jinja2's own parser; the `{% for field in fields %}` loop is walked and
for every `{{ field.<attr> }}` output of interest the *path condition* (conjunction of the
enclosing `if`/`elif`/`else` tests, negated for the branches not taken) is emitted as a
`BoolExpr` over atoms. An expression this translator does not know becomes `Atom.other "<text>"`,
which the side condition `wellFormed` (decided by the kernel in Props/C05) rejects — so any edit of
these conditionals changes the table or breaks the proof."""
from __future__ import annotations

from jinja2 import Environment, nodes

from ..common import REPO
from ..lean import lean_string

GEN_NAME = "FieldTemplates"

TEMPLATE_DIR = REPO / "src" / "datamodel_code_generator" / "model" / "template"

# Lean name -> template file
TEMPLATES = {
    "pydanticV1": "pydantic/BaseModel.jinja2",
    "pydanticV2": "pydantic_v2/BaseModel.jinja2",
    "dataclass": "dataclass.jinja2",
    "msgspec": "msgspec.jinja2",
    "typedDictClass": "TypedDictClass.jinja2",
    "typedDictFunction": "TypedDictFunction.jinja2",
}

ATOMS = {
    "field.required": "required",
    "field.field": "field",
    "field.annotated": "annotated",
    "field.strip_default_none": "stripDefaultNone",
    "field.data_type.is_optional": "dataTypeIsOptional",
    "field.nullable": "nullable",
    "field.docstring": "docstring",
    "fields": "hasFields",
}
EMITS = {"type_hint": "typeHint", "annotated": "annotated", "field": "assignField", "represented_default": "assignDefault"}


def dotted(n) -> str | None:
    if isinstance(n, nodes.Name):
        return n.name
    if isinstance(n, nodes.Getattr):
        base = dotted(n.node)
        return None if base is None else f"{base}.{n.attr}"
    return None


def text_of(n) -> str:
    """stable textual form of an expression we do not interpret"""
    d = dotted(n)
    if d is not None:
        return d
    if isinstance(n, nodes.Const):
        return repr(n.value)
    parts = [type(n).__name__]
    for f in n.fields:
        v = getattr(n, f)
        if isinstance(v, nodes.Node):
            parts.append(text_of(v))
        elif isinstance(v, list):
            parts.append("[" + ",".join(text_of(x) if isinstance(x, nodes.Node) else repr(x) for x in v) + "]")
        else:
            parts.append(repr(v))
    return "(" + " ".join(parts) + ")"


def expr(n):
    """jinja2 expression → nested tuple ('atom', name) | ('other', text) | ('not', e) | ('and', a, b) | ('or', a, b)"""
    if isinstance(n, nodes.Not):
        return ("not", expr(n.node))
    if isinstance(n, nodes.And):
        return ("and", expr(n.left), expr(n.right))
    if isinstance(n, nodes.Or):
        return ("or", expr(n.left), expr(n.right))
    d = dotted(n)
    if d in ATOMS:
        return ("atom", ATOMS[d])
    if (
        isinstance(n, nodes.Compare)
        and dotted(n.expr) == "field.represented_default"
        and len(n.ops) == 1
        and n.ops[0].op == "eq"
        and isinstance(n.ops[0].expr, nodes.Const)
        and n.ops[0].expr.value == "None"
    ):
        return ("atom", "reprDefaultIsNone")
    return ("other", text_of(n))


def conj(path):
    if not path:
        return ("tt",)
    e = path[0]
    for p in path[1:]:
        e = ("and", e, p)
    return e


def walk(body, path, rules, in_field_loop: bool):
    """`rules` collects (emit, path condition inside the member loop, line); the condition under
    which the member loop itself is reached is collected as ('loopGuard', cond, line)."""
    prev_data = ""
    for n in body:
        if isinstance(n, nodes.For):
            target = dotted(n.target)
            it = dotted(n.iter)
            if not in_field_loop and target == "field" and it in ("fields", "all_fields"):
                rules.append(("loopGuard", conj(path), n.lineno))
                walk(n.body, [], rules, True)
            else:
                walk(n.body, path, rules, in_field_loop)
            prev_data = ""
        elif isinstance(n, nodes.If):
            neg = []
            walk(n.body, [*path, expr(n.test)], rules, in_field_loop)
            neg.append(("not", expr(n.test)))
            for el in n.elif_:
                walk(el.body, [*path, *neg, expr(el.test)], rules, in_field_loop)
                neg.append(("not", expr(el.test)))
            if n.else_:
                walk(n.else_, [*path, *neg], rules, in_field_loop)
            prev_data = ""
        elif isinstance(n, nodes.Output):
            for part in n.nodes:
                if isinstance(part, nodes.TemplateData):
                    prev_data = part.data
                    continue
                target = part
                while isinstance(target, nodes.Filter):
                    target = target.node
                d = dotted(target)
                if in_field_loop and d and d.startswith("field.") and d[6:] in EMITS:
                    what = EMITS[d[6:]]
                    assigned = prev_data.rstrip(" ").endswith("=")
                    if what in ("assignField", "assignDefault") and not assigned:
                        what = "other"  # the value is written somewhere else than after `=`
                    if what in ("typeHint", "annotated") and not prev_data.rstrip(" ").endswith((":", "':")):
                        what = "other"
                    rules.append((what, conj(path), part.lineno))
                elif in_field_loop and d and d.startswith("field.") and d[6:] == "default":
                    rules.append(("other", conj(path), part.lineno))
                prev_data = ""
        elif isinstance(n, (nodes.FilterBlock, nodes.Scope)):
            walk(n.body, path, rules, in_field_loop)


def rules_of(rel: str):
    env = Environment()  # noqa: S701
    tree = env.parse((TEMPLATE_DIR / rel).read_text())
    rules: list = []
    walk(tree.body, [], rules, False)
    return rules


def lean_expr(e) -> str:
    k = e[0]
    if k == "tt":
        return ".tt"
    if k == "atom":
        return f"(.atom .{e[1]})"
    if k == "other":
        return f"(.atom (.other {lean_string(e[1])}))"
    if k == "not":
        return f"(.not {lean_expr(e[1])})"
    return f"(.{k} {lean_expr(e[1])} {lean_expr(e[2])})"


def generate() -> str:
    out = [
        "namespace Dcg.Gen.FieldTemplates",
        "",
        "/-- what a template condition may look at -/",
        "inductive Atom where",
        "  | required | field | annotated | reprDefaultIsNone | stripDefaultNone | dataTypeIsOptional | nullable | docstring | hasFields",
        "  | other (text : String)",
        "  deriving Repr, DecidableEq",
        "",
        "inductive BoolExpr where",
        "  | tt",
        "  | atom (a : Atom)",
        "  | not (e : BoolExpr)",
        "  | and (a b : BoolExpr)",
        "  | or (a b : BoolExpr)",
        "  deriving Repr, DecidableEq",
        "",
        "/-- which `{{ field.… }}` output a rule is about; `other` = an output this translator cannot place -/",
        "inductive Emit where",
        "  | typeHint | annotated | assignField | assignDefault | other",
        "  deriving Repr, DecidableEq",
        "",
        "structure Rule where",
        "  emit : Emit",
        "  cond : BoolExpr",
        "  line : Nat",
        "  deriving Repr, DecidableEq",
        "",
    ]
    for name, rel in TEMPLATES.items():
        rules = rules_of(rel)
        guards = [r for r in rules if r[0] == "loopGuard"]
        rules = [r for r in rules if r[0] != "loopGuard"]
        out.append(f"/-- {rel} -/")
        out.append(f"def {name} : List Rule := [")
        out.append(",\n".join(f"  ⟨.{what}, {lean_expr(c)}, {line}⟩" for what, c, line in rules))
        out.append("]\n")
        out.append(f"/-- {rel}: condition(s) under which the member loop is reached (exactly one loop expected) -/")
        out.append(f"def {name}Guard : List BoolExpr := [" + ", ".join(lean_expr(c) for _, c, _ in guards) + "]\n")
    out.append("end Dcg.Gen.FieldTemplates")
    return "\n".join(out) + "\n"


if __name__ == "__main__":
    print(generate())
