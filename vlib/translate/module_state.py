"""Translator: process-wide state that is NOT class-level — module-level mutable objects and what memoised functions read besides
their arguments → Dcg/Gen/ModuleState.lean (tables `moduleMutables`, `moduleMutableEscapes`, `moduleMutableWrites`, `cacheReads`).

Pure `ast` over every module of src/datamodel_code_generator.

(a) moduleMutables: every name bound at module level (also under `if` / `try`) to a dict / list / set display or comprehension, to a
    constructor call (`dict(`, `set(`, `defaultdict(` …) or to a `| & - ^` expression over such objects: (file, name, kind). `__all__`
    is left out. One object per process: whatever is written into it is seen by every later generate() call.
(b) moduleMutableEscapes: every place where such an object itself (not a copy) leaves the expression it is named in — everything
    that is not recognised as a pure read (`in`, iteration, operand of `| & - ^ + * == …`, `*CONST` / `**CONST` inside a display or
    call, `CONST[k]` load, a non-mutating method call such as `.get/.items/.keys/.values/.copy/.union/…`, argument of a copying /
    consuming builtin `set( list( dict( sorted( len( frozenset( tuple( any( all( …`): an assignment `self.x = CONST`, `x = CONST`,
    `x = CONST if c else {...}`, `x = y or CONST`, a default value, an argument of another call, a `return`, an element of a display.
    Per row: file, function, kind (`attr` | `local` | `classattr` | `default` | `arg` | `return` | `other`), the target (attribute
    name for `attr`, local name for `local`, called expression for `arg`), the constant, and `mutated`: for `attr` whether ANY
    expression of the package mutates an attribute of that name in place (`<e>.x.add/update/append/…(`, `<e>.x[k] = v`,
    `del <e>.x[k]`, `<e>.x |= …`); for `local` whether the function does so with the local name. An `attr`/`local`/`classattr`
    escape that is never mutated under its new name is harmless by construction; every other row must be reviewed
    (Model/Determinism.reviewedModuleEscapes).
(c) moduleMutableWrites: every in-place mutation of a module-level mutable object under its OWN name (in its module or where it
    is imported): (file, function, constant, operation). Each must be reviewed (none in the unchanged tree).
(d) cacheReads: for every function under `lru_cache` / `cache`: its parameters' annotations and every call in its body that reads
    state outside the arguments — the file system (`read_text`, `read_bytes`, `open`, `exists`, `is_file`, `is_dir`, `stat`, `glob`,
    `rglob`, `iterdir`, `listdir`, `scandir`, `walk`, `resolve`, `cwd`, `getcwd`, `load`/`loads` are NOT — they take text),
    the environment (`environ`, `getenv`), the clock / randomness (`time`, `now`, `today`, `random`, `uuid4`): (file, function,
    [parameter annotations], [outside reads]). A cached function with a `Path` parameter or an outside read returns what the file
    system / environment held at the FIRST call: it must be on the reviewed list of Model/Determinism (reviewedOutsideCaches);
    every other cached function must be on the reviewed list of functions of their arguments only (reviewedPureCaches).
"""
from __future__ import annotations

import ast
import re

from ..keyenc import k
from . import set_sites
from .set_sites import SRC, _files, _memo_decorator

GEN_NAME = "ModuleState"

MUTABLE_CTORS = {"dict", "list", "set", "defaultdict", "OrderedDict", "deque", "Counter", "DefaultPutDict", "ChainMap", "bytearray"}
MUTATORS = {"add", "update", "append", "extend", "insert", "pop", "popitem", "remove", "discard", "clear", "setdefault", "sort", "reverse",
            "intersection_update", "difference_update", "symmetric_difference_update", "appendleft", "extendleft", "popleft", "rotate",
            "__setitem__", "__delitem__", "__ior__", "__iand__", "__isub__", "__ixor__", "__iadd__", "__imul__", "put", "subtract"}
PURE_METHODS = {"get", "items", "keys", "values", "copy", "union", "intersection", "difference", "symmetric_difference", "issubset",
                "issuperset", "isdisjoint", "index", "count", "__contains__", "__getitem__", "__len__", "__iter__"}
CONSUMING_CALLS = {"set", "list", "dict", "tuple", "frozenset", "sorted", "len", "any", "all", "min", "max", "sum", "enumerate", "iter", "zip",
                   "map", "filter", "reversed", "deepcopy", "copy", "chain", "isinstance", "bool", "repr", "str", "OrderedDict", "defaultdict",
                   "Counter", "deque", "join", "fromkeys"}
OUTSIDE_READS = {"read_text", "read_bytes", "open", "exists", "is_file", "is_dir", "is_symlink", "stat", "lstat", "glob", "rglob", "iglob",
                 "iterdir", "listdir", "scandir", "walk", "fwalk", "resolve", "absolute", "cwd", "getcwd", "expanduser", "home", "samefile",
                 "environ", "getenv", "time", "now", "today", "utcnow", "random", "uuid1", "uuid4", "urlopen", "get_body", "getmtime", "readlink",
                 "access", "realpath", "abspath", "load_toml", "gethostname", "getpid"}


PATHLIKE = re.compile(r"Path|PathLike|\bIO\b|TextIO|BinaryIO|FileDescriptor")


def _trees() -> dict[str, ast.Module]:
    return {str(p.relative_to(SRC)): ast.parse(p.read_text()) for p in _files()}


def _mut_kind(v: ast.AST | None, known: dict[str, str]) -> str:
    if isinstance(v, (ast.Dict, ast.DictComp)):
        return "dict"
    if isinstance(v, (ast.List, ast.ListComp)):
        return "list"
    if isinstance(v, (ast.Set, ast.SetComp)):
        return "set"
    if isinstance(v, ast.Call):
        fn = ast.unparse(v.func).split(".")[-1]
        if fn in MUTABLE_CTORS:
            return fn
        if fn in ("copy", "deepcopy") and v.args and isinstance(v.args[0], ast.Name) and v.args[0].id in known:
            return known[v.args[0].id]
        return ""
    if isinstance(v, ast.BinOp) and isinstance(v.op, (ast.BitOr, ast.BitAnd, ast.Sub, ast.BitXor, ast.Add, ast.Mult)):
        return _mut_kind(v.left, known) or _mut_kind(v.right, known)
    if isinstance(v, ast.Name):
        return known.get(v.id, "")
    if isinstance(v, ast.IfExp):
        return _mut_kind(v.body, known) or _mut_kind(v.orelse, known)
    return ""


def module_mutables(trees: dict[str, ast.Module]) -> list[tuple[str, str, str]]:
    out: list[tuple[str, str, str]] = []
    for file, tree in trees.items():
        known: dict[str, str] = {}

        def scan(stmts) -> None:
            for st in stmts:
                tgt, val = None, None
                if isinstance(st, ast.Assign) and len(st.targets) == 1 and isinstance(st.targets[0], ast.Name):
                    tgt, val = st.targets[0].id, st.value
                elif isinstance(st, ast.AnnAssign) and isinstance(st.target, ast.Name) and st.value is not None:
                    tgt, val = st.target.id, st.value
                elif isinstance(st, (ast.If, ast.Try, ast.With, ast.For, ast.While)):
                    scan(getattr(st, "body", []))
                    scan(getattr(st, "orelse", []))
                    for h in getattr(st, "handlers", []):
                        scan(h.body)
                    scan(getattr(st, "finalbody", []))
                if tgt is None or tgt == "__all__":
                    continue
                kd = _mut_kind(val, known)
                if kd:
                    known[tgt] = kd
                    out.append((file, tgt, kd))

        scan(tree.body)
    return sorted(set(out))


def _scoped(tree: ast.AST):
    """(node, parent, function-scope-name, innermost FunctionDef or None) for every node"""
    def walk(node, scope, fn):
        for ch in ast.iter_child_nodes(node):
            yield ch, node, ".".join(scope) or "<module>", fn
            if isinstance(ch, (ast.FunctionDef, ast.AsyncFunctionDef)):
                yield from walk(ch, [*scope, ch.name], ch)
            elif isinstance(ch, ast.ClassDef):
                yield from walk(ch, [*scope, ch.name], None)
            else:
                yield from walk(ch, scope, fn)
    yield from walk(tree, [], None)


def _mutated_attrs(trees: dict[str, ast.Module]) -> set[str]:
    """attribute names that some expression of the package mutates in place: `<e>.x.add(…)`, `<e>.x[k] = v`, `del <e>.x[k]`, `<e>.x |= …`"""
    out: set[str] = set()
    for tree in trees.values():
        for n in ast.walk(tree):
            if isinstance(n, ast.Call) and isinstance(n.func, ast.Attribute) and n.func.attr in MUTATORS and isinstance(n.func.value, ast.Attribute):
                out.add(n.func.value.attr)
            elif isinstance(n, ast.Subscript) and isinstance(n.ctx, (ast.Store, ast.Del)) and isinstance(n.value, ast.Attribute):
                out.add(n.value.attr)
            elif isinstance(n, ast.AugAssign) and isinstance(n.target, ast.Attribute):
                out.add(n.target.attr)
    return out


def _mutated_locals(fn: ast.AST | None, tree: ast.AST) -> set[str]:
    out: set[str] = set()
    for n in ast.walk(fn if fn is not None else tree):
        if isinstance(n, ast.Call) and isinstance(n.func, ast.Attribute) and n.func.attr in MUTATORS and isinstance(n.func.value, ast.Name):
            out.add(n.func.value.id)
        elif isinstance(n, ast.Subscript) and isinstance(n.ctx, (ast.Store, ast.Del)) and isinstance(n.value, ast.Name):
            out.add(n.value.id)
        elif isinstance(n, ast.AugAssign) and isinstance(n.target, ast.Name):
            out.add(n.target.id)
    return out


def analyse():
    trees = _trees()
    muts = module_mutables(trees)
    names = {n for _, n, _ in muts}
    by_file = {f: {n for ff, n, _ in muts if ff == f} for f in trees}
    mutated_attrs = _mutated_attrs(trees)
    escapes: set[tuple[str, str, str, str, str, bool]] = set()
    writes: set[tuple[str, str, str, str]] = set()
    for file, tree in trees.items():
        visible = set(by_file[file])   # defined here, or imported by name from anywhere (name-based: conservative)
        for n in ast.walk(tree):
            if isinstance(n, ast.ImportFrom):
                for a in n.names:
                    if a.name in names:
                        visible.add(a.asname or a.name)
        alias_of = {}
        for n in ast.walk(tree):
            if isinstance(n, ast.ImportFrom):
                for a in n.names:
                    if a.name in names:
                        alias_of[a.asname or a.name] = a.name
        info = {id(node): (parent, scope, fn) for node, parent, scope, fn in _scoped(tree)}

        def is_ref(e: ast.AST) -> str:
            """the module-level mutable an expression denotes (the object itself), or ''"""
            if isinstance(e, ast.Name) and isinstance(e.ctx, ast.Load) and e.id in visible:
                return alias_of.get(e.id, e.id)
            if isinstance(e, ast.Attribute) and isinstance(e.ctx, ast.Load) and e.attr in names and isinstance(e.value, ast.Name) and not e.value.id in ("self", "cls"):
                return e.attr   # module.CONST
            return ""

        for node, (parent, scope, fn) in ((nd, info[id(nd)]) for nd in ast.walk(tree) if id(nd) in info):
            const = is_ref(node)
            if not const:
                continue
            if scope == "<module>" and isinstance(parent, (ast.Assign, ast.AnnAssign)) and isinstance(getattr(parent, "targets", [getattr(parent, "target", None)])[0], ast.Name) \
                    and getattr(parent, "targets", [getattr(parent, "target", None)])[0].id in by_file[file] and parent.value is not node:
                continue
            # climb through value-preserving wrappers: `a if c else CONST`, `x or CONST`, `(y := CONST)`, parentheses
            cur, par = node, parent
            while True:
                if isinstance(par, ast.IfExp) and cur is not par.test:
                    cur, par = par, info[id(par)][0]
                elif isinstance(par, ast.BoolOp):
                    cur, par = par, info[id(par)][0]
                elif isinstance(par, ast.NamedExpr) and cur is par.value:
                    cur, par = par, info[id(par)][0]
                else:
                    break
            # ---- pure reads
            if isinstance(par, ast.Compare) or isinstance(par, (ast.BinOp, ast.UnaryOp)):
                continue
            if isinstance(par, ast.IfExp) and cur is par.test:
                continue
            if isinstance(par, (ast.If, ast.While, ast.Assert)) and cur is par.test:
                continue
            if isinstance(par, (ast.For, ast.comprehension)) and cur is par.iter:
                continue
            if isinstance(par, ast.Starred) or (isinstance(par, ast.Dict) and cur in par.values and par.keys[par.values.index(cur)] is None):
                continue
            if isinstance(par, ast.keyword) and par.arg is None:   # f(**CONST)
                continue
            if isinstance(par, (ast.FormattedValue, ast.Expr)):
                continue
            if isinstance(par, ast.Subscript) and cur is par.value:
                if isinstance(par.ctx, (ast.Store, ast.Del)):
                    writes.add((file, scope, const, "subscript-store" if isinstance(par.ctx, ast.Store) else "subscript-del"))
                continue
            if isinstance(par, ast.AugAssign) and cur is par.target:
                writes.add((file, scope, const, "augassign"))
                continue
            if isinstance(par, ast.Attribute) and cur is par.value:
                gp = info[id(par)][0]
                if isinstance(gp, ast.Call) and gp.func is par:
                    if par.attr in MUTATORS:
                        writes.add((file, scope, const, "." + par.attr))
                        continue
                    if par.attr in PURE_METHODS:
                        continue
                escapes.add((file, scope, "other", ast.unparse(par), const, False))
                continue
            if isinstance(par, ast.Call) and cur is not par.func:
                callee = ast.unparse(par.func)
                if callee.split(".")[-1] in CONSUMING_CALLS:
                    continue
                escapes.add((file, scope, "arg", callee, const, False))
                continue
            if isinstance(par, ast.keyword):
                call = info[id(par)][0]
                callee = ast.unparse(call.func) if isinstance(call, ast.Call) else "?"
                if callee.split(".")[-1] in CONSUMING_CALLS:
                    continue
                escapes.add((file, scope, "arg", f"{callee}({par.arg}=)", const, False))
                continue
            # ---- the object itself gets another name
            if isinstance(par, (ast.Assign, ast.AnnAssign)) and cur is par.value:
                targets = par.targets if isinstance(par, ast.Assign) else [par.target]
                for t in targets:
                    if isinstance(t, ast.Attribute):
                        escapes.add((file, scope, "attr", t.attr, const, t.attr in mutated_attrs))
                    elif isinstance(t, ast.Name):
                        pinfo = info[id(par)]
                        in_class_body = pinfo[2] is None and scope != "<module>"
                        if in_class_body:
                            escapes.add((file, scope, "classattr", t.id, const, t.id in mutated_attrs))
                        else:
                            escapes.add((file, scope, "local", t.id, const, t.id in _mutated_locals(fn, tree)))
                    else:
                        escapes.add((file, scope, "other", ast.unparse(t), const, False))
                continue
            if isinstance(par, ast.arguments):
                escapes.add((file, scope, "default", "", const, False))
                continue
            if isinstance(par, (ast.Return, ast.Yield)):
                escapes.add((file, scope, "return", "", const, False))
                continue
            escapes.add((file, scope, "other", type(par).__name__, const, False))
    # ---- (d) what memoised functions read besides their arguments
    reads: list[tuple[str, str, list[str], list[str]]] = []
    for file, tree in trees.items():
        for node, parent, scope, fn in _scoped(tree):
            if isinstance(node, (ast.FunctionDef, ast.AsyncFunctionDef)) and _memo_decorator(node) in ("lru_cache", "cache"):
                anns = [set_sites._annotation_text(a.annotation) for a in [*node.args.posonlyargs, *node.args.args, *node.args.kwonlyargs]
                        if a.arg not in ("self", "cls")]
                outside: set[str] = set()
                for st in node.body:
                    for x in ast.walk(st):
                        if isinstance(x, ast.Attribute) and x.attr in OUTSIDE_READS:
                            outside.add(x.attr)
                        elif isinstance(x, ast.Name) and isinstance(x.ctx, ast.Load) and x.id in OUTSIDE_READS:
                            outside.add(x.id)
                name = node.name if scope == "<module>" else f"{scope}.{node.name}"
                reads.append((file, name, anns, sorted(outside)))
    reads.sort()
    return muts, sorted(escapes), sorted(writes), reads


def generate() -> str:
    muts, escapes, writes, reads = analyse()
    out = ["import Dcg.Model.Key", "namespace Dcg.Gen.ModuleState", ""]
    rows = [f"({k(f)}, {k(n)}, {k(kd)})" for f, n, kd in muts]
    out.append("/-- every dict / list / set bound to a module-level name (one object per process): (file, name, kind) -/\n"
               "def moduleMutables : List (Nat × Nat × Nat) :=\n  [" + ",\n   ".join(rows) + "]\n")
    out.append("structure Escape where\n  file : Nat\n  func : Nat\n  kind : Nat\n  target : Nat\n  const : Nat\n  mutated : Bool\n  deriving Repr, DecidableEq\n")
    rows = [f"{{ file := {k(f)}, func := {k(fn)}, kind := {k(kd)}, target := {k(t)}, const := {k(c)}, mutated := {'true' if m else 'false'} }}"
            for f, fn, kd, t, c, m in escapes]
    out.append("/-- every place where a module-level mutable object itself (not a copy) gets another name or is handed on; `mutated`: the\n"
               "new name (attribute anywhere in the package / local in the function) is mutated in place somewhere -/\n"
               "def moduleMutableEscapes : List Escape :=\n  [" + ",\n   ".join(rows) + "]\n")
    rows = [f"({k(f)}, {k(fn)}, {k(c)}, {k(op)})" for f, fn, c, op in writes]
    out.append("/-- every in-place mutation of a module-level mutable object under its own name: (file, function, constant, operation) -/\n"
               "def moduleMutableWrites : List (Nat × Nat × Nat × Nat) :=\n  [" + ",\n   ".join(rows) + "]\n")
    out.append("structure CacheRead where\n  file : Nat\n  func : Nat\n  paramAnnotations : List Nat\n  pathParam : Bool\n  outside : List Nat\n  deriving Repr, DecidableEq\n")
    rows = [f"{{ file := {k(f)}, func := {k(fn)}, paramAnnotations := [{', '.join(k(a) for a in anns)}], pathParam := {'true' if any(PATHLIKE.search(a) for a in anns) else 'false'}, outside := [{', '.join(k(o) for o in outside)}] }}"
            for f, fn, anns, outside in reads]
    out.append("/-- every process-wide memoised function (lru_cache / cache): annotations of its parameters (pathParam: one of them\n"
               "names a path / file type), and the calls / names in its body\n"
               "that read the file system, the environment, the clock -/\n"
               "def cacheReads : List CacheRead :=\n  [" + ",\n   ".join(rows) + "]\n")
    out.append("end Dcg.Gen.ModuleState")
    return "\n".join(out) + "\n"


if __name__ == "__main__":
    for part in analyse():
        for row in part:
            print(row)
        print("----")
