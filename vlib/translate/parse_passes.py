"""Translator: the ORDER of the post-passes of `Parser.parse` → Dcg/Gen/ParsePasses.lean.

From the `ast` of `src/datamodel_code_generator/parser/base.py`: in `class Parser`, `def parse`, the loop

    for module_, models in module_models:

(the only `for` over the name `module_models` with a two-name tuple target) applies a fixed sequence of private passes
`self.__xxx(models, …)` to the models of one module. The sequence is logic: `__set_default_enum_member` turns defaults into
members of the Enum models that `__reuse_model` / `__collapse_root_models` drop and re-point, `__sort_models` reads the imports the
earlier passes edit, … (reviewed constraints: Dcg/Model/ParsePasses.lean). Emitted, in source order, for every call
`self.__xxx(...)` anywhere inside that loop: the name as written (without the two leading underscores) and whether the call is
nested in another statement of the loop body (`if`, `for`, `try`, `with`, …: a *guarded* call, which the order model does not
accept for a required pass) or is not a plain expression statement (its value is used). If the loop is not found, or found
more than once, `recognised := false` and the list is empty: every theorem about the order then fails to check.
"""
from __future__ import annotations

import ast

from ..common import REPO
from ..lean import lean_string

GEN_NAME = "ParsePasses"
SRC = REPO / "src" / "datamodel_code_generator" / "parser" / "base.py"

# name as written in parse() → constructor of Dcg.Model.ParsePasses.Pass (anything else becomes `.other "<name>"`)
KNOWN = {
    "alias_shadowed_imports": "aliasShadowedImports",
    "override_required_field": "overrideRequiredField",
    "replace_unique_list_to_set": "replaceUniqueListToSet",
    "change_from_import": "changeFromImport",
    "extract_inherited_enum": "extractInheritedEnum",
    "set_reference_default_value_to_field": "setReferenceDefaultValueToField",
    "reuse_model": "reuseModel",
    "collapse_root_models": "collapseRootModels",
    "set_default_enum_member": "setDefaultEnumMember",
    "sort_models": "sortModels",
    "change_field_name": "changeFieldName",
    "apply_discriminator_type": "applyDiscriminatorType",
    "set_one_literal_on_default": "setOneLiteralOnDefault",
}


def _self_private_call(node: ast.AST) -> str | None:
    if (isinstance(node, ast.Call) and isinstance(node.func, ast.Attribute) and isinstance(node.func.value, ast.Name)
            and node.func.value.id == "self" and node.func.attr.startswith("__") and not node.func.attr.endswith("__")):
        return node.func.attr[2:]
    return None


def extract(path=None) -> tuple[list[tuple[str, bool]], str]:
    """([(pass name, guarded)], problem) — problem is "" when exactly one per-module loop was found"""
    tree = ast.parse((path or SRC).read_text(encoding="utf-8"))
    parse_fn = None
    for cls in ast.walk(tree):
        if isinstance(cls, ast.ClassDef) and cls.name == "Parser":
            for fn in cls.body:
                if isinstance(fn, ast.FunctionDef) and fn.name == "parse":
                    parse_fn = fn
    if parse_fn is None:
        return [], "class Parser has no method parse"
    loops = [
        n for n in ast.walk(parse_fn)
        if isinstance(n, ast.For) and isinstance(n.iter, ast.Name) and n.iter.id == "module_models"
        and isinstance(n.target, ast.Tuple) and len(n.target.elts) == 2 and all(isinstance(e, ast.Name) for e in n.target.elts)
    ]
    if len(loops) != 1:
        return [], f"{len(loops)} loops `for <a>, <b> in module_models:` in Parser.parse"
    loop = loops[0]
    out: list[tuple[int, int, str, bool]] = []

    def visit(stmts: list[ast.stmt], nested: bool) -> None:
        for st in stmts:
            plain = isinstance(st, ast.Expr) and _self_private_call(st.value) is not None
            for node in ast.walk(st):
                name = _self_private_call(node)
                if name is not None:
                    top = plain and node is st.value  # the statement IS the call
                    out.append((node.lineno, node.col_offset, name, nested or not top))
            # (ast.walk above already reached the nested statements: they are all "guarded" because `plain` is false for them)

    visit(loop.body, False)
    visit(loop.orelse, True)
    out.sort()
    return [(n, g) for _, _, n, g in out], ""


def generate() -> str:
    passes, problem = extract()
    lines = [
        "import Dcg.Model.ParsePasses",
        "namespace Dcg.Gen.ParsePasses",
        "open Dcg.Model.ParsePasses",
        "",
        "/-- was the per-module loop `for module_, models in module_models:` of `Parser.parse` found (exactly once)? -/",
        f"def recognised : Bool := {'true' if not problem else 'false'}",
        "",
        f"def problem : String := {lean_string(problem)}",
        "",
        "/-- the calls `self.__xxx(...)` of that loop in source order: the pass, and whether the call is guarded (nested in an",
        "`if`/`for`/`try`/… of the loop body, or its value is used) -/",
        "def calls : List Call :=",
    ]
    if passes:
        items = []
        for name, guarded in passes:
            ctor = "." + KNOWN[name] if name in KNOWN else f".other {lean_string(name)}"
            items.append(f"⟨{ctor}, {'true' if guarded else 'false'}⟩")
        lines.append("  [" + ",\n   ".join(items) + "]")
    else:
        lines.append("  []")
    lines += ["", "end Dcg.Gen.ParsePasses", ""]
    return "\n".join(lines)


if __name__ == "__main__":
    print(generate())
