"""Translator: every place of the source that decides "keyword-only" → Dcg/Gen/KwSites.lean.

Python (`ast`, every *.py below src/datamodel_code_generator) and templates (jinja2's own parser, every
model/template/**/*.jinja2). A *site* is a place that
  * gives the flag a value: default of a parameter `keyword_only`, keyword argument `keyword_only=E`, dict entry
    `"keyword_only": E`, assignment to a name / attribute / item `keyword_only`, `{% set keyword_only = E %}`;
  * writes the text: a string literal or template text containing `kw_only` / `keyword_only` that is not a read of the
    flag, not a docstring and not a `help=` text;
  * lets a schema carry it: `kw_only` as member of a `*FIELD_KEYS*` collection.
Each site carries the Boolean expression that decides it — the value expression conjoined with the tests of the
enclosing `if` / conditional expressions — in the language of lean/Dcg/Model/KwFlow.lean: reads of the flag
(`keyword_only`, `x.keyword_only`, `x["keyword_only"]`, `x.get("keyword_only")`), literals by truthiness, `.has_*`
version predicates, `not/and/or`, conditional expressions; everything else is `other <key of its text>`.
Nothing is recognised by position or by the name of the enclosing function: a new way to switch keyword-only on is a
new site with the expression the source wrote.
"""
from __future__ import annotations

import ast

from ..common import REPO
from ..keyenc import k

GEN_NAME = "KwSites"
SRC = REPO / "src" / "datamodel_code_generator"
WORDS = ("kw_only", "keyword_only")
FLAG = "keyword_only"

# expression trees as tuples: ("flag",) ("const", b) ("guard", name) ("other", text) ("not", e) ("and", a, b) ("or", a, b)


def conj(conds: list, e=None):
    parts = list(conds) + ([e] if e is not None else [])
    if not parts:
        return ("const", True)
    out = parts[0]
    for p in parts[1:]:
        out = ("and", out, p)
    return out


def _is_flag_key(n) -> bool:
    return isinstance(n, ast.Constant) and n.value == FLAG


def tr_py(e: ast.AST):
    if isinstance(e, ast.Constant):
        if isinstance(e.value, (bool, int, float, str, bytes)) or e.value is None:
            return ("const", bool(e.value))
        return ("other", ast.unparse(e)[:60])
    if isinstance(e, ast.Name) and e.id == FLAG:
        return ("flag",)
    if isinstance(e, ast.Attribute) and e.attr == FLAG:
        return ("flag",)
    if isinstance(e, ast.Attribute) and e.attr.startswith("has_"):
        return ("guard", e.attr)
    if isinstance(e, ast.Subscript) and _is_flag_key(e.slice):
        return ("flag",)
    if isinstance(e, ast.Call):
        f = e.func
        if isinstance(f, ast.Attribute) and f.attr == "get" and e.args and _is_flag_key(e.args[0]) and not e.keywords:
            return ("flag",) if len(e.args) == 1 else ("or", ("flag",), tr_py(e.args[1])) if len(e.args) == 2 else ("other", ast.unparse(e)[:60])
        if isinstance(f, ast.Name) and f.id == "getattr" and len(e.args) >= 2 and _is_flag_key(e.args[1]) and not e.keywords:
            return ("flag",) if len(e.args) == 2 else ("or", ("flag",), tr_py(e.args[2]))
        if isinstance(f, ast.Name) and f.id == "bool" and len(e.args) == 1 and not e.keywords:
            return tr_py(e.args[0])
    if isinstance(e, ast.UnaryOp) and isinstance(e.op, ast.Not):
        return ("not", tr_py(e.operand))
    if isinstance(e, ast.BoolOp):
        op = "and" if isinstance(e.op, ast.And) else "or"
        out = tr_py(e.values[0])
        for v in e.values[1:]:
            out = (op, out, tr_py(v))
        return out
    if isinstance(e, ast.IfExp):
        c = tr_py(e.test)
        return ("or", ("and", c, tr_py(e.body)), ("and", ("not", c), tr_py(e.orelse)))
    return ("other", ast.unparse(e)[:60])


def _has_word(s) -> bool:
    return isinstance(s, str) and any(w in s for w in WORDS)


class PyScan:
    def __init__(self, rel: str) -> None:
        self.rel = rel
        self.sites: list[tuple] = []
        self.consumed: set[int] = set()   # ids of Constant nodes that are reads / keys / documentation
        self.handled: set[int] = set()    # ids of binding targets that already are a site
        self.mentions: list[tuple[int, int, str]] = []   # (first line, last line, category) of every classified mention

    def note(self, node: ast.AST, category: str) -> None:
        ln = getattr(node, "lineno", 0)
        self.mentions.append((ln, getattr(node, "end_lineno", ln) or ln, category))

    def add(self, fn: str, node: ast.AST, kind: str, expr) -> None:
        self.sites.append((self.rel, fn, getattr(node, "lineno", 0), kind, expr))
        self.note(node, "site:" + kind)

    def mark_reads(self, tree: ast.AST) -> None:
        for n in ast.walk(tree):
            if isinstance(n, (ast.FunctionDef, ast.AsyncFunctionDef, ast.ClassDef, ast.Module)):
                b = n.body
                if b and isinstance(b[0], ast.Expr) and isinstance(b[0].value, ast.Constant) and isinstance(b[0].value.value, str):
                    self.consumed.add(id(b[0].value))
            if isinstance(n, ast.Call):
                f = n.func
                if isinstance(f, ast.Attribute) and f.attr == "get" and n.args and _is_flag_key(n.args[0]):
                    self.consumed.add(id(n.args[0]))
                if isinstance(f, ast.Name) and f.id in ("getattr", "hasattr") and len(n.args) >= 2 and _is_flag_key(n.args[1]):
                    self.consumed.add(id(n.args[1]))
                for kw in n.keywords:
                    if kw.arg == "help":
                        self.consumed.update(id(x) for x in ast.walk(kw.value) if isinstance(x, ast.Constant))
            if isinstance(n, ast.Subscript) and _is_flag_key(n.slice):
                self.consumed.add(id(n.slice))
            if isinstance(n, ast.Expr) and isinstance(n.value, ast.Constant) and isinstance(n.value.value, str):
                self.consumed.add(id(n.value))   # a bare string statement (attribute docstring)

    def targets(self, t: ast.AST):
        """(is a flag target, is part of an unpacking)"""
        if isinstance(t, ast.Name) and t.id == FLAG:
            return True
        if isinstance(t, ast.Attribute) and t.attr == FLAG:
            return True
        if isinstance(t, ast.Subscript) and _is_flag_key(t.slice):
            return True
        return False

    def visit(self, node: ast.AST, fn: str, conds: list) -> None:
        if isinstance(node, (ast.FunctionDef, ast.AsyncFunctionDef, ast.Lambda)):
            name = getattr(node, "name", "<lambda>")
            q = name if fn == "<module>" else f"{fn}.{name}"
            a = node.args
            pos = a.posonlyargs + a.args
            for arg, d in zip(pos[len(pos) - len(a.defaults):], a.defaults):
                if arg.arg == FLAG:
                    self.add(q, arg, "paramDefault", tr_py(d))
            for arg, d in zip(a.kwonlyargs, a.kw_defaults):
                if arg.arg == FLAG and d is not None:
                    self.add(q, arg, "paramDefault", tr_py(d))
            for arg in pos + a.kwonlyargs + [x for x in (a.vararg, a.kwarg) if x]:
                if any(w in arg.arg for w in WORDS):
                    self.note(arg, "declaration")   # a parameter (with a default: also a site, above)
            if any(w in name for w in WORDS):
                self.note(node, "declaration")
            for d in list(a.defaults) + [x for x in a.kw_defaults if x is not None]:
                self.visit(d, fn, conds)
            for dec in getattr(node, "decorator_list", []):
                self.visit(dec, fn, conds)
            body = node.body if isinstance(node.body, list) else [node.body]
            for st in body:
                self.visit(st, q, [])
            return
        if isinstance(node, ast.ClassDef):
            q = node.name if fn == "<module>" else f"{fn}.{node.name}"
            if any(w in node.name for w in WORDS):
                self.note(node, "declaration")
            for x in node.bases + [kw.value for kw in node.keywords] + node.decorator_list:
                self.visit(x, fn, conds)
            for kw in node.keywords:
                if kw.arg == FLAG:
                    self.add(q, node, "callKwarg", conj(conds, tr_py(kw.value)))
            for st in node.body:
                self.visit(st, q, conds)
            return
        if isinstance(node, (ast.If, ast.While)):
            c = tr_py(node.test)
            self.visit(node.test, fn, conds)
            for st in node.body:
                self.visit(st, fn, conds + [c])
            for st in node.orelse:
                self.visit(st, fn, conds + [("not", c)] if isinstance(node, ast.If) else conds)
            return
        if isinstance(node, ast.IfExp):
            c = tr_py(node.test)
            self.visit(node.test, fn, conds)
            self.visit(node.body, fn, conds + [c])
            self.visit(node.orelse, fn, conds + [("not", c)])
            return
        if isinstance(node, (ast.Assign, ast.AnnAssign, ast.AugAssign)):
            tgts = node.targets if isinstance(node, ast.Assign) else [node.target]
            value = node.value
            if value is not None:
                for t in tgts:
                    if self.targets(t):
                        self.handled.add(id(t))
                        e = tr_py(value) if not isinstance(node, ast.AugAssign) else ("other", ast.unparse(node)[:60])
                        self.add(fn, node, "assign", conj(conds, e))
                    elif isinstance(t, (ast.Tuple, ast.List)) and any(self.targets(x) for x in ast.walk(t)):
                        self.handled.update(id(x) for x in ast.walk(t))
                        self.add(fn, node, "assign", conj(conds, ("other", ast.unparse(value)[:60])))
                    elif isinstance(t, ast.Name) and "FIELD_KEYS" in t.id:
                        for x in ast.walk(value):
                            if isinstance(x, ast.Constant) and x.value in WORDS and id(x) not in self.consumed:
                                self.consumed.add(id(x))
                                self.add(f"{fn}.{t.id}" if fn != "<module>" else t.id, x, "fieldKey", conj(conds))
            elif any(self.targets(t) for t in tgts):   # `keyword_only: bool` without a value
                for t in tgts:
                    self.handled.add(id(t))
                    self.note(t, "declaration")
            for ch in ast.iter_child_nodes(node):
                self.visit(ch, fn, conds)
            return
        if isinstance(node, ast.NamedExpr) and self.targets(node.target):
            self.handled.add(id(node.target))
            self.add(fn, node, "assign", conj(conds, tr_py(node.value)))
        if isinstance(node, ast.Call):
            for kw in node.keywords:
                if kw.arg is not None and any(w in kw.arg for w in WORDS):   # `keyword_only=E`, and `kw_only=E` of a call the generator makes
                    self.add(fn, kw.value, "callKwarg", conj(conds, tr_py(kw.value)))
        if isinstance(node, (ast.Name, ast.Attribute, ast.Subscript)) and self.targets(node):
            if isinstance(node.ctx, ast.Load):
                self.note(node, "read")
            elif id(node) not in self.handled:   # bound some other way: loop / with / comprehension target, `del`
                self.add(fn, node, "assign", conj(conds, ("other", "bound by " + type(node.ctx).__name__)))
        elif isinstance(node, ast.Name) and any(w in node.id for w in WORDS):
            self.note(node, "other name")     # e.g. a local variable `has_kw_only`
        elif isinstance(node, ast.Attribute) and any(w in node.attr for w in WORDS):
            self.note(node, "guard" if node.attr.startswith("has_") else "other name")
        if isinstance(node, ast.alias) and any(w in (node.name + " " + (node.asname or "")) for w in WORDS):
            self.note(node, "declaration")
        if isinstance(node, ast.Dict):
            for key_, v in zip(node.keys, node.values):
                if key_ is not None and _is_flag_key(key_):
                    self.consumed.add(id(key_))
                    self.add(fn, key_, "callKwarg", conj(conds, tr_py(v)))
        if isinstance(node, ast.Constant) and _has_word(node.value):
            if id(node) in self.consumed:
                self.note(node, "read / documentation")
            else:
                self.add(fn, node, "textPy", conj(conds))
        for ch in ast.iter_child_nodes(node):
            self.visit(ch, fn, conds)


def scan_python() -> list[PyScan]:
    out = []
    for path in sorted(SRC.rglob("*.py")):
        text = path.read_text()
        if not any(w in text for w in WORDS):
            continue
        tree = ast.parse(text)
        sc = PyScan(str(path.relative_to(SRC)))
        sc.mark_reads(tree)
        sc.visit(tree, "<module>", [])
        out.append(sc)
    return out


def python_sites() -> list[tuple]:
    return [s for sc in scan_python() for s in sc.sites]


def unaccounted_python() -> list[tuple[str, int, str]]:
    """(file, line, token) for every NAME / string token of the source that contains one of the words and lies in no
    mention the scanner classified — independent of the AST walk (tokenize), so that a construct the walk does not
    visit cannot hide an occurrence. Comments are documentation."""
    import io
    import tokenize

    out = []
    for sc in scan_python():
        text = (SRC / sc.rel).read_text()
        for tok in tokenize.generate_tokens(io.StringIO(text).readline):
            if tok.type == tokenize.COMMENT or not any(w in tok.string for w in WORDS):
                continue
            a, b = tok.start[0], tok.end[0]
            if not any(lo <= b and a <= hi for lo, hi, _ in sc.mentions):
                out.append((sc.rel, a, tok.string[:60]))
    return out


# ------------------------------------------------------------------ templates
def tr_j2(e):
    from jinja2 import nodes as N

    if isinstance(e, N.Const):
        return ("const", bool(e.value))
    if isinstance(e, N.Name) and e.name == FLAG:
        return ("flag",)
    if isinstance(e, N.Getattr) and e.attr == FLAG:
        return ("flag",)
    if isinstance(e, N.Getitem) and isinstance(e.arg, N.Const) and e.arg.value == FLAG:
        return ("flag",)
    if isinstance(e, N.Getattr) and e.attr.startswith("has_"):
        return ("guard", e.attr)
    if isinstance(e, N.Not):
        return ("not", tr_j2(e.node))
    if isinstance(e, (N.And, N.Or)):
        return ("and" if isinstance(e, N.And) else "or", tr_j2(e.left), tr_j2(e.right))
    if isinstance(e, N.CondExpr):
        c = tr_j2(e.test)
        other = tr_j2(e.expr2) if e.expr2 is not None else ("const", False)
        return ("or", ("and", c, tr_j2(e.expr1)), ("and", ("not", c), other))
    names = sorted({x.name for x in e.find_all(N.Name)})
    return ("other", f"jinja {type(e).__name__} {' '.join(names)}"[:60])


def template_sites() -> list[tuple]:
    return scan_templates()[0]


def unaccounted_templates() -> list[tuple[str, int, str]]:
    """(file, line, text) for every template line that contains one of the words outside every classified mention"""
    _, mentions = scan_templates()
    out = []
    for path in sorted((SRC / "model" / "template").rglob("*.jinja2")):
        rel = str(path.relative_to(SRC))
        for i, line in enumerate(path.read_text().splitlines(), 1):
            if any(w in line for w in WORDS) and not any(r == rel and lo <= i <= hi for r, lo, hi, _ in mentions):
                out.append((rel, i, line.strip()[:60]))
    return out


def scan_templates() -> tuple[list[tuple], list[tuple[str, int, int, str]]]:
    import jinja2
    from jinja2 import nodes as N

    env = jinja2.Environment()  # noqa: S701 - parsing only
    out: list[tuple] = []
    mentions: list[tuple[str, int, int, str]] = []
    root = SRC / "model" / "template"
    for path in sorted(root.rglob("*.jinja2")):
        text = path.read_text()
        if not any(w in text for w in WORDS):
            continue
        rel = str(path.relative_to(SRC))
        tree = env.parse(text)

        def visit(node, conds: list) -> None:
            if isinstance(node, N.If):
                c = tr_j2(node.test)
                visit(node.test, conds)
                for b in node.body:
                    visit(b, conds + [c])
                neg = [("not", c)]
                for el in node.elif_:
                    ce = tr_j2(el.test)
                    visit(el.test, conds + neg)
                    for b in el.body:
                        visit(b, conds + neg + [ce])
                    neg = neg + [("not", ce)]
                for b in node.else_:
                    visit(b, conds + neg)
                return
            if isinstance(node, N.CondExpr):
                c = tr_j2(node.test)
                visit(node.test, conds)
                visit(node.expr1, conds + [c])
                if node.expr2 is not None:
                    visit(node.expr2, conds + [("not", c)])
                return
            if isinstance(node, N.Assign) and any(isinstance(x, N.Name) and x.name == FLAG for x in node.target.find_all(N.Name)) or (
                    isinstance(node, N.Assign) and isinstance(node.target, N.Name) and node.target.name == FLAG):
                e = tr_j2(node.node) if isinstance(node.target, N.Name) else ("other", "jinja unpacking")
                out.append((rel, "<template>", node.lineno, "assign", conj(conds, e)))
                mentions.append((rel, node.lineno, node.lineno, "site"))
            elif isinstance(node, (N.For, N.AssignBlock, N.Macro, N.CallBlock, N.With)) and any(
                    isinstance(x, N.Name) and x.name == FLAG and x.ctx != "load" for x in node.find_all(N.Name)):
                out.append((rel, "<template>", node.lineno, "assign", conj(conds, ("other", "jinja " + type(node).__name__))))
                mentions.append((rel, node.lineno, node.lineno, "site"))
            if isinstance(node, N.TemplateData) and _has_word(node.data):
                out.append((rel, "<template>", node.lineno, "textTemplate", conj(conds)))
                mentions.append((rel, node.lineno, node.lineno + node.data.count("\n"), "site"))
            if isinstance(node, N.Const) and _has_word(node.value):
                out.append((rel, "<template>", node.lineno, "textTemplate", conj(conds)))
                mentions.append((rel, node.lineno, node.lineno + str(node.value).count("\n"), "site"))
            if isinstance(node, N.Keyword) and any(w in node.key for w in WORDS):
                out.append((rel, "<template>", node.lineno, "callKwarg", conj(conds, tr_j2(node.value))))
                mentions.append((rel, node.lineno, node.lineno, "site"))
            if isinstance(node, N.Name) and node.name == FLAG and node.ctx == "load":
                mentions.append((rel, node.lineno, node.lineno, "read"))
            if isinstance(node, N.Getattr) and any(w in node.attr for w in WORDS):
                mentions.append((rel, node.lineno, node.lineno, "read"))
            for ch in node.iter_child_nodes():
                visit(ch, conds)

        visit(tree, [])
    return out, mentions


def sites() -> list[tuple]:
    return sorted(python_sites() + template_sites(), key=lambda s: (s[0], s[2], s[3], repr(s[4])))


def kind_files() -> list[tuple[str, list[str]]]:
    """for every output model type: the source files whose sites act on its model classes — the modules of the selected
    data model / root model / field classes and of their bases inside the package, and their templates"""
    import sys

    from datamodel_code_generator import DataModelType
    from datamodel_code_generator.format import PythonVersion
    from datamodel_code_generator.model import get_data_model_types

    out = []
    for mt in DataModelType:
        files: set[str] = set()
        for ver in PythonVersion:
            s = get_data_model_types(mt, ver)
            for cls in (s.data_model, s.root_model, s.field_model):
                for c in cls.__mro__:
                    if c.__module__.startswith("datamodel_code_generator"):
                        f = getattr(sys.modules.get(c.__module__), "__file__", None)
                        if f:
                            try:
                                files.add(str(__import__("pathlib").Path(f).resolve().relative_to(SRC.resolve())))
                            except ValueError:
                                pass
                    tpl = vars(c).get("TEMPLATE_FILE_PATH")
                    if isinstance(tpl, str) and tpl:
                        files.add("model/template/" + tpl)
        out.append((mt.value, sorted(files)))
    return out


# ------------------------------------------------------------------ rendering
def lean_expr(e) -> str:
    t = e[0]
    if t == "flag":
        return ".flag"
    if t == "const":
        return f"(.const {'true' if e[1] else 'false'})"
    if t == "guard":
        return f"(.guard ({k(e[1])}))"
    if t == "other":
        return f"(.other ({k(e[1])}))"
    if t == "not":
        return f"(.not {lean_expr(e[1])})"
    return f"(.{t} {lean_expr(e[1])} {lean_expr(e[2])})"


def show_expr(e) -> str:
    t = e[0]
    if t == "flag":
        return "flag"
    if t == "const":
        return str(e[1])
    if t in ("guard", "other"):
        return f"{t}[{e[1]}]"
    if t == "not":
        return f"not {show_expr(e[1])}"
    return f"({show_expr(e[1])} {t} {show_expr(e[2])})"


def generate() -> str:
    out = ["import Dcg.Model.Key", "import Dcg.Model.KwFlow", "namespace Dcg.Gen.KwSites", "open Dcg.Model.KwFlow", ""]
    rows = [
        f"{{ file := {k(f)}, func := {k(fn)}, line := {ln}, kind := .{kind},\n     expr := {lean_expr(e)} }}"
        for f, fn, ln, kind, e in sites()
    ]
    out.append(
        "/-- every place that gives the keyword-only flag a value or writes `kw_only` / `keyword_only` as text, with the\n"
        "Boolean expression deciding it (value ∧ enclosing conditions) -/\n"
        "def sites : List Site :=\n  [" + ",\n   ".join(rows) + "]\n"
    )
    rows = [f"({k(mt)}, [" + ", ".join(k(f) for f in fs) + "])" for mt, fs in kind_files()]
    out.append(
        "/-- output model type → files whose sites act on its classes (modules of the selected model / field classes and\n"
        "their package bases, and their templates) -/\n"
        "def kindFiles : List (Nat × List Nat) :=\n  [" + ",\n   ".join(rows) + "]\n"
    )
    out.append("end Dcg.Gen.KwSites")
    return "\n".join(out) + "\n"
