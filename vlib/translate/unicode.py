"""Translator: what the name sanitiser relies on from the *interpreter* and from pydantic
(environment, not repository) → Dcg/Gen/Unicode.lean.

* range tables over Unicode scalar values, read off the running CPython:
  `xidStart`   = {c | c.isidentifier()}            (XID_Start ∪ {'_'}: what `str.isidentifier` accepts first)
  `xidContinue`= {c | ("a" + c).isidentifier()}    (what it accepts afterwards)
  `word`       = {c | re.match(r"\\w", c)}          (the class the sanitiser's regex keeps)
  `numeric`    = {c | c.isnumeric()}
* `keywords` = keyword.kwlist;  `pydReserved` = {n | hasattr(pydantic.BaseModel, n)} (what
  `PydanticFieldNameResolver._validate_field_name` consults; candidates are the `dir()` of the class,
  of its metaclass, of `type` and of `object`)
* `lowerMap*` / `upperMap*`: every character whose `str.lower()` / `str.upper()` differs from itself:
  single-character images as arithmetic runs, the rest as explicit entries. `str.lower` is
  character-wise except for the final-sigma rule; `finalSigma` records the possible images of U+03A3.
* `caseViolations`: characters for which a case map leaves the identifier classes — checked
  exhaustively HERE, in Python (a kernel `decide` over the tables takes minutes); expected to be empty.
  The Lean theorems take the case maps as parameters with the hypothesis `CaseOK`.
"""
from __future__ import annotations

import keyword
import re
import warnings
from functools import lru_cache

GEN_NAME = "Unicode"
MAXC = 0x110000
_W = re.compile(r"\w")
FLAGS = ("xidStart", "xidContinue", "word", "numeric")


def scalars():
    yield from range(0xD800)
    yield from range(0xE000, MAXC)


@lru_cache(maxsize=1)
def scan():
    """one pass over all scalar values: flag vectors, case maps, violations, class representatives"""
    tabs: dict[str, list[tuple[int, int]]] = {f: [] for f in FLAGS}
    open_: dict[str, int | None] = {f: None for f in FLAGS}
    lower: list[tuple[int, str]] = []
    upper: list[tuple[int, str]] = []
    bad: set[int] = set()
    reps: dict[str, list[str]] = {}
    prev = -1
    wmatch = _W.match
    for i in scalars():
        c = chr(i)
        st = c.isidentifier()
        ct = ("a" + c).isidentifier()
        fl = (st, ct, wmatch(c) is not None, c.isnumeric())
        gap = i != prev + 1
        for f, v in zip(FLAGS, fl):
            o = open_[f]
            if o is not None and (gap or not v):
                tabs[f].append((o, prev))
                open_[f] = o = None
            if v and o is None:
                open_[f] = i
        prev = i
        lo, up = c.lower(), c.upper()
        if lo != c:
            lower.append((i, lo))
        if up != c:
            upper.append((i, up))
        if lo != c or up != c:
            for img in (lo, up):
                if not img or (ct and not ("a" + img).isidentifier()) or (st and not img[0].isidentifier()) or (img[0] == "_" and c != "_"):
                    bad.add(i)
        if i > 127:
            sig = "".join("1" if v else "0" for v in fl) + ("c" if (lo != c or up != c) else "")
            r = reps.setdefault(sig, [])
            if len(r) < 6:
                r.append(c)
    for f in FLAGS:
        if open_[f] is not None:
            tabs[f].append((open_[f], prev))
    # the only context-sensitive rule of str.lower(): capital sigma becomes final sigma at the end of a word
    for img in final_sigma():
        if not chr(img).isidentifier():
            bad.add(0x3A3)
    return tabs, lower, upper, sorted(bad), reps


def tables() -> dict[str, list[tuple[int, int]]]:
    return scan()[0]


def case_maps() -> dict[str, list[tuple[int, str]]]:
    return {"lowerMap": scan()[1], "upperMap": scan()[2]}


def case_violations() -> list[int]:
    return scan()[3]


def class_representatives() -> dict[str, list[str]]:
    """non-ASCII representatives of every combination of (isidentifier, continue, \\w, isnumeric[, cased])
    that occurs — the classes on which the sanitiser's predicates disagree"""
    return scan()[4]


@lru_cache(maxsize=1)
def reserved() -> list[str]:
    from pydantic import BaseModel

    cand = set(dir(BaseModel)) | set(dir(type(BaseModel))) | set(dir(type)) | set(dir(object))
    with warnings.catch_warnings():
        warnings.simplefilter("ignore")
        return sorted(n for n in cand if hasattr(BaseModel, n))


def final_sigma() -> list[int]:
    return sorted({ord("AΣ".lower()[1]), ord("Σ".lower()), ord("ΣA".lower()[0])})


def compress(m: list[tuple[int, str]]):
    """single-character images as arithmetic runs (lo, hi, stride, plus, minus): every c in lo..hi with
    (c - lo) % stride == 0 maps to c + plus - minus; everything else as explicit (c, image) entries"""
    singles = [(c, ord(s) - c) for c, s in m if len(s) == 1]
    multi = [(c, s) for c, s in m if len(s) != 1]
    runs = []
    i = 0
    while i < len(singles):
        c, d = singles[i]
        best = (c, c, 1)
        for st in (1, 2):
            j, last = i, c
            while j + 1 < len(singles) and singles[j + 1][1] == d and singles[j + 1][0] == last + st:
                j += 1
                last = singles[j][0]
            if (j - i) > (best[1] - best[0]) // best[2]:
                best = (c, last, st)
        lo, hi, st = best
        runs.append((lo, hi, st, max(d, 0), max(-d, 0)))
        i += (hi - lo) // st + 1
    return runs, multi


def expand(runs, multi) -> dict[int, str]:
    d = {}
    for lo, hi, st, plus, minus in runs:
        for c in range(lo, hi + 1, st):
            d[c] = chr(c + plus - minus)
    for c, s in multi:
        d[c] = s
    return d


def _pairs(name: str, rs: list[tuple[int, int]], doc: str) -> str:
    rows = [", ".join(f"({a}, {b})" for a, b in rs[i : i + 8]) for i in range(0, len(rs), 8)]
    body = ",\n   ".join(rows)
    return f"/-- {doc} ({len(rs)} ranges, sorted, disjoint, inclusive) -/\ndef {name} : List (Nat × Nat) :=\n  [{body}]\n"


def _strs(name: str, ss: list[str], doc: str) -> str:
    rows = ",\n   ".join("[" + ", ".join(f"Char.ofNat {ord(c)}" for c in s) + "]" for s in ss)
    return f"/-- {doc} -/\ndef {name} : List (List Char) :=\n  [{rows}]\n"


def _interval_ok(tab: list[tuple[int, int]], lo: int, hi: int, d: int) -> bool:
    """the whole image interval lies in one range of the table, or the whole source interval misses the table"""
    return any(a <= lo + d and hi + d <= b for a, b in tab) or all(hi < a or b < lo for a, b in tab)


def split_runs(m: list[tuple[int, str]]):
    """runs whose class preservation can be checked interval-wise (what the Lean proof of CaseOK does);
    the characters of the few other runs are moved to the explicit entries"""
    runs, multi = compress(m)
    t = tables()
    good = []
    extra: list[tuple[int, str]] = []
    for r in runs:
        lo, hi, st, plus, minus = r
        d = plus - minus
        if _interval_ok(t["xidStart"], lo, hi, d) and _interval_ok(t["xidContinue"], lo, hi, d) and not (lo + d <= 95 <= hi + d):
            good.append(r)
        else:
            extra += [(c, chr(c + d)) for c in range(lo, hi + 1, st)]
    return good, sorted(multi + extra)


def _cmap(name: str, m: list[tuple[int, str]], doc: str) -> str:
    runs, multi = split_runs(m)
    assert expand(runs, multi) == dict(m)
    rows = [", ".join("(" + ", ".join(str(x) for x in r) + ")" for r in runs[i : i + 5]) for i in range(0, len(runs), 5)]
    body = ",\n   ".join(rows)
    srows = ",\n   ".join(f"({c}, [" + ", ".join(str(ord(x)) for x in img) + "])" for c, img in multi)
    return (
        f"/-- {doc}: single-character images as runs (lo, hi, stride, plus, minus), "
        f"c ↦ c + plus - minus for c = lo, lo+stride, …, hi ({len(m) - len(multi)} characters in {len(runs)} runs; "
        f"each run keeps the identifier classes interval-wise) -/\n"
        f"def {name}Runs : List (Nat × Nat × Nat × Nat × Nat) :=\n  [{body}]\n\n"
        f"/-- {doc}: the other images ({len(multi)} entries) -/\n"
        f"def {name}Special : List (Nat × List Nat) :=\n  [{srows}]\n"
    )


def generate() -> str:
    t = tables()
    out = ["namespace Dcg.Gen.Unicode", ""]
    out.append(_pairs("xidStart", t["xidStart"], "c.isidentifier(): XID_Start and '_'"))
    out.append(_pairs("xidContinue", t["xidContinue"], '("a" + c).isidentifier(): XID_Continue'))
    out.append(_pairs("word", t["word"], "re.match(r'\\w', c)"))
    out.append(_pairs("numeric", t["numeric"], "c.isnumeric()"))
    out.append(_strs("keywords", list(keyword.kwlist), "keyword.kwlist"))
    out.append(_strs("pydReserved", reserved(), "names n with hasattr(pydantic.BaseModel, n)"))
    cm = case_maps()
    out.append(_cmap("lowerMap", cm["lowerMap"], "c.lower() where it differs from c"))
    out.append(_cmap("upperMap", cm["upperMap"], "c.upper() where it differs from c"))
    out.append(
        "/-- images of U+03A3 under str.lower() (one of them is the context-sensitive final sigma) -/\n"
        f"def finalSigma : List Nat := [{', '.join(str(x) for x in final_sigma())}]\n"
    )
    out.append(
        "/-- characters whose lower()/upper() leaves the identifier classes (exhaustive check in the translator) -/\n"
        f"def caseViolations : List Nat := [{', '.join(str(x) for x in case_violations())}]\n"
    )
    out.append("end Dcg.Gen.Unicode")
    return "\n".join(out) + "\n"


if __name__ == "__main__":
    print(generate()[:3000])
