"""Translator: constraint keyword tables of the generator → Dcg/Gen/Constraints.lean.

Everything here is a *runtime value* of the working tree (the package is imported):

* `kwargs_schema_to_model` of the pydantic-v1-style and the v2 `DataTypeManager`,
* the filter sets `number_kwargs` / `string_kwargs` / `byes_kwargs`,
* `JsonSchemaObject.__constraint_fields__`,
* for each of the three `Constraints` classes (pydantic, pydantic_v2, msgspec) the attribute that
  receives the value of a schema keyword — read by `Constraints.parse_obj({keyword: v})` and
  looking at `dict(exclude_unset=True)` (this is what `DataModelField.__str__` iterates over, and
  it covers the v2 `validate_min_max_items` rename),
* how `additionalProperties` (absent / true / false / a schema) ends up as `extra` in the config of
  the model class — read by running the real parser on a one-member object schema.
"""
from __future__ import annotations

import warnings
from typing import Any

from ..lean import lean_string

GEN_NAME = "Constraints"
STYLES = ("v1", "v2")


def _mods():
    from datamodel_code_generator.model import msgspec as ms
    from datamodel_code_generator.model import pydantic as p1
    from datamodel_code_generator.model import pydantic_v2 as p2

    return {"v1": p1, "v2": p2, "msgspec": ms}


def probe_value(kw: str) -> Any:
    if kw == "pattern":
        return "^a"
    if kw == "uniqueItems":
        return True
    return 7


def constraint_fields() -> list[str]:
    from datamodel_code_generator.parser.jsonschema import JsonSchemaObject

    return sorted(JsonSchemaObject.__constraint_fields__)


def kwargs_maps() -> dict[str, dict[str, str]]:
    m = _mods()
    return {st: dict(m[st].DataTypeManager().kwargs_schema_to_model) for st in STYLES}


def filter_sets() -> dict[str, list[str]]:
    from datamodel_code_generator.model.pydantic import types as t1

    return {
        "numberKwargs": sorted(t1.number_kwargs),
        "stringKwargs": sorted(t1.string_kwargs),
        "bytesKwargs": sorted(t1.byes_kwargs),
    }


def constraints_class(which: str):
    m = _mods()
    if which == "msgspec":
        return m["msgspec"].Constraints
    return m[which].base_model.Constraints


def alias_maps() -> dict[str, dict[str, str]]:
    """schema keyword -> attribute of the Constraints class that holds the value afterwards
    (absent when no attribute, or more than one, received it)."""
    out: dict[str, dict[str, str]] = {}
    for which in ("v1", "v2", "msgspec"):
        cls = constraints_class(which)
        row: dict[str, str] = {}
        for kw in constraint_fields():
            v = probe_value(kw)
            try:
                with warnings.catch_warnings():
                    warnings.simplefilter("ignore")
                    got = cls.parse_obj({kw: v}).dict(exclude_unset=True)
            except Exception:  # noqa: BLE001 - a keyword the class rejects has no attribute
                continue
            holders = [k for k, val in got.items() if val == v and type(val) in (type(v), float)]
            if len(holders) == 1:
                row[kw] = holders[0]
        out[which] = row
    return out


def constraint_attrs() -> dict[str, list[str]]:
    out = {}
    for which in ("v1", "v2", "msgspec"):
        cls = constraints_class(which)
        fields = getattr(cls, "model_fields", None) or cls.__fields__
        out[which] = list(fields)
    return out


def _canon_extra(v: Any) -> str:
    if v is None:
        return "none"
    s = str(v).strip("'\"")
    s = s.rsplit(".", 1)[-1]
    return s  # allow | forbid | ignore


def extra_maps() -> dict[str, dict[str, str]]:
    """additionalProperties as written in the schema -> `extra` of the generated class's config,
    observed on the data model the real parser builds."""
    from datamodel_code_generator.parser.jsonschema import JsonSchemaParser
    import json

    m = _mods()
    out: dict[str, dict[str, str]] = {}
    for st in STYLES:
        row = {}
        for label, ap in (("absent", None), ("true", True), ("false", False), ("schema", {"type": "integer"})):
            schema: dict[str, Any] = {"title": "M", "type": "object", "properties": {"a": {"type": "integer"}}}
            if ap is not None:
                schema["additionalProperties"] = ap
            mod = m[st]
            with warnings.catch_warnings():
                warnings.simplefilter("ignore")
                p = JsonSchemaParser(
                    json.dumps(schema),
                    data_model_type=mod.BaseModel,
                    data_model_root_type=mod.RootModel if st == "v2" else mod.CustomRootType,
                    data_type_manager_type=mod.DataTypeManager,
                    data_model_field_type=mod.DataModelField,
                )
                p.parse_raw()
            dm = [r for r in p.results if r.class_name == "M"][0]
            cfg = dm.extra_template_data.get("config")
            row[label] = _canon_extra(getattr(cfg, "extra", None))
        out[st] = row
    return out


def _pairs(name: str, doc: str, d: dict[str, str]) -> str:
    rows = ",\n   ".join(f"({lean_string(k)}, {lean_string(v)})" for k, v in d.items())
    return f"/-- {doc} -/\ndef {name} : List (String × String) :=\n  [{rows}]\n"


def _strs(name: str, doc: str, xs: list[str]) -> str:
    return f"/-- {doc} -/\ndef {name} : List String :=\n  [{', '.join(lean_string(x) for x in xs)}]\n"


def generate() -> str:
    out = ["namespace Dcg.Gen.Constraints", ""]
    out.append(_strs("constraintFields", "`JsonSchemaObject.__constraint_fields__` (sorted)", constraint_fields()))
    km = kwargs_maps()
    out.append(_pairs("kwargsV1", "`kwargs_schema_to_model` of model/pydantic DataTypeManager", km["v1"]))
    out.append(_pairs("kwargsV2", "`kwargs_schema_to_model` of model/pydantic_v2 DataTypeManager", km["v2"]))
    for name, xs in filter_sets().items():
        out.append(_strs(name, f"filter set `{name}` of model/pydantic/types.py (sorted)", xs))
    am = alias_maps()
    for which, nm in (("v1", "aliasV1"), ("v2", "aliasV2"), ("msgspec", "aliasMsgspec")):
        out.append(
            _pairs(nm, f"schema keyword ↦ attribute of the {which} `Constraints` class that holds its value after `parse_obj`", am[which])
        )
    ca = constraint_attrs()
    for which, nm in (("v1", "attrsV1"), ("v2", "attrsV2"), ("msgspec", "attrsMsgspec")):
        out.append(_strs(nm, f"attributes of the {which} `Constraints` class", ca[which]))
    em = extra_maps()
    out.append(_pairs("extraV1", "`additionalProperties` as written ↦ `extra` of the generated v1-style class (real parser run)", em["v1"]))
    out.append(_pairs("extraV2", "`additionalProperties` as written ↦ `extra` of the generated v2 class (real parser run)", em["v2"]))
    out.append("end Dcg.Gen.Constraints")
    return "\n".join(out) + "\n"
