"""Translator: option plumbing of the CLI → Dcg/Gen/CliTables.lean.

Runtime: `arg_parser._actions`, the preset attributes of the module-level `namespace`, `Config`
fields with defaults, `inspect.signature` of `generate()` and of the four parser constructors.
`ast`: keyword → expression maps of the `generate(...)` call in `main()`, of the `parser_class(...)`
call in `generate()` (plus the `kwargs["k"] = e` assignments feeding its `**kwargs`), of the
`super().__init__(...)` call of each parser subclass, and every `return` of `main()` with whether
a `print(..., file=sys.stderr)` precedes it in the same block.
"""
from __future__ import annotations

import ast
import enum
import inspect
import io
from pathlib import Path, PurePath

from ..common import REPO
from ..keyenc import k

GEN_NAME = "CliTables"
SRC = REPO / "src" / "datamodel_code_generator"


def canon(v) -> str:
    """Canonical, environment-stable text of an option value / default."""
    if v is None:
        return "None"
    if v is inspect.Parameter.empty:
        return "<required>"
    if isinstance(v, bool):
        return "True" if v else "False"
    if isinstance(v, enum.Enum):
        return str(v.value)
    if isinstance(v, (int, float)):
        return repr(v)
    if isinstance(v, str):
        return v
    if isinstance(v, PurePath):
        return str(v)
    if isinstance(v, (list, tuple)):
        return "[" + ",".join(canon(x) for x in v) + "]"
    if isinstance(v, (set, frozenset)):
        return "{" + ",".join(sorted(canon(x) for x in v)) + "}"
    if isinstance(v, dict):
        return "{" + ",".join(f"{canon(k)}:{canon(x)}" for k, x in sorted(v.items(), key=lambda kv: canon(kv[0]))) + "}"
    if isinstance(v, io.IOBase):
        return "<file>"
    if callable(v):
        return f"<callable {getattr(v, '__name__', '?')}>"
    return f"<{type(v).__name__}>"


# ------------------------------------------------------------------ runtime tables
def actions() -> list[dict]:
    from datamodel_code_generator.arguments import arg_parser

    out = []
    for a in arg_parser._actions:  # noqa: SLF001
        out.append(
            {
                "dest": a.dest,
                "kind": type(a).__name__,
                "default_is_none": a.default is None,
                "default": canon(a.default),
                "choices": [canon(c) for c in a.choices] if a.choices is not None else [],
                "nargs": "" if a.nargs is None else str(a.nargs),
                "flags": list(a.option_strings),
            }
        )
    return out


def namespace_init() -> list[tuple[str, str]]:
    """Attributes the module-level Namespace object is created with (text of the source expression)."""
    tree = ast.parse((SRC / "arguments.py").read_text())
    for node in tree.body:
        if isinstance(node, ast.Assign) and any(isinstance(t, ast.Name) and t.id == "namespace" for t in node.targets):
            if isinstance(node.value, ast.Call):
                return [(k.arg or "**", ast.unparse(k.value)) for k in node.value.keywords]
    return []


def config_fields() -> list[tuple[str, str]]:
    from datamodel_code_generator.__main__ import Config

    out = []
    for name, f in Config.get_fields().items():
        d = getattr(f, "default", None)
        out.append((name, canon(d)))
    return out


def generate_params() -> list[tuple[str, str]]:
    import datamodel_code_generator as d

    return [(n, canon(p.default)) for n, p in inspect.signature(d.generate).parameters.items()]


PARSER_CLASSES = [
    ("Parser", "datamodel_code_generator.parser.base", "Parser"),
    ("JsonSchemaParser", "datamodel_code_generator.parser.jsonschema", "JsonSchemaParser"),
    ("OpenAPIParser", "datamodel_code_generator.parser.openapi", "OpenAPIParser"),
    ("GraphQLParser", "datamodel_code_generator.parser.graphql", "GraphQLParser"),
]


def parser_params() -> list[tuple[str, list[tuple[str, str]]]]:
    import importlib

    out = []
    for label, mod, cls in PARSER_CLASSES:
        c = getattr(importlib.import_module(mod), cls)
        ps = [(n, canon(p.default)) for n, p in inspect.signature(c.__init__).parameters.items() if n != "self"]
        out.append((label, ps))
    return out


def kw_only_targets() -> list[str]:
    from datamodel_code_generator.format import PythonVersion

    return [v.value for v in PythonVersion if v.has_kw_only_dataclass]


# ------------------------------------------------------------------ ast tables
def _func(tree: ast.AST, name: str) -> ast.FunctionDef | None:
    for n in ast.walk(tree):
        if isinstance(n, ast.FunctionDef) and n.name == name:
            return n
    return None


def _call_keywords(fn: ast.AST, callee: str) -> tuple[list[tuple[str, str]], bool, int]:
    """(keyword → expression text, uses positional/*args, number of such calls) for calls `callee(...)` in fn."""
    calls = [
        n
        for n in ast.walk(fn)
        if isinstance(n, ast.Call) and isinstance(n.func, ast.Name) and n.func.id == callee
    ]
    if not calls:
        return [], False, 0
    c = calls[0]
    kws = [((k.arg if k.arg is not None else "**"), ast.unparse(k.value)) for k in c.keywords]
    return kws, bool(c.args), len(calls)


def main_generate_call() -> tuple[list[tuple[str, str]], bool, int]:
    tree = ast.parse((SRC / "__main__.py").read_text())
    fn = _func(tree, "main")
    return _call_keywords(fn, "generate") if fn else ([], False, 0)


def parser_call() -> tuple[list[tuple[str, str]], bool, int, list[tuple[str, str]]]:
    tree = ast.parse((SRC / "__init__.py").read_text())
    fn = _func(tree, "generate")
    if fn is None:
        return [], False, 0, []
    kws, pos, n = _call_keywords(fn, "parser_class")
    extra = []
    for node in ast.walk(fn):
        if isinstance(node, ast.Assign) and len(node.targets) == 1:
            t = node.targets[0]
            if (
                isinstance(t, ast.Subscript)
                and isinstance(t.value, ast.Name)
                and t.value.id == "kwargs"
                and isinstance(t.slice, ast.Constant)
                and isinstance(t.slice.value, str)
            ):
                extra.append((t.slice.value, ast.unparse(node.value)))
    return kws, pos, n, sorted(extra)


def super_init_calls() -> list[tuple[str, list[tuple[str, str]]]]:
    out = []
    for label, mod, cls in PARSER_CLASSES[1:]:
        path = SRC / "parser" / (mod.rsplit(".", 1)[1] + ".py")
        tree = ast.parse(path.read_text())
        kws: list[tuple[str, str]] = []
        for node in ast.walk(tree):
            if isinstance(node, ast.ClassDef) and node.name == cls:
                init = next((n for n in node.body if isinstance(n, ast.FunctionDef) and n.name == "__init__"), None)
                if init is None:
                    continue
                for c in ast.walk(init):
                    if (
                        isinstance(c, ast.Call)
                        and isinstance(c.func, ast.Attribute)
                        and c.func.attr == "__init__"
                        and isinstance(c.func.value, ast.Call)
                        and isinstance(c.func.value.func, ast.Name)
                        and c.func.value.func.id == "super"
                    ):
                        kws = [((k.arg if k.arg is not None else "**"), ast.unparse(k.value)) for k in c.keywords]
                        break
        out.append((label, kws))
    return out


def merge_args_filters() -> list[str]:
    """source text of the condition(s) under which `Config.merge_args` takes a value from the argparse namespace
    (the `if` clauses of the comprehension that builds `set_args`)"""
    tree = ast.parse((SRC / "__main__.py").read_text())
    fn = _func(tree, "merge_args")
    out: list[str] = []
    if fn is None:
        return out
    for n in ast.walk(fn):
        if isinstance(n, (ast.Assign, ast.AnnAssign)):
            tgt = n.targets[0] if isinstance(n, ast.Assign) else n.target
            if isinstance(tgt, ast.Name) and tgt.id == "set_args" and isinstance(n.value, (ast.DictComp, ast.Call)):
                for c in ast.walk(n.value):
                    if isinstance(c, ast.comprehension):
                        out += [ast.unparse(i) for i in c.ifs] or ["<no condition>"]
    return out


def _is_stderr_print(stmt: ast.stmt) -> bool:
    if not (isinstance(stmt, ast.Expr) and isinstance(stmt.value, ast.Call)):
        return False
    c = stmt.value
    if not (isinstance(c.func, ast.Name) and c.func.id == "print"):
        return False
    return any(k.arg == "file" and ast.unparse(k.value) == "sys.stderr" for k in c.keywords)


def main_returns() -> list[tuple[str, bool, int]]:
    """Every `return` of main(): (expression text, a print(..., file=sys.stderr) precedes it in the same
    statement list, line). `sys.exit(...)` calls are listed as `sys.exit(<arg>)`."""
    tree = ast.parse((SRC / "__main__.py").read_text())
    fn = _func(tree, "main")
    out: list[tuple[str, bool, int]] = []
    if fn is None:
        return out

    def walk_block(stmts: list[ast.stmt]) -> None:
        seen_print = False
        for s in stmts:
            if _is_stderr_print(s):
                seen_print = True
            if isinstance(s, ast.Return):
                out.append((ast.unparse(s.value) if s.value else "None", seen_print, s.lineno))
            if isinstance(s, ast.Expr) and isinstance(s.value, ast.Call) and ast.unparse(s.value.func) == "sys.exit":
                out.append((ast.unparse(s.value), seen_print, s.lineno))
            for field in ("body", "orelse", "finalbody"):
                sub = getattr(s, field, None)
                if isinstance(sub, list) and sub and isinstance(sub[0], ast.stmt):
                    walk_block(sub)
            if isinstance(s, ast.Try):
                for h in s.handlers:
                    walk_block(h.body)
            if isinstance(s, (ast.With,)):
                pass  # body handled above

    walk_block(fn.body)
    return sorted(out, key=lambda t: t[2])



# ------------------------------------------------------------------ path-valued options (C18: same normalisation on every route)
def _type_name(t) -> str:
    if t is None:
        return "None"
    if isinstance(t, type):
        return t.__name__
    return type(t).__name__ if not callable(t) or not hasattr(t, "__name__") else t.__name__


def action_types() -> list[tuple[str, str]]:
    """(dest, name of the argparse `type=` conversion) for every action: `None` (the string is stored), `str`, `Path`,
    `FileType` (argparse opens the raw string), a function name, …"""
    from datamodel_code_generator.arguments import arg_parser

    return [(a.dest, _type_name(a.type)) for a in arg_parser._actions]  # noqa: SLF001


def path_fields() -> list[tuple[str, str]]:
    """(Config field, `path` | `file`) for every field whose annotation mentions a Path type or an opened text file"""
    import typing
    from io import TextIOBase

    from datamodel_code_generator.__main__ import Config

    def leaves(t):
        args = typing.get_args(t)
        if not args:
            yield t
        for a in args:
            yield from leaves(a)

    out = []
    for name, f in Config.get_fields().items():
        ls = [x for x in leaves(getattr(f, "annotation", None)) if isinstance(x, type)]
        if any(issubclass(x, PurePath) for x in ls):
            out.append((name, "path"))
        elif any(issubclass(x, (TextIOBase, io.IOBase)) for x in ls):
            out.append((name, "file"))
    return out


def field_validators() -> list[tuple[str, list[str]]]:
    """(Config field, names of the `mode="before"` field validators registered for it), from pydantic's decorator table"""
    from datamodel_code_generator.__main__ import Config

    out: dict[str, list[str]] = {}
    decs = getattr(Config, "__pydantic_decorators__", None)
    if decs is not None:
        for name, d in decs.field_validators.items():
            if getattr(d.info, "mode", "") != "before":
                continue
            for f in d.info.fields:
                out.setdefault(f, []).append(name)
    return sorted((f, sorted(v)) for f, v in out.items())


def validator_branches() -> list[tuple[str, list[tuple[str, str]]]]:
    """for the validators of the path/file fields: every `return` in source order as (condition text of the enclosing
    `if`, or `else` for the final one; text of the returned expression)"""
    wanted = sorted({v for f, vs in field_validators() if f in dict(path_fields()) for v in vs})
    tree = ast.parse((SRC / "__main__.py").read_text())
    out = []
    for name in wanted:
        fn = _func(tree, name)
        rows: list[tuple[str, str]] = []
        if fn is not None:
            def walk(stmts, cond):
                for s in stmts:
                    if isinstance(s, ast.Return):
                        rows.append((cond, ast.unparse(s.value) if s.value else "None"))
                    elif isinstance(s, ast.If):
                        walk(s.body, ast.unparse(s.test) if cond == "else" else cond + " and " + ast.unparse(s.test))
                        walk(s.orelse, cond)
                    elif isinstance(s, (ast.Expr, ast.Pass)) and not (isinstance(s, ast.Expr) and not isinstance(s.value, ast.Constant)):
                        continue
                    else:
                        rows.append((cond, "<statement> " + ast.unparse(s)[:80]))
            walk(fn.body, "else")
        out.append((name, rows))
    return out


# ------------------------------------------------------------------ rendering
def _pairs(ps: list[tuple[str, str]]) -> str:
    if not ps:
        return "[]"
    return "[" + ",\n   ".join(f"({k(a)}, {k(b)})" for a, b in ps) + "]"


def _strs(xs: list[str]) -> str:
    return "[" + ", ".join(k(x) for x in xs) + "]"


def _attr_form(ps: list[tuple[str, str]]) -> str:
    """(keyword, base, attribute) for every expression of the form `<name>.<attribute>`"""
    rows = []
    for kw, e in ps:
        try:
            node = ast.parse(e, mode="eval").body
        except SyntaxError:
            continue
        if isinstance(node, ast.Attribute) and isinstance(node.value, ast.Name):
            rows.append(f"({k(kw)}, {k(node.value.id)}, {k(node.attr)})")
    return "[" + ",\n   ".join(rows) + "]"


def generate() -> str:
    out = ["import Dcg.Model.Key", "namespace Dcg.Gen.CliTables", "", "/-! names and canonical values are `k!` keys (Dcg/Model/Key.lean) -/", ""]
    out.append(
        "structure Action where\n  dest : Nat\n  kind : Nat\n  defaultIsNone : Bool\n  default : Nat\n"
        "  choices : List Nat\n  nargs : Nat\n  flags : List Nat\n  deriving Repr, DecidableEq\n"
    )
    rows = []
    for a in actions():
        rows.append(
            "{ dest := %s, kind := %s, defaultIsNone := %s, default := %s, choices := %s, nargs := %s, flags := %s }"
            % (
                k(a["dest"]),
                k(a["kind"]),
                "true" if a["default_is_none"] else "false",
                k(a["default"]),
                _strs(a["choices"]),
                k(a["nargs"]),
                _strs(a["flags"]),
            )
        )
    out.append("/-- `arg_parser._actions` at import time -/\ndef actions : List Action :=\n  [" + ",\n   ".join(rows) + "]\n")
    out.append(
        "/-- keyword arguments the module-level `namespace = Namespace(...)` is created with -/\n"
        f"def namespaceInit : List (Nat × Nat) :=\n  {_pairs(namespace_init())}\n"
    )
    out.append(f"/-- `Config` fields with canonical default -/\ndef configFields : List (Nat × Nat) :=\n  {_pairs(config_fields())}\n")
    out.append(
        f"/-- parameters of `generate()` with canonical default -/\ndef generateParams : List (Nat × Nat) :=\n  {_pairs(generate_params())}\n"
    )
    pp = parser_params()
    rows = [f"({k(lbl)},\n   {_pairs(ps)})" for lbl, ps in pp]
    out.append(
        "/-- `__init__` parameters (with canonical default) of the base parser and its three subclasses -/\n"
        "def parserParams : List (Nat × List (Nat × Nat)) :=\n  [" + ",\n   ".join(rows) + "]\n"
    )
    kws, pos, n = main_generate_call()
    out.append(
        "/-- keyword → expression text of the single `generate(...)` call in `main()` -/\n"
        f"def mainGenerateCall : List (Nat × Nat) :=\n  {_pairs(kws)}\n"
        "/-- the same call, for expressions of the form `<name>.<attribute>`: (keyword, name, attribute) -/\n"
        f"def mainGenerateCallAttr : List (Nat × Nat × Nat) :=\n  {_attr_form(kws)}\n"
        f"def mainGenerateCallPositional : Bool := {'true' if pos else 'false'}\n"
        f"def mainGenerateCallCount : Nat := {n}\n"
    )
    kws, pos, n, extra = parser_call()
    out.append(
        "/-- keyword → expression text of the `parser_class(...)` call in `generate()` (`**` = star-star argument) -/\n"
        f"def parserCall : List (Nat × Nat) :=\n  {_pairs(kws)}\n"
        f"def parserCallPositional : Bool := {'true' if pos else 'false'}\n"
        f"def parserCallCount : Nat := {n}\n"
        "/-- `kwargs[\"k\"] = e` assignments in `generate()` feeding the `**kwargs` of that call -/\n"
        f"def parserCallKwargs : List (Nat × Nat) :=\n  {_pairs(extra)}\n"
    )
    rows = [f"({k(lbl)},\n   {_pairs(ps)})" for lbl, ps in super_init_calls()]
    out.append(
        "/-- keyword → expression text of `super().__init__(...)` in each parser subclass -/\n"
        "def superInitCalls : List (Nat × List (Nat × Nat)) :=\n  [" + ",\n   ".join(rows) + "]\n"
    )
    rets = main_returns()
    rows = [f"({k(e)}, {'true' if p else 'false'})" for e, p, _ in rets]
    out.append(
        "/-- every `return` / `sys.exit` statement of `main()` in source order: (expression, a\n"
        "`print(..., file=sys.stderr)` precedes it in the same block) -/\n"
        "def mainReturns : List (Nat × Bool) :=\n  [" + ",\n   ".join(rows) + "]\n"
    )
    out.append(
        "/-- the `if` clause(s) of the comprehension building `set_args` in `Config.merge_args` (source text) -/\n"
        f"def mergeArgsFilters : List Nat := {_strs(merge_args_filters())}\n"
    )
    out.append(
        "/-- target versions on which `PythonVersion.has_kw_only_dataclass` holds (used by a Config validator) -/\n"
        f"def kwOnlyTargets : List Nat := {_strs(kw_only_targets())}\n"
    )
    out.append(
        "/-- (dest, name of the argparse `type=` conversion) of every action -/\n"
        f"def actionTypes : List (Nat × Nat) :=\n  {_pairs(action_types())}\n"
    )
    out.append(
        "/-- `Config` fields whose annotation is a Path (`path`) or an opened text file (`file`) -/\n"
        f"def pathFields : List (Nat × Nat) :=\n  {_pairs(path_fields())}\n"
    )
    rows = [f"({k(f)}, {_strs(vs)})" for f, vs in field_validators()]
    out.append(
        "/-- `mode=\"before\"` field validators of `Config` per field -/\n"
        "def fieldValidators : List (Nat × List Nat) :=\n  [" + ",\n   ".join(rows) + "]\n"
    )
    rows = [f"({k(n)},\n   {_pairs(bs)})" for n, bs in validator_branches()]
    out.append(
        "/-- the validators of the path / file fields: every `return` as (condition, returned expression), source text -/\n"
        "def validatorBranches : List (Nat × List (Nat × Nat)) :=\n  [" + ",\n   ".join(rows) + "]\n"
    )
    out.append("end Dcg.Gen.CliTables")
    return "\n".join(out) + "\n"
