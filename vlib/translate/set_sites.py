"""Translator: where iteration order, memoisation or class-level state could leak into the output
→ Dcg/Gen/SetSites.lean (tables `setSites`, `cacheSites`, `classMutables`).

Pure `ast` over every module of src/datamodel_code_generator. The analysis is deliberately conservative
(a name is "a set" as soon as anything says so):

(a) setSites: every `for` / comprehension / `join` / `list()` / `tuple()` / `enumerate()` / `iter()` / `next()` / star-unpacking /
    `.pop()` over an expression that is built or annotated as a set/frozenset (set literals and comprehensions, `set(...)`,
    `|&-^` and `.union/.difference/...` of sets, names and attributes annotated `set[...]`/`Set[...]`, functions and properties
    declared `-> set[...]`, elements of dict-of-sets such as `Imports`, `defaultdict(set)`), with: file, function, source text of
    the iterated expression, kind of site, the call that directly consumes a comprehension (`any`, `all`, `set`, `sorted`, …)
    and whether the iterated expression is directly wrapped in `sorted(`.
(b) cacheSites: every function under `lru_cache` / `cache` / `cached_property` with its parameters, the free names it reads
    (classified by what binds them at module level: import, def, class, constant, mutable, unknown) and the attributes it reads
    through its first parameter.
(c) classMutables: dict/list/set displays or constructor calls assigned in a class body.
(b') per memoised function also: the source text of its return annotation and how often its name is loaded anywhere in the
    package — a process-wide cache hands the SAME object to every caller, so a result that is not immutable (dict, list, `Any`, an
    object) must be reviewed (Model/Determinism.reviewedCacheReturns).
(e) listingSites: every call of a directory-listing primitive (`rglob`, `glob`, `iglob`, `iterdir`, `os.walk`, `os.fwalk`,
    `os.listdir`, `os.scandir`) with whether it is the first argument of `sorted(`, with which `key=` (source text) and the
    SHAPE of that key: `natural` (no key: the total order of the entries themselves), `basename-then-path` (exactly
    `lambda v: (v.name, v.as_posix())` for any parameter name v — the tuple's second component is the entry itself, so the key is
    injective), `other` (anything else, including `lambda p: p.name` of the code before the repair of C08-basename, a key with
    defaults / several parameters, a named function). Only the first two shapes are accepted by Props/C08.listingOK.
(f) cwdSites: every place the source consults (or changes) the PROCESS'S WORKING DIRECTORY: `Path.cwd()`, `os.getcwd()`,
    `os.getcwdb()`, `os.chdir()`, `os.path.abspath/realpath`, `<path>.absolute()`, `<path>.resolve()` (a relative path is completed
    with the working directory), and every child process started without `cwd=` (`subprocess.run/Popen/call/check_call/
    check_output`, `os.system`, `os.popen`: the child inherits the directory and discovers its configuration from it) — with
    file, function and the source text of the called expression. Each must be on the reviewed list of Model/Determinism
    (inside `with chdir(output)`, input location, saved-and-restored, CLI layer): Props/C08.cwd_reads_reviewed.
(d) memoClasses / memoValueWrites: the package classes whose INSTANCES are shared process-wide — returned by a memoised function
    (`Import.from_full_path -> Import`) or bound to a module-level name (`IMPORT_DATE = Import.from_full_path(...)`) — with their
    declared fields, and every statement that stores to (or deletes) an attribute with one of those field names, or calls
    `setattr` (file, function, target text, attribute). An in-place write to such an object would make a cached value differ
    from what the memoised function returns: the premise `Sound` of `cache_transparent`.
"""
from __future__ import annotations

import ast
import builtins
from dataclasses import dataclass, field
from pathlib import Path

from ..common import REPO
from ..keyenc import k

GEN_NAME = "SetSites"
SRC = REPO / "src" / "datamodel_code_generator"

SET_ANN_HEADS = {"set", "Set", "frozenset", "FrozenSet", "AbstractSet", "MutableSet"}
DICT_HEADS = {"dict", "Dict", "defaultdict", "DefaultDict", "Mapping", "MutableMapping", "OrderedDict", "ChainMap"}
SET_METHODS = {"union", "intersection", "difference", "symmetric_difference", "copy"}
KNOWN_SET_ATTRS = {"reference_classes", "unresolved_types"}  # named in the property's anchors; also found by annotation
ORDER_FREE_CALLS = {"sorted", "set", "frozenset", "any", "all", "len", "min", "max", "sum"}
ITER_CALLS = {"list", "tuple", "enumerate", "iter", "next", "zip", "map", "filter", "reversed", "dict", "chain", "islice", "starmap", "OrderedDict", "deque"}
MEMO_DECORATORS = {"lru_cache", "cache", "cached_property"}


DOS_CLASSES: set[str] = set()  # classes that ARE dicts of sets (`class Imports(defaultdict[..., set[str]])`), filled in pass 0


def _ann_kind(ann: ast.AST | None) -> str:
    """'set' | 'dictofsets' | 'ddos' (dict of dict-of-sets) | '' from an annotation expression (string annotations are parsed)"""
    if ann is None:
        return ""
    if isinstance(ann, (ast.Name, ast.Attribute)) and (ann.attr if isinstance(ann, ast.Attribute) else ann.id) in DOS_CLASSES:
        return "dictofsets"
    if isinstance(ann, ast.Constant) and isinstance(ann.value, str):
        try:
            ann = ast.parse(ann.value, mode="eval").body
        except SyntaxError:
            return ""
    if isinstance(ann, ast.BinOp) and isinstance(ann.op, ast.BitOr):  # X | None
        return _ann_kind(ann.left) or _ann_kind(ann.right)
    head, args = ann, []
    if isinstance(ann, ast.Subscript):
        head = ann.value
        sl = ann.slice
        args = list(sl.elts) if isinstance(sl, ast.Tuple) else [sl]
    name = head.attr if isinstance(head, ast.Attribute) else head.id if isinstance(head, ast.Name) else ""
    if name in SET_ANN_HEADS:
        return "set"
    if name in ("Optional", "ClassVar", "Final", "Annotated") and args:
        return _ann_kind(args[0])
    if name == "Union":
        for a in args:
            kd = _ann_kind(a)
            if kd:
                return kd
    if name in DICT_HEADS and len(args) == 2 and _ann_kind(args[1]) == "set":
        return "dictofsets"
    if name in DICT_HEADS and len(args) == 2 and _ann_kind(args[1]) == "dictofsets":
        return "ddos"
    return ""


@dataclass
class Site:
    file: str
    func: str
    expr: str
    kind: str  # for | comp:list | comp:set | comp:dict | comp:gen | call:<name> | star | method:pop
    consumer: str  # call that directly takes the comprehension / "" ; for `for` loops ""
    is_sorted: bool
    line: int


@dataclass
class CacheSite:
    file: str
    func: str
    decorator: str
    params: list[str]
    free: list[tuple[str, str]]  # (name, class)
    self_attrs: list[str]
    line: int
    returns: str = ""   # source text of the return annotation ("" when there is none)
    callers: int = 0    # loads of the function's name anywhere in the package (outside its own definition line)


@dataclass
class ListingSite:
    file: str
    func: str
    call: str       # source text of the called expression: `self.source.rglob`, `os.walk`, …
    is_sorted: bool  # the call is the first argument of `sorted(`
    key: str        # source text of that sorted()'s key= argument ("" = the natural, total order of the entries)
    line: int
    key_shape: str = "natural"   # natural | basename-then-path | other  (see key_shape())


@dataclass
class ClassMutable:
    file: str
    cls: str
    attr: str
    kind: str
    line: int


@dataclass
class Facts:
    """package-wide, name-based facts gathered in a first pass"""
    set_attrs: set[str] = field(default_factory=lambda: set(KNOWN_SET_ATTRS))
    dictofsets_attrs: set[str] = field(default_factory=set)
    ddos_attrs: set[str] = field(default_factory=set)
    set_funcs: set[str] = field(default_factory=set)  # functions / properties returning a set
    dictofsets_classes: set[str] = field(default_factory=set)


def _files() -> list[Path]:
    return sorted(p for p in SRC.rglob("*.py"))


def _collect_facts(trees: dict[str, ast.AST]) -> Facts:
    f = Facts()
    DOS_CLASSES.clear()
    for tree in trees.values():
        for n in ast.walk(tree):
            if isinstance(n, ast.ClassDef):
                for b in n.bases:
                    if _ann_kind(b) == "dictofsets":
                        f.dictofsets_classes.add(n.name)
                        DOS_CLASSES.add(n.name)
    for tree in trees.values():
        for n in ast.walk(tree):
            if isinstance(n, (ast.FunctionDef, ast.AsyncFunctionDef)):
                kd = _ann_kind(n.returns)
                if kd == "set":
                    f.set_funcs.add(n.name)
                    if any(ast.unparse(d).split(".")[-1] in ("property", "cached_property") for d in n.decorator_list):
                        f.set_attrs.add(n.name)
            if isinstance(n, ast.AnnAssign):
                kd = _ann_kind(n.annotation)
                t = n.target
                name = t.attr if isinstance(t, ast.Attribute) else t.id if isinstance(t, ast.Name) else None
                if name and isinstance(t, ast.Attribute) or (name and _in_class_body(tree, n)):
                    if kd == "set":
                        f.set_attrs.add(name)
                    elif kd == "dictofsets":
                        f.dictofsets_attrs.add(name)
                    elif kd == "ddos":
                        f.ddos_attrs.add(name)
            if isinstance(n, ast.Assign) and len(n.targets) == 1 and isinstance(n.targets[0], ast.Attribute):
                if _literal_set(n.value):
                    f.set_attrs.add(n.targets[0].attr)
                elif _literal_dictofsets(n.value, f):
                    f.dictofsets_attrs.add(n.targets[0].attr)
    return f


def _in_class_body(tree: ast.AST, node: ast.AST) -> bool:
    for c in ast.walk(tree):
        if isinstance(c, ast.ClassDef) and node in c.body:
            return True
    return False


def _literal_set(e: ast.AST) -> bool:
    if isinstance(e, (ast.Set, ast.SetComp)):
        return True
    return isinstance(e, ast.Call) and isinstance(e.func, ast.Name) and e.func.id in ("set", "frozenset")


def _literal_dictofsets(e: ast.AST, f: Facts) -> bool:
    if isinstance(e, ast.Call):
        fn = ast.unparse(e.func).split(".")[-1]
        if fn == "defaultdict" and e.args and ast.unparse(e.args[0]) in ("set", "frozenset"):
            return True
        if fn in f.dictofsets_classes:
            return True
    return False


class Analyzer(ast.NodeVisitor):
    def __init__(self, file: str, facts: Facts) -> None:
        self.file = file
        self.facts = facts
        self.scope: list[str] = []
        self.env: list[dict[str, str]] = [{}]  # name -> 'set' | 'dictofsets'
        self.cls: list[str] = []
        self.sites: list[Site] = []
        self.parent: dict[int, ast.AST] = {}

    # ---- typing of expressions
    def kind(self, e: ast.AST) -> str:
        if _literal_set(e):
            return "set"
        if _literal_dictofsets(e, self.facts):
            return "dictofsets"
        if isinstance(e, ast.Name):
            for env in reversed(self.env):
                if e.id in env:
                    return env[e.id]
            if e.id == "self" and self.cls and self.cls[-1] in self.facts.dictofsets_classes:
                return "dictofsets"
            return ""
        if isinstance(e, ast.Attribute):
            if e.attr in self.facts.set_attrs:
                return "set"
            if e.attr in self.facts.dictofsets_attrs:
                return "dictofsets"
            if e.attr in self.facts.ddos_attrs:
                return "ddos"
            return ""
        if isinstance(e, ast.BinOp) and isinstance(e.op, (ast.BitOr, ast.BitAnd, ast.Sub, ast.BitXor)):
            if self.kind(e.left) == "set" or self.kind(e.right) == "set":
                return "set"
            return ""
        if isinstance(e, ast.Call):
            fn = e.func
            if isinstance(fn, ast.Attribute):
                if fn.attr in SET_METHODS and self.kind(fn.value) == "set":
                    return "set"
                if fn.attr in ("get", "pop", "setdefault") and self.kind(fn.value) == "dictofsets":
                    return "set"
                if fn.attr in ("get", "pop", "setdefault") and self.kind(fn.value) == "ddos":
                    return "dictofsets"
                if fn.attr in self.facts.set_funcs:
                    return "set"
            if isinstance(fn, ast.Name) and fn.id in self.facts.set_funcs:
                return "set"
            return ""
        if isinstance(e, ast.Subscript) and self.kind(e.value) == "dictofsets":
            return "set"
        if isinstance(e, ast.Subscript) and self.kind(e.value) == "ddos":
            return "dictofsets"
        if isinstance(e, ast.IfExp):
            return self.kind(e.body) or self.kind(e.orelse)
        if isinstance(e, ast.BoolOp):
            for v in e.values:
                kd = self.kind(v)
                if kd:
                    return kd
        if isinstance(e, ast.NamedExpr):
            return self.kind(e.value)
        return ""

    def elem_kind(self, it: ast.AST) -> tuple[str, str]:
        """kinds bound by iterating `it` as (single target kind, second-of-pair kind)"""
        if isinstance(it, ast.Call) and isinstance(it.func, ast.Attribute):
            inner = {"dictofsets": "set", "ddos": "dictofsets"}.get(self.kind(it.func.value), "")
            if inner and it.func.attr == "values":
                return inner, ""
            if inner and it.func.attr == "items":
                return "", inner
        return "", ""

    # ---- scopes
    def func_name(self) -> str:
        return ".".join(self.scope) or "<module>"

    def visit_ClassDef(self, n: ast.ClassDef) -> None:
        self.scope.append(n.name)
        self.cls.append(n.name)
        self.env.append({})
        for st in n.body:
            self.visit(st)
        self.env.pop()
        self.cls.pop()
        self.scope.pop()

    def visit_FunctionDef(self, n) -> None:
        for d in n.decorator_list:
            self.visit(d)
        self.scope.append(n.name)
        env: dict[str, str] = {}
        for a in [*n.args.posonlyargs, *n.args.args, *n.args.kwonlyargs, n.args.vararg, n.args.kwarg]:
            if a is not None:
                kd = _ann_kind(a.annotation)
                if kd:
                    env[a.arg] = kd
        self.env.append(env)
        # assignments anywhere in the body give the local its kind (flow-insensitive, conservative)
        for st in ast.walk(n):
            if isinstance(st, ast.Assign):
                kd = self.kind(st.value)
                for t in st.targets:
                    if kd and isinstance(t, ast.Name):
                        env[t.id] = kd
            if isinstance(st, ast.AnnAssign) and isinstance(st.target, ast.Name):
                kd = _ann_kind(st.annotation) or (self.kind(st.value) if st.value else "")
                if kd:
                    env[st.target.id] = kd
            if isinstance(st, (ast.For, ast.comprehension)) and isinstance(st.target, ast.Tuple):
                # unpacking of records: a name that is annotated as a dict-of-sets attribute somewhere keeps that kind
                for el in st.target.elts:
                    if isinstance(el, ast.Name) and el.id in self.facts.dictofsets_attrs:
                        env[el.id] = "dictofsets"
            if isinstance(st, ast.AugAssign) and isinstance(st.target, ast.Name) and self.kind(st.value) == "set":
                env[st.target.id] = "set"
        for st in n.body:
            self.visit(st)
        self.env.pop()
        self.scope.pop()

    visit_AsyncFunctionDef = visit_FunctionDef

    # ---- sites
    def add(self, e: ast.AST, kind: str, consumer: str, node: ast.AST) -> None:
        is_sorted = False
        inner = e
        if isinstance(e, ast.Call) and isinstance(e.func, ast.Name) and e.func.id == "sorted" and e.args:
            inner = e.args[0]
            is_sorted = True
        if self.kind(inner) != "set":
            return
        self.sites.append(Site(self.file, self.func_name(), ast.unparse(inner), kind, consumer, is_sorted, getattr(node, "lineno", 0)))

    def bind_targets(self, target: ast.AST, it: ast.AST) -> None:
        single, second = self.elem_kind(it)
        if single and isinstance(target, ast.Name):
            self.env[-1][target.id] = single
        if second and isinstance(target, ast.Tuple) and len(target.elts) == 2 and isinstance(target.elts[1], ast.Name):
            self.env[-1][target.elts[1].id] = second

    def visit_For(self, n: ast.For) -> None:
        self.add(n.iter, "for", "", n)
        self.bind_targets(n.target, n.iter)
        self.generic_visit(n)

    def _comp(self, n, kind: str) -> None:
        consumer = ""
        p = self.parent.get(id(n))
        if isinstance(p, ast.Call) and len(p.args) >= 1 and p.args[0] is n:
            consumer = ast.unparse(p.func).split(".")[-1]
            if isinstance(p.func, ast.Attribute) and p.func.attr == "join":
                consumer = "join"
        self.env.append({})
        for g in n.generators:
            self.add(g.iter, "comp:" + kind, consumer, n)
            self.bind_targets(g.target, g.iter)
        self.generic_visit(n)
        self.env.pop()

    def visit_ListComp(self, n) -> None:
        self._comp(n, "list")

    def visit_SetComp(self, n) -> None:
        self._comp(n, "set")

    def visit_DictComp(self, n) -> None:
        self._comp(n, "dict")

    def visit_GeneratorExp(self, n) -> None:
        self._comp(n, "gen")

    def visit_Call(self, n: ast.Call) -> None:
        fn = n.func
        name = fn.attr if isinstance(fn, ast.Attribute) else fn.id if isinstance(fn, ast.Name) else ""
        if isinstance(fn, ast.Attribute) and fn.attr == "join" and n.args:
            self.add(n.args[0], "call:join", "", n)
        elif isinstance(fn, ast.Attribute) and fn.attr == "pop" and not n.args and self.kind(fn.value) == "set":
            self.sites.append(Site(self.file, self.func_name(), ast.unparse(fn.value), "method:pop", "", False, n.lineno))
        elif isinstance(fn, ast.Attribute) and fn.attr in ("extend", "update", "fromkeys") and n.args and self.kind(fn.value) != "set":
            self.add(n.args[0], "call:" + fn.attr, "", n)
        elif name in ITER_CALLS:
            for a in n.args:
                self.add(a, "call:" + name, "", n)
        elif name == "sorted" and n.args:
            self.add(n, "call:sorted", "", n)
        for a in n.args:
            if isinstance(a, ast.Starred):
                self.add(a.value, "star", name, n)
        self.generic_visit(n)

    def visit_Starred(self, n: ast.Starred) -> None:
        p = self.parent.get(id(n))
        if isinstance(p, (ast.List, ast.Tuple)):
            self.add(n.value, "star", "display", n)
        self.generic_visit(n)

    def visit_FormattedValue(self, n: ast.FormattedValue) -> None:
        if self.kind(n.value) == "set":
            self.sites.append(Site(self.file, self.func_name(), ast.unparse(n.value), "format", "", False, getattr(n, "lineno", 0)))
        self.generic_visit(n)

    def run(self, tree: ast.AST) -> None:
        for p in ast.walk(tree):
            for c in ast.iter_child_nodes(p):
                self.parent[id(c)] = p
        # module-level names
        for st in tree.body:
            if isinstance(st, ast.Assign) and len(st.targets) == 1 and isinstance(st.targets[0], ast.Name):
                kd = self.kind(st.value)
                if kd:
                    self.env[0][st.targets[0].id] = kd
            if isinstance(st, ast.AnnAssign) and isinstance(st.target, ast.Name):
                kd = _ann_kind(st.annotation) or (self.kind(st.value) if st.value else "")
                if kd:
                    self.env[0][st.target.id] = kd
        self.visit(tree)


# ---------------------------------------------------------------- (b) memoised functions
IMMUTABLE_CALLS = {"frozenset", "tuple", "compile", "str", "int", "float", "bool", "bytes", "maketrans", "TypeVar", "getLogger", "Path", "from_full_path", "getpreferredencoding"}
MUTABLE_CALLS = {"dict", "list", "set", "defaultdict", "OrderedDict", "deque", "Counter", "Namespace", "ArgumentParser", "DefaultPutDict"}


def _module_bindings(tree: ast.Module) -> dict[str, str]:
    """module-level name → import | def | class | constant | mutable | unknown"""
    out: dict[str, str] = {}

    def value_class(v: ast.AST | None) -> str:
        if v is None:
            return "unknown"
        if isinstance(v, ast.Constant) or (isinstance(v, ast.Tuple) and all(value_class(e) == "constant" for e in v.elts)):
            return "constant"
        if isinstance(v, ast.JoinedStr):
            return "constant"
        if isinstance(v, (ast.Dict, ast.List, ast.Set, ast.ListComp, ast.DictComp, ast.SetComp)):
            return "mutable"
        if isinstance(v, ast.Call):
            fn = ast.unparse(v.func).split(".")[-1]
            if fn in MUTABLE_CALLS:
                return "mutable"
            if fn in IMMUTABLE_CALLS:
                return "constant"
            return "unknown"
        if isinstance(v, ast.Name):
            return out.get(v.id, "unknown")
        if isinstance(v, (ast.BinOp, ast.UnaryOp, ast.Compare, ast.BoolOp)):
            return "constant"
        if isinstance(v, ast.Lambda):
            return "def"
        if isinstance(v, ast.Attribute):
            return "constant"
        if isinstance(v, ast.IfExp):
            a, b = value_class(v.body), value_class(v.orelse)
            return a if a == b else "unknown"
        return "unknown"

    def scan(stmts) -> None:
        for st in stmts:
            if isinstance(st, (ast.Import, ast.ImportFrom)):
                for a in st.names:
                    out[(a.asname or a.name).split(".")[0]] = "import"
            elif isinstance(st, (ast.FunctionDef, ast.AsyncFunctionDef)):
                out[st.name] = "def"
            elif isinstance(st, ast.ClassDef):
                out[st.name] = "class"
            elif isinstance(st, ast.Assign):
                for t in st.targets:
                    for nm in ast.walk(t):
                        if isinstance(nm, ast.Name):
                            out[nm.id] = value_class(st.value) if isinstance(t, ast.Name) else "unknown"
            elif isinstance(st, ast.AnnAssign) and isinstance(st.target, ast.Name):
                out[st.target.id] = value_class(st.value)
            elif isinstance(st, (ast.If, ast.Try, ast.With)):
                scan(getattr(st, "body", []))
                scan(getattr(st, "orelse", []))
                for h in getattr(st, "handlers", []):
                    scan(h.body)
                scan(getattr(st, "finalbody", []))

    scan(tree.body)
    return out


def _free_names(fn: ast.FunctionDef) -> tuple[list[str], list[str], list[str]]:
    params = [a.arg for a in [*fn.args.posonlyargs, *fn.args.args, *fn.args.kwonlyargs] + [x for x in (fn.args.vararg, fn.args.kwarg) if x]]
    local: set[str] = set(params)
    for n in ast.walk(fn):
        if isinstance(n, ast.Name) and isinstance(n.ctx, (ast.Store, ast.Del)):
            local.add(n.id)
        if isinstance(n, (ast.FunctionDef, ast.AsyncFunctionDef, ast.ClassDef)) and n is not fn:
            local.add(n.name)
        if isinstance(n, ast.arg):
            local.add(n.arg)
        if isinstance(n, (ast.Import, ast.ImportFrom)):
            for a in n.names:
                local.add((a.asname or a.name).split(".")[0])
        if isinstance(n, ast.ExceptHandler) and n.name:
            local.add(n.name)
    free: set[str] = set()
    attrs: set[str] = set()
    body_nodes = [x for st in fn.body for x in ast.walk(st)]
    for n in body_nodes:
        if isinstance(n, ast.Name) and isinstance(n.ctx, ast.Load) and n.id not in local and not hasattr(builtins, n.id):
            free.add(n.id)
        if isinstance(n, ast.Attribute) and isinstance(n.value, ast.Name) and params and n.value.id == params[0] and params[0] in ("self", "cls"):
            attrs.add(n.attr)
    return params, sorted(free), sorted(attrs)


def _memo_decorator(fn) -> str:
    for d in fn.decorator_list:
        target = d.func if isinstance(d, ast.Call) else d
        name = ast.unparse(target).split(".")[-1]
        if name in MEMO_DECORATORS:
            return name
    return ""


def _annotation_text(ann: ast.AST | None) -> str:
    if ann is None:
        return ""
    if isinstance(ann, ast.Constant) and isinstance(ann.value, str):
        return ann.value.strip()
    return ast.unparse(ann)


def _loads_of(trees: dict[str, ast.AST], name: str) -> int:
    n = 0
    for tree in trees.values():
        for x in ast.walk(tree):
            if isinstance(x, ast.Name) and x.id == name and isinstance(x.ctx, ast.Load):
                n += 1
            elif isinstance(x, ast.Attribute) and x.attr == name and isinstance(x.ctx, ast.Load):
                n += 1
            elif isinstance(x, ast.alias) and x.name == name:
                n += 1
            elif isinstance(x, ast.Constant) and x.value == name:   # getattr(obj, "name") and the like
                n += 1
    return n


LISTING_CALLS = {"rglob", "glob", "iglob", "iterdir", "walk", "fwalk", "listdir", "scandir"}


def key_shape(key: ast.AST | None) -> str:
    """`natural` for no key, `basename-then-path` for exactly `lambda v: (v.name, v.as_posix())` (one positional parameter, no
    defaults, a 2-tuple of `v.name` and the argument-less call `v.as_posix()`), `other` for every other expression"""
    if key is None:
        return "natural"
    if not isinstance(key, ast.Lambda):
        return "other"
    a = key.args
    if a.posonlyargs or a.kwonlyargs or a.vararg or a.kwarg or a.defaults or a.kw_defaults or len(a.args) != 1:
        return "other"
    v = a.args[0].arg
    body = key.body
    if not (isinstance(body, ast.Tuple) and len(body.elts) == 2):
        return "other"
    first, second = body.elts

    def is_v(x: ast.AST) -> bool:
        return isinstance(x, ast.Name) and x.id == v

    if not (isinstance(first, ast.Attribute) and first.attr == "name" and is_v(first.value)):
        return "other"
    if not (isinstance(second, ast.Call) and not second.args and not second.keywords and isinstance(second.func, ast.Attribute)
            and second.func.attr == "as_posix" and is_v(second.func.value)):
        return "other"
    return "basename-then-path"


def listing_sites() -> list[ListingSite]:
    out: list[ListingSite] = []
    for p in _files():
        file = str(p.relative_to(SRC))
        tree = ast.parse(p.read_text())
        parent: dict[int, ast.AST] = {}
        for q in ast.walk(tree):
            for c in ast.iter_child_nodes(q):
                parent[id(c)] = q

        def visit(node, scope):
            for ch in ast.iter_child_nodes(node):
                sc = [*scope, ch.name] if isinstance(ch, (ast.FunctionDef, ast.AsyncFunctionDef, ast.ClassDef)) else scope
                if isinstance(ch, ast.Call):
                    fn = ch.func
                    name = fn.attr if isinstance(fn, ast.Attribute) else fn.id if isinstance(fn, ast.Name) else ""
                    if name in LISTING_CALLS:
                        par = parent.get(id(ch))
                        is_sorted = isinstance(par, ast.Call) and isinstance(par.func, ast.Name) and par.func.id == "sorted" and bool(par.args) and par.args[0] is ch
                        key, shape = "", "natural"
                        if is_sorted:
                            if len(par.args) > 1:   # sorted() takes one positional argument; anything else is not the call we know
                                shape = "other"
                            for kw in par.keywords:
                                if kw.arg == "key":
                                    key = ast.unparse(kw.value)
                                    shape = key_shape(kw.value) if shape != "other" else shape
                                elif kw.arg == "reverse":   # the reversed order of a total order is as determined as the order
                                    pass
                                else:                       # `**kwargs` and the like
                                    shape = "other"
                        else:
                            shape = "other"   # not sorted at all: there is no key to speak of
                        out.append(ListingSite(file, ".".join(scope) or "<module>", ast.unparse(fn), is_sorted, key, ch.lineno, shape))
                visit(ch, sc)

        visit(tree, [])
    out.sort(key=lambda s: (s.file, s.line, s.call))
    return out


CWD_CALLS = {"cwd", "getcwd", "getcwdb", "chdir", "fchdir", "abspath", "realpath", "absolute", "resolve"}
CHILD_CALLS = {"run", "Popen", "call", "check_call", "check_output", "system", "popen", "getoutput", "getstatusoutput"}
CHILD_OWNERS = {"subprocess", "os"}


def cwd_sites() -> list[tuple[str, str, str]]:
    """(file, function, called expression) of every call that reads or sets the process's working directory, or starts a
    child process that inherits it (no `cwd=` keyword); source order, duplicates kept once per (file, function, call)"""
    out: list[tuple[str, str, str, int]] = []
    for p in _files():
        file = str(p.relative_to(SRC))
        tree = ast.parse(p.read_text())

        def visit(node, scope):
            for ch in ast.iter_child_nodes(node):
                sc = [*scope, ch.name] if isinstance(ch, (ast.FunctionDef, ast.AsyncFunctionDef, ast.ClassDef)) else scope
                if isinstance(ch, ast.Call):
                    fn = ch.func
                    name = fn.attr if isinstance(fn, ast.Attribute) else fn.id if isinstance(fn, ast.Name) else ""
                    owner = fn.value.id if isinstance(fn, ast.Attribute) and isinstance(fn.value, ast.Name) else ""
                    hit = False
                    if name in CWD_CALLS and (isinstance(fn, ast.Attribute) or name in ("getcwd", "getcwdb", "chdir", "abspath", "realpath")):
                        hit = not (isinstance(fn, ast.Name) and name == "chdir")   # the package's own context manager `chdir(...)`
                    elif name in CHILD_CALLS and (owner in CHILD_OWNERS or isinstance(fn, ast.Name) and name in ("Popen", "check_output", "check_call")):
                        hit = not any(kw.arg == "cwd" for kw in ch.keywords)
                    if hit:
                        out.append((file, ".".join(scope) or "<module>", ast.unparse(fn), ch.lineno))
                visit(ch, sc)

        visit(tree, [])
    out.sort(key=lambda s: (s[0], s[3], s[2]))
    seen, res = set(), []
    for f, fn, c, _ in out:
        if (f, fn, c) not in seen:
            seen.add((f, fn, c))
            res.append((f, fn, c))
    return res


def analyse() -> tuple[list[Site], list[CacheSite], list[ClassMutable]]:
    trees = {str(p.relative_to(SRC)): ast.parse(p.read_text()) for p in _files()}
    facts = _collect_facts(trees)
    sites: list[Site] = []
    caches: list[CacheSite] = []
    muts: list[ClassMutable] = []
    for file, tree in trees.items():
        a = Analyzer(file, facts)
        a.run(tree)
        sites += a.sites
        bindings = _module_bindings(tree)

        def walk(node, scope):
            for ch in ast.iter_child_nodes(node):
                if isinstance(ch, (ast.FunctionDef, ast.AsyncFunctionDef)):
                    deco = _memo_decorator(ch)
                    if deco:
                        params, free, attrs = _free_names(ch)
                        caches.append(CacheSite(file, ".".join([*scope, ch.name]), deco, params, [(n, bindings.get(n, "unknown")) for n in free], attrs, ch.lineno,
                                                returns=_annotation_text(ch.returns), callers=_loads_of(trees, ch.name)))
                    walk(ch, [*scope, ch.name])
                elif isinstance(ch, ast.ClassDef):
                    for st in ch.body:
                        tgt, val = None, None
                        if isinstance(st, ast.Assign) and len(st.targets) == 1 and isinstance(st.targets[0], ast.Name):
                            tgt, val = st.targets[0].id, st.value
                        elif isinstance(st, ast.AnnAssign) and isinstance(st.target, ast.Name) and st.value is not None:
                            tgt, val = st.target.id, st.value
                        if tgt is None or tgt in ("model_config", "__slots__", "__all__"):
                            continue
                        kd = ""
                        if isinstance(val, (ast.Dict, ast.DictComp)):
                            kd = "dict"
                        elif isinstance(val, (ast.List, ast.ListComp)):
                            kd = "list"
                        elif isinstance(val, (ast.Set, ast.SetComp)):
                            kd = "set"
                        elif isinstance(val, ast.Call) and ast.unparse(val.func).split(".")[-1] in MUTABLE_CALLS:
                            kd = ast.unparse(val.func).split(".")[-1]
                        if kd:
                            muts.append(ClassMutable(file, ".".join([*scope, ch.name]), tgt, kd, st.lineno))
                    walk(ch, [*scope, ch.name])
                else:
                    walk(ch, scope)

        walk(tree, [])
    sites.sort(key=lambda s: (s.file, s.line, s.expr, s.kind))
    caches.sort(key=lambda c: (c.file, c.line))
    muts.sort(key=lambda m: (m.file, m.line))
    return sites, caches, muts


# ---------------------------------------------------------------- (d) shared instances and writes to their fields
def memo_classes(trees: dict[str, ast.AST]) -> dict[str, list[str]]:
    classes: dict[str, ast.ClassDef] = {}
    for tree in trees.values():
        for n in ast.walk(tree):
            if isinstance(n, ast.ClassDef):
                classes.setdefault(n.name, n)
    shared: set[str] = set()
    for tree in trees.values():
        for n in ast.walk(tree):
            if isinstance(n, (ast.FunctionDef, ast.AsyncFunctionDef)) and _memo_decorator(n) in ("lru_cache", "cache") and n.returns is not None:
                for x in ast.walk(n.returns if not (isinstance(n.returns, ast.Constant) and isinstance(n.returns.value, str)) else ast.parse(n.returns.value, mode="eval")):
                    if isinstance(x, ast.Name) and x.id in classes:
                        shared.add(x.id)
        for st in getattr(tree, "body", []):
            val = st.value if isinstance(st, (ast.Assign, ast.AnnAssign)) else None
            if isinstance(val, ast.Call):
                f = val.func
                head = f.id if isinstance(f, ast.Name) else f.value.id if isinstance(f, ast.Attribute) and isinstance(f.value, ast.Name) else ""
                if head in classes:
                    shared.add(head)
    out = {}
    for c in sorted(shared):
        fields = [st.target.id for st in classes[c].body if isinstance(st, ast.AnnAssign) and isinstance(st.target, ast.Name)]
        if fields:
            out[c] = fields
    return out


def memo_value_writes(trees: dict[str, ast.AST], mclasses: dict[str, list[str]]) -> list[tuple[str, str, str, str]]:
    fields = {f for fs in mclasses.values() for f in fs}
    out: set[tuple[str, str, str, str]] = set()
    for file, tree in trees.items():

        def visit(node, scope):
            for ch in ast.iter_child_nodes(node):
                sc = [*scope, ch.name] if isinstance(ch, (ast.FunctionDef, ast.AsyncFunctionDef, ast.ClassDef)) else scope
                targets = []
                if isinstance(ch, (ast.Assign, ast.Delete)):
                    targets = ch.targets
                elif isinstance(ch, (ast.AugAssign, ast.AnnAssign)):
                    targets = [ch.target]
                for t in targets:
                    for x in ast.walk(t):
                        if isinstance(x, ast.Attribute) and isinstance(x.ctx, (ast.Store, ast.Del)) and x.attr in fields:
                            out.add((file, ".".join(scope) or "<module>", ast.unparse(x), x.attr))
                if isinstance(ch, ast.Call) and isinstance(ch.func, ast.Name) and ch.func.id in ("setattr", "delattr") and ch.args:
                    name = ch.args[1].value if len(ch.args) > 1 and isinstance(ch.args[1], ast.Constant) else "<dynamic>"
                    if name == "<dynamic>" or name in fields:
                        out.add((file, ".".join(scope) or "<module>", ast.unparse(ch.args[0]), str(name)))
                visit(ch, sc)

        visit(tree, [])
    return sorted(out)


def shared_instances() -> tuple[dict[str, list[str]], list[tuple[str, str, str, str]]]:
    trees = {str(p.relative_to(SRC)): ast.parse(p.read_text()) for p in _files()}
    mc = memo_classes(trees)
    return mc, memo_value_writes(trees, mc)


# ---------------------------------------------------------------- rendering
def generate() -> str:
    sites, caches, muts = analyse()
    out = ["import Dcg.Model.Key", "namespace Dcg.Gen.SetSites", ""]
    out.append(
        "structure SetSite where\n  file : Nat\n  func : Nat\n  expr : Nat\n  kind : Nat\n  consumer : Nat\n  isSorted : Bool\n  deriving Repr, DecidableEq\n"
    )
    rows = [
        f"{{ file := {k(s.file)}, func := {k(s.func)}, expr := {k(s.expr)}, kind := {k(s.kind)}, consumer := {k(s.consumer)}, isSorted := {'true' if s.is_sorted else 'false'} }}"
        for s in sites
    ]
    out.append(
        "/-- every order-sensitive consumption of a set-typed expression (source order; line numbers are not part of the table) -/\n"
        "def setSites : List SetSite :=\n  [" + ",\n   ".join(rows) + "]\n"
    )
    out.append(
        "structure CacheSite where\n  file : Nat\n  func : Nat\n  decorator : Nat\n  params : List Nat\n  free : List (Nat × Nat)\n  selfAttrs : List Nat\n"
        "  returns : Nat\n  callers : Nat\n  deriving Repr, DecidableEq\n"
    )
    rows = []
    for c in caches:
        free = "[" + ", ".join(f"({k(n)}, {k(cl)})" for n, cl in c.free) + "]"
        rows.append(
            f"{{ file := {k(c.file)}, func := {k(c.func)}, decorator := {k(c.decorator)}, params := [{', '.join(k(p) for p in c.params)}], free := {free}, selfAttrs := [{', '.join(k(a) for a in c.self_attrs)}], returns := {k(c.returns)}, callers := {c.callers} }}"
        )
    out.append(
        "/-- every memoised function: parameters, free names with what binds them at module level, attributes read through self/cls,\n"
        "return annotation, number of loads of its name in the package -/\n"
        "def cacheSites : List CacheSite :=\n  [" + ",\n   ".join(rows) + "]\n"
    )
    rows = [f"({k(m.file)}, {k(m.cls)}, {k(m.attr)}, {k(m.kind)})" for m in muts]
    out.append(
        "/-- mutable displays / constructor calls assigned in a class body: (file, class, attribute, kind) -/\n"
        "def classMutables : List (Nat × Nat × Nat × Nat) :=\n  [" + ",\n   ".join(rows) + "]\n"
    )
    mc, writes = shared_instances()
    rows = [f"({k(c)}, [{', '.join(k(f) for f in fs)}])" for c, fs in mc.items()]
    out.append(
        "/-- package classes whose instances are shared process-wide (returned by a memoised function or bound to a\n"
        "module-level name), with their declared fields -/\n"
        "def memoClasses : List (Nat × List Nat) :=\n  [" + ",\n   ".join(rows) + "]\n"
    )
    rows = [f"({k(f)}, {k(fn)}, {k(t)}, {k(a)})" for f, fn, t, a in writes]
    out.append(
        "/-- every store to / delete of an attribute named like a field of such a class, and every dynamic setattr:\n"
        "(file, function, target, attribute) -/\n"
        "def memoValueWrites : List (Nat × Nat × Nat × Nat) :=\n  [" + ",\n   ".join(rows) + "]\n"
    )
    out.append(
        "structure ListingSite where\n  file : Nat\n  func : Nat\n  call : Nat\n  isSorted : Bool\n  key : Nat\n  keyShape : Nat\n  deriving Repr, DecidableEq\n"
    )
    rows = [
        f"{{ file := {k(s.file)}, func := {k(s.func)}, call := {k(s.call)}, isSorted := {'true' if s.is_sorted else 'false'}, key := {k(s.key)}, keyShape := {k(s.key_shape)} }}"
        for s in listing_sites()
    ]
    out.append(
        "/-- every call of a directory-listing primitive (rglob/glob/iglob/iterdir/walk/fwalk/listdir/scandir): is it the first\n"
        "argument of `sorted(`, with which `key=` (source text; empty = natural total order of the entries) and the shape of that\n"
        "key as classified by the translator (natural | basename-then-path | other) -/\n"
        "def listingSites : List ListingSite :=\n  [" + ",\n   ".join(rows) + "]\n"
    )
    rows = [f"({k(f)}, {k(fn)}, {k(c)})" for f, fn, c in cwd_sites()]
    out.append(
        "/-- every call that reads or sets the process's working directory (Path.cwd, os.getcwd, os.chdir, abspath/realpath,\n"
        ".absolute(), .resolve()) or starts a child process without `cwd=`: (file, function, called expression) -/\n"
        "def cwdSites : List (Nat × Nat × Nat) :=\n  [" + ",\n   ".join(rows) + "]\n"
    )
    out.append("end Dcg.Gen.SetSites")
    return "\n".join(out) + "\n"
