"""Translator for C06: the data the resolver model depends on.

* `keywords`           — `keyword.kwlist` of the interpreter in /venv (environment, not repo): used by
                         `get_valid_name` through `keyword.iskeyword`.
* `singularNameSuffix` — `reference.SINGULAR_NAME_SUFFIX`.
* `moduleDupSuffix`    — the `duplicate_name_suffix=` keyword of the `ModelResolver(...)` call inside
                         `Parser.__replace_duplicate_name_in_module` (read with `ast`).
* `specialPrefix`, `emptyFieldName` — defaults of `FieldNameResolver` as seen on a default `ModelResolver()`.
* `idPattern`, `idPatternFlags` — source text and flags of the compiled `reference.ID_PATTERN`, the regular
                         expression that decides whether a `$ref` is an `$id`/anchor reference (looked up in the
                         id registry) or a JSON pointer / file reference.
* `idPatternUses`      — every place in `src/` where the name `ID_PATTERN` is read, as
                         `file:scope:expression` (read with `ast`): WHICH method of the pattern is applied to WHAT
                         is part of its meaning (`match` anchors at the start only).
Anything that cannot be read gives the value `<unrecognised>`, which no reviewed value equals.
"""
from __future__ import annotations

import ast
import keyword

from ..common import REPO
from ..lean import lean_str

GEN_NAME = "ResolverTables"


def module_dup_suffix() -> str:
    src = (REPO / "src" / "datamodel_code_generator" / "parser" / "base.py").read_text()
    tree = ast.parse(src)
    for fn in ast.walk(tree):
        if isinstance(fn, ast.FunctionDef) and fn.name.endswith("__replace_duplicate_name_in_module"):
            for call in ast.walk(fn):
                if isinstance(call, ast.Call) and getattr(call.func, "id", "") == "ModelResolver":
                    for kw in call.keywords:
                        if kw.arg == "duplicate_name_suffix" and isinstance(kw.value, ast.Constant):
                            return kw.value.value or ""
                    return ""
    return ""


def id_pattern() -> tuple[str, int]:
    try:
        from datamodel_code_generator import reference

        pat = reference.ID_PATTERN
        return str(pat.pattern), int(pat.flags)
    except Exception:  # noqa: BLE001
        return "<unrecognised>", 0


def id_pattern_uses() -> list[str]:
    """`file:scope:expression` for every read of the name `ID_PATTERN` below src/ (imports of the name included)"""
    root = REPO / "src" / "datamodel_code_generator"
    out: list[str] = []
    for path in sorted(root.rglob("*.py")):
        text = path.read_text(encoding="utf-8")
        if "ID_PATTERN" not in text:
            continue
        rel = path.relative_to(root).as_posix()
        try:
            tree = ast.parse(text)
        except SyntaxError:
            out.append(f"{rel}:<unrecognised>")
            continue
        parent: dict = {}
        for node in ast.walk(tree):
            for child in ast.iter_child_nodes(node):
                parent[child] = node
        for node in ast.walk(tree):
            if isinstance(node, ast.alias) and node.name == "ID_PATTERN":
                out.append(f"{rel}:import" + (f" as {node.asname}" if node.asname else ""))
            if not (isinstance(node, (ast.Name, ast.Attribute)) and isinstance(node.ctx, ast.Load)):
                continue
            if (node.id if isinstance(node, ast.Name) else node.attr) != "ID_PATTERN":
                continue
            # the expression the pattern is used in: `ID_PATTERN.<method>(args)` when it is called, else the parent
            expr = parent.get(node, node)
            if isinstance(expr, ast.Attribute) and isinstance(parent.get(expr), ast.Call) and parent[expr].func is expr:
                expr = parent[expr]
            scope, cur = [], node
            while cur in parent:
                cur = parent[cur]
                if isinstance(cur, (ast.FunctionDef, ast.AsyncFunctionDef, ast.ClassDef)):
                    scope.append(cur.name)
            out.append(f"{rel}:{'.'.join(reversed(scope)) or '<module>'}:{ast.unparse(expr)}")
    return sorted(out)


def values() -> dict:
    from datamodel_code_generator import reference
    from datamodel_code_generator.reference import ModelResolver, ModelType

    r = ModelResolver()
    fr = r.field_name_resolvers[ModelType.CLASS]
    return {
        "keywords": list(keyword.kwlist),
        "singularNameSuffix": reference.SINGULAR_NAME_SUFFIX,
        "moduleDupSuffix": module_dup_suffix(),
        "specialPrefix": fr.special_field_name_prefix or "",
        "emptyFieldName": fr.empty_field_name,
        "idPattern": id_pattern()[0],
        "idPatternFlags": id_pattern()[1],
        "idPatternUses": id_pattern_uses(),
    }


def _comment(text: str) -> str:
    """text that is safe inside a Lean block comment (they nest)"""
    return text.replace("-/", "- /").replace("/-", "/ -").replace("\n", " ")


def generate() -> str:
    v = values()
    out = ["namespace Dcg.Gen.ResolverTables", ""]
    out.append("/-- `keyword.kwlist` of the interpreter the generator runs on -/")
    out.append("def keywords : List (List Char) := [")
    out.append(",\n".join(f"  {lean_str(k)} /- {k} -/" for k in v["keywords"]))
    out.append("]")
    for name in ("singularNameSuffix", "moduleDupSuffix", "specialPrefix", "emptyFieldName"):
        out.append(f"def {name} : List Char := {lean_str(v[name])} /- {v[name]!r} -/")
    out.append("/-- `reference.ID_PATTERN.pattern`: the regular expression that recognises an `$id`/anchor reference -/")
    out.append(f"def idPattern : List Char := {lean_str(v['idPattern'])} /- {_comment(repr(v['idPattern']))} -/")
    out.append("/-- `reference.ID_PATTERN.flags` (32 = `re.UNICODE`, what `re.compile` gives a `str` pattern without flags) -/")
    out.append(f"def idPatternFlags : Nat := {v['idPatternFlags']}")
    out.append("/-- every read of the name `ID_PATTERN` in src/: `file:scope:expression` -/")
    out.append("def idPatternUses : List (List Char) := [")
    out.append(",\n".join(f"  {lean_str(u)} /- {_comment(u)} -/" for u in v["idPatternUses"]))
    out.append("]")
    out += ["", "end Dcg.Gen.ResolverTables", ""]
    return "\n".join(out)
