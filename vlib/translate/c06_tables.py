"""Translator for C06: the data the resolver model depends on.

* `keywords`           — `keyword.kwlist` of the interpreter in /venv (environment, not repo): used by
                         `get_valid_name` through `keyword.iskeyword`.
* `singularNameSuffix` — `reference.SINGULAR_NAME_SUFFIX`.
* `moduleDupSuffix`    — the `duplicate_name_suffix=` keyword of the `ModelResolver(...)` call inside
                         `Parser.__replace_duplicate_name_in_module` (read with `ast`).
* `specialPrefix`, `emptyFieldName` — defaults of `FieldNameResolver` as seen on a default `ModelResolver()`.
"""
from __future__ import annotations

import ast
import keyword

from ..common import REPO
from ..lean import lean_str

GEN_NAME = "ResolverTables"


def module_dup_suffix() -> str:
    src = (REPO / "src" / "datamodel_code_generator" / "parser" / "base.py").read_text()
    tree = ast.parse(src)
    for fn in ast.walk(tree):
        if isinstance(fn, ast.FunctionDef) and fn.name.endswith("__replace_duplicate_name_in_module"):
            for call in ast.walk(fn):
                if isinstance(call, ast.Call) and getattr(call.func, "id", "") == "ModelResolver":
                    for kw in call.keywords:
                        if kw.arg == "duplicate_name_suffix" and isinstance(kw.value, ast.Constant):
                            return kw.value.value or ""
                    return ""
    return ""


def values() -> dict:
    from datamodel_code_generator import reference
    from datamodel_code_generator.reference import ModelResolver, ModelType

    r = ModelResolver()
    fr = r.field_name_resolvers[ModelType.CLASS]
    return {
        "keywords": list(keyword.kwlist),
        "singularNameSuffix": reference.SINGULAR_NAME_SUFFIX,
        "moduleDupSuffix": module_dup_suffix(),
        "specialPrefix": fr.special_field_name_prefix or "",
        "emptyFieldName": fr.empty_field_name,
    }


def generate() -> str:
    v = values()
    out = ["namespace Dcg.Gen.ResolverTables", ""]
    out.append("/-- `keyword.kwlist` of the interpreter the generator runs on -/")
    out.append("def keywords : List (List Char) := [")
    out.append(",\n".join(f"  {lean_str(k)} /- {k} -/" for k in v["keywords"]))
    out.append("]")
    for name in ("singularNameSuffix", "moduleDupSuffix", "specialPrefix", "emptyFieldName"):
        out.append(f"def {name} : List Char := {lean_str(v[name])} /- {v[name]!r} -/")
    out += ["", "end Dcg.Gen.ResolverTables", ""]
    return "\n".join(out)
