"""Translator for C06: the data the resolver model depends on.

* `keywords`           — `keyword.kwlist` of the interpreter in /venv (environment, not repo): used by
                         `get_valid_name` through `keyword.iskeyword`.
* `singularNameSuffix` — `reference.SINGULAR_NAME_SUFFIX`.
* `moduleDupSuffix`    — the `duplicate_name_suffix=` keyword of the `ModelResolver(...)` call inside
                         `Parser.__replace_duplicate_name_in_module` (read with `ast`).
* `specialPrefix`, `emptyFieldName` — defaults of `FieldNameResolver` as seen on a default `ModelResolver()`.
* `idPattern`, `idPatternFlags` — source text and flags of the compiled `reference.ID_PATTERN`, the regular
                         expression that decides whether a `$ref` is an `$id`/anchor reference (looked up in the
                         id registry) or a JSON pointer / file reference.
* `idPatternUses`      — every place in `src/` where the name `ID_PATTERN` is read, as
                         `file:scope:expression` (read with `ast`): WHICH method of the pattern is applied to WHAT
                         is part of its meaning (`match` anchors at the start only).
* `schemaFields`       — the fields of `JsonSchemaObject` (parser/jsonschema.py) whose annotation mentions
                         `JsonSchemaObject`, i.e. the keywords under which a subschema can stand, in source order
                         (read with `ast` from the class body).
* `parseRefDescends`, `parseIdDescends` — for the walks `JsonSchemaParser.parse_ref` / `parse_id`: the
                         attributes of the walked object whose values REACH the recursive call (directly, through a
                         loop variable, `.values()`, or through a helper function / generator that is handed the
                         object and yields / returns subschemas), in order of first occurrence. A value whose
                         origin cannot be read adds `<unrecognised>`.
Anything that cannot be read gives the value `<unrecognised>`, which no reviewed value equals.
"""
from __future__ import annotations

import ast
import keyword

from ..common import REPO
from ..lean import lean_str

GEN_NAME = "ResolverTables"


def module_dup_suffix() -> str:
    src = (REPO / "src" / "datamodel_code_generator" / "parser" / "base.py").read_text()
    tree = ast.parse(src)
    for fn in ast.walk(tree):
        if isinstance(fn, ast.FunctionDef) and fn.name.endswith("__replace_duplicate_name_in_module"):
            for call in ast.walk(fn):
                if isinstance(call, ast.Call) and getattr(call.func, "id", "") == "ModelResolver":
                    for kw in call.keywords:
                        if kw.arg == "duplicate_name_suffix" and isinstance(kw.value, ast.Constant):
                            return kw.value.value or ""
                    return ""
    return ""


def id_pattern() -> tuple[str, int]:
    try:
        from datamodel_code_generator import reference

        pat = reference.ID_PATTERN
        return str(pat.pattern), int(pat.flags)
    except Exception:  # noqa: BLE001
        return "<unrecognised>", 0


def id_pattern_uses() -> list[str]:
    """`file:scope:expression` for every read of the name `ID_PATTERN` below src/ (imports of the name included)"""
    root = REPO / "src" / "datamodel_code_generator"
    out: list[str] = []
    for path in sorted(root.rglob("*.py")):
        text = path.read_text(encoding="utf-8")
        if "ID_PATTERN" not in text:
            continue
        rel = path.relative_to(root).as_posix()
        try:
            tree = ast.parse(text)
        except SyntaxError:
            out.append(f"{rel}:<unrecognised>")
            continue
        parent: dict = {}
        for node in ast.walk(tree):
            for child in ast.iter_child_nodes(node):
                parent[child] = node
        for node in ast.walk(tree):
            if isinstance(node, ast.alias) and node.name == "ID_PATTERN":
                out.append(f"{rel}:import" + (f" as {node.asname}" if node.asname else ""))
            if not (isinstance(node, (ast.Name, ast.Attribute)) and isinstance(node.ctx, ast.Load)):
                continue
            if (node.id if isinstance(node, ast.Name) else node.attr) != "ID_PATTERN":
                continue
            # the expression the pattern is used in: `ID_PATTERN.<method>(args)` when it is called, else the parent
            expr = parent.get(node, node)
            if isinstance(expr, ast.Attribute) and isinstance(parent.get(expr), ast.Call) and parent[expr].func is expr:
                expr = parent[expr]
            scope, cur = [], node
            while cur in parent:
                cur = parent[cur]
                if isinstance(cur, (ast.FunctionDef, ast.AsyncFunctionDef, ast.ClassDef)):
                    scope.append(cur.name)
            out.append(f"{rel}:{'.'.join(reversed(scope)) or '<module>'}:{ast.unparse(expr)}")
    return sorted(out)


JSONSCHEMA_PY = ("src", "datamodel_code_generator", "parser", "jsonschema.py")


def _jsonschema_tree():
    return ast.parse(REPO.joinpath(*JSONSCHEMA_PY).read_text(encoding="utf-8"))


def schema_fields() -> list[str]:
    """fields of `JsonSchemaObject` whose annotation mentions `JsonSchemaObject`"""
    try:
        tree = _jsonschema_tree()
    except (OSError, SyntaxError):
        return ["<unrecognised>"]
    for node in tree.body:
        if isinstance(node, ast.ClassDef) and node.name == "JsonSchemaObject":
            out = []
            for st in node.body:
                if isinstance(st, ast.AnnAssign) and isinstance(st.target, ast.Name):
                    if any(isinstance(n, ast.Name) and n.id == "JsonSchemaObject" for n in ast.walk(st.annotation)) or (
                        any(isinstance(n, ast.Constant) and isinstance(n.value, str) and "JsonSchemaObject" in n.value for n in ast.walk(st.annotation))
                    ):
                        out.append(st.target.id)
            return out or ["<unrecognised>"]
    return ["<unrecognised>"]


class _Walks:
    """which attributes of the walked object reach the recursive call of a walk (see module docstring)"""

    def __init__(self, tree) -> None:
        self.module_funcs = {n.name: n for n in tree.body if isinstance(n, (ast.FunctionDef, ast.AsyncFunctionDef))}
        self.methods: dict = {}
        for n in tree.body:
            if isinstance(n, ast.ClassDef) and n.name == "JsonSchemaParser":
                self.methods = {m.name: m for m in n.body if isinstance(m, (ast.FunctionDef, ast.AsyncFunctionDef))}

    @staticmethod
    def _params(fn) -> list[str]:
        return [a.arg for a in fn.args.posonlyargs + fn.args.args]

    def _callee(self, call: ast.Call):
        """(function node, is_method) of a call to a module-level function or to a method of the parser through `self`"""
        f = call.func
        if isinstance(f, ast.Name) and f.id in self.module_funcs:
            return self.module_funcs[f.id], False
        if isinstance(f, ast.Attribute) and isinstance(f.value, ast.Name) and f.value.id in ("self", "cls") and f.attr in self.methods:
            return self.methods[f.attr], True
        return None, False

    def _param_for(self, call: ast.Call, param: str):
        """the parameter name of the callee that receives the bare name `param`, or None"""
        fn, is_method = self._callee(call)
        if fn is None:
            return None, None
        names = self._params(fn)
        if is_method:
            names = names[1:]
        for i, a in enumerate(call.args):
            if isinstance(a, ast.Name) and a.id == param and i < len(names):
                return fn, names[i]
        for kw in call.keywords:
            if isinstance(kw.value, ast.Name) and kw.value.id == param and kw.arg in names:
                return fn, kw.arg
        return None, None

    def produced(self, fn, param: str, stack: tuple = ()) -> list[str]:
        """origins of the values a helper yields / returns when handed the walked object as `param`"""
        if fn.name in stack:
            return []
        env = self._env(fn, param, stack + (fn.name,))
        out: list[str] = []
        for n in sorted(ast.walk(fn), key=lambda x: (getattr(x, "lineno", 0), getattr(x, "col_offset", 0))):
            v = None
            if isinstance(n, (ast.Yield, ast.YieldFrom, ast.Return)):
                v = n.value
            if v is not None:
                out += self.origin(v, param, env, stack + (fn.name,)) or ["<unrecognised>"]
        return list(dict.fromkeys(out))

    def origin(self, e, param: str, env: dict, stack: tuple) -> list[str]:
        if isinstance(e, ast.Attribute) and isinstance(e.value, ast.Name) and e.value.id == param:
            return [e.attr]
        if isinstance(e, ast.Name):
            return list(env.get(e.id, []))
        if isinstance(e, ast.Call):
            if isinstance(e.func, ast.Attribute) and e.func.attr in ("values", "items", "keys", "copy") and not e.args:
                return self.origin(e.func.value, param, env, stack)
            fn, p = self._param_for(e, param)
            if fn is not None:
                return self.produced(fn, p, stack)
            if isinstance(e.func, ast.Name) and e.func.id in ("list", "tuple", "iter", "reversed", "sorted", "chain") and e.args:
                return [x for a in e.args for x in self.origin(a, param, env, stack)]
            return []
        if isinstance(e, (ast.Subscript, ast.Starred)):
            return self.origin(e.value, param, env, stack)
        if isinstance(e, (ast.List, ast.Tuple)):
            return [x for a in e.elts for x in self.origin(a, param, env, stack)]
        if isinstance(e, ast.BinOp):
            return self.origin(e.left, param, env, stack) + self.origin(e.right, param, env, stack)
        if isinstance(e, ast.BoolOp):
            return [x for a in e.values for x in self.origin(a, param, env, stack)]
        if isinstance(e, ast.IfExp):
            return self.origin(e.body, param, env, stack) + self.origin(e.orelse, param, env, stack)
        if isinstance(e, (ast.ListComp, ast.GeneratorExp)):
            env2 = dict(env)
            for g in e.generators:
                for t in ast.walk(g.target):
                    if isinstance(t, ast.Name):
                        env2[t.id] = self.origin(g.iter, param, env2, stack)
            return self.origin(e.elt, param, env2, stack)
        return []

    def _env(self, fn, param: str, stack: tuple) -> dict:
        """variable -> origins, for loop targets and simple assignments (iterated to a fixed point)"""
        env: dict = {}
        for _ in range(4):
            before = {k: list(v) for k, v in env.items()}
            for n in ast.walk(fn):
                if isinstance(n, (ast.For, ast.AsyncFor)):
                    src = self.origin(n.iter, param, env, stack)
                    for t in ast.walk(n.target):
                        if isinstance(t, ast.Name):
                            env[t.id] = list(dict.fromkeys(env.get(t.id, []) + src))
                elif isinstance(n, ast.Assign) and len(n.targets) == 1 and isinstance(n.targets[0], ast.Name):
                    src = self.origin(n.value, param, env, stack)
                    env[n.targets[0].id] = list(dict.fromkeys(env.get(n.targets[0].id, []) + src))
            if env == before:
                break
        return env

    def descends(self, name: str) -> list[str]:
        fn = self.methods.get(name)
        if fn is None or len(self._params(fn)) < 2:
            return ["<unrecognised>"]
        param = self._params(fn)[1]
        env = self._env(fn, param, (name,))
        out: list[str] = []
        found = False
        for n in sorted(ast.walk(fn), key=lambda x: (getattr(x, "lineno", 0), getattr(x, "col_offset", 0))):
            if isinstance(n, ast.Call) and isinstance(n.func, ast.Attribute) and n.func.attr == name and isinstance(n.func.value, ast.Name) \
                    and n.func.value.id == "self" and n.args:
                found = True
                out += self.origin(n.args[0], param, env, (name,)) or ["<unrecognised>"]
        return list(dict.fromkeys(out)) if found else ["<unrecognised>"]


def walk_descends() -> dict:
    try:
        w = _Walks(_jsonschema_tree())
    except (OSError, SyntaxError):
        return {"parseRefDescends": ["<unrecognised>"], "parseIdDescends": ["<unrecognised>"]}
    return {"parseRefDescends": w.descends("parse_ref"), "parseIdDescends": w.descends("parse_id")}


def values() -> dict:
    from datamodel_code_generator import reference
    from datamodel_code_generator.reference import ModelResolver, ModelType

    r = ModelResolver()
    fr = r.field_name_resolvers[ModelType.CLASS]
    return {
        "keywords": list(keyword.kwlist),
        "singularNameSuffix": reference.SINGULAR_NAME_SUFFIX,
        "moduleDupSuffix": module_dup_suffix(),
        "specialPrefix": fr.special_field_name_prefix or "",
        "emptyFieldName": fr.empty_field_name,
        "idPattern": id_pattern()[0],
        "idPatternFlags": id_pattern()[1],
        "idPatternUses": id_pattern_uses(),
        "schemaFields": schema_fields(),
        **walk_descends(),
    }


def _comment(text: str) -> str:
    """text that is safe inside a Lean block comment (they nest)"""
    return text.replace("-/", "- /").replace("/-", "/ -").replace("\n", " ")


def generate() -> str:
    v = values()
    out = ["namespace Dcg.Gen.ResolverTables", ""]
    out.append("/-- `keyword.kwlist` of the interpreter the generator runs on -/")
    out.append("def keywords : List (List Char) := [")
    out.append(",\n".join(f"  {lean_str(k)} /- {k} -/" for k in v["keywords"]))
    out.append("]")
    for name in ("singularNameSuffix", "moduleDupSuffix", "specialPrefix", "emptyFieldName"):
        out.append(f"def {name} : List Char := {lean_str(v[name])} /- {v[name]!r} -/")
    out.append("/-- `reference.ID_PATTERN.pattern`: the regular expression that recognises an `$id`/anchor reference -/")
    out.append(f"def idPattern : List Char := {lean_str(v['idPattern'])} /- {_comment(repr(v['idPattern']))} -/")
    out.append("/-- `reference.ID_PATTERN.flags` (32 = `re.UNICODE`, what `re.compile` gives a `str` pattern without flags) -/")
    out.append(f"def idPatternFlags : Nat := {v['idPatternFlags']}")
    out.append("/-- every read of the name `ID_PATTERN` in src/: `file:scope:expression` -/")
    out.append("def idPatternUses : List (List Char) := [")
    out.append(",\n".join(f"  {lean_str(u)} /- {_comment(u)} -/" for u in v["idPatternUses"]))
    out.append("]")
    docs = {
        "schemaFields": "fields of `JsonSchemaObject` whose annotation mentions `JsonSchemaObject`: the keywords under which a subschema can stand",
        "parseRefDescends": "attributes of the walked object whose values reach the recursive call of `JsonSchemaParser.parse_ref`",
        "parseIdDescends": "attributes of the walked object whose values reach the recursive call of `JsonSchemaParser.parse_id`",
    }
    for name, doc in docs.items():
        out.append(f"/-- {doc} -/")
        out.append(f"def {name} : List (List Char) := [")
        out.append(",\n".join(f"  {lean_str(u)} /- {_comment(u)} -/" for u in v[name]))
        out.append("]")
    out += ["", "end Dcg.Gen.ResolverTables", ""]
    return "\n".join(out)
