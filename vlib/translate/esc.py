"""Translator: escape tables and the quote context each is used in → Dcg/Gen/EscTables.lean."""
from __future__ import annotations

import ast
import importlib

from ..common import REPO
from ..lean import lean_str, lean_string

SRC = REPO / "src" / "datamodel_code_generator"


def _table(mod: str) -> dict[str, str] | None:
    """the module's `escape_characters` translate table as {char: replacement}; None when the module no longer has
    such a table (the code changed shape: the Lean side then gets an EMPTY table and the flag `…Present = false`, so
    that the table obligation `tableOK` fails instead of the translator throwing)"""
    try:
        m = importlib.import_module(mod)
        t = m.escape_characters
        out = {}
        for k, v in t.items():
            if not isinstance(v, str):  # a table that deletes / maps to code points is not the reviewed shape
                return None
            out[chr(k) if isinstance(k, int) else k] = v
        return out
    except Exception:  # noqa: BLE001
        return None


def _fstring_contexts(path, needle: str) -> list[tuple[str, str, str]]:
    """(location, literal text before, literal text after) of every f-string that embeds an
    expression whose source mentions `needle`."""
    src = path.read_text()
    tree = ast.parse(src)
    out = []
    for node in ast.walk(tree):
        if isinstance(node, ast.JoinedStr):
            for i, part in enumerate(node.values):
                if isinstance(part, ast.FormattedValue) and needle in ast.unparse(part.value):
                    before = node.values[i - 1].value if i > 0 and isinstance(node.values[i - 1], ast.Constant) else ""
                    after = (
                        node.values[i + 1].value
                        if i + 1 < len(node.values) and isinstance(node.values[i + 1], ast.Constant)
                        else ""
                    )
                    out.append((f"{path.relative_to(SRC)}", before, after))
    return sorted(out)


TABLE_MODULES = {
    "enumTable": "datamodel_code_generator.parser.base",
    "typedDictKeyTable": "datamodel_code_generator.model.typed_dict",
}


def tables_present() -> dict[str, bool]:
    return {name: _table(mod) is not None for name, mod in TABLE_MODULES.items()}


def tables() -> dict[str, dict[str, str]]:
    """absent table → {} (see `_table`)"""
    return {name: (_table(mod) or {}) for name, mod in TABLE_MODULES.items()}


def typed_dict_key_mechanism() -> tuple[str, bool]:
    """How `model/typed_dict.py DataModelField.key` turns the wire name into the text between the template's single
    quotes: (source of the returned expression, is it `<the name>.translate(escape_characters)` of THIS module's
    table). Anything else — another escaping function, a second return, a missing property — is reported as it is and
    is not the reviewed shape."""
    try:
        tree = ast.parse((SRC / "model" / "typed_dict.py").read_text())
    except Exception as e:  # noqa: BLE001
        return f"<unreadable: {type(e).__name__}>", False
    cls = next((n for n in ast.walk(tree) if isinstance(n, ast.ClassDef) and n.name == "DataModelField"), None)
    fn = next((n for n in (cls.body if cls else []) if isinstance(n, ast.FunctionDef) and n.name == "key"), None)
    if fn is None:
        return "<no DataModelField.key>", False
    rets = [n.value for n in ast.walk(fn) if isinstance(n, ast.Return) and n.value is not None]
    src = " | ".join(ast.unparse(r) for r in rets) or "<no return>"
    if len(rets) != 1:
        return src, False
    r = rets[0]
    ok = (
        isinstance(r, ast.Call) and isinstance(r.func, ast.Attribute) and r.func.attr == "translate"
        and isinstance(r.func.value, ast.Name) and len(r.args) == 1 and not r.keywords
        and isinstance(r.args[0], ast.Name) and r.args[0].id == "escape_characters"
    )
    if ok:
        # the translated value is the wire name: assigned once, from original_name / name only
        var = r.func.value.id
        assigns = [n for n in ast.walk(fn) if isinstance(n, ast.Assign) and any(isinstance(t, ast.Name) and t.id == var for t in n.targets)]
        names = {a.attr for n in assigns for a in ast.walk(n.value) if isinstance(a, ast.Attribute)}
        calls = [c for n in assigns for c in ast.walk(n.value) if isinstance(c, ast.Call)]
        ok = len(assigns) == 1 and names <= {"name", "original_name"} and "original_name" in names and not calls
    return src, ok


def sites() -> dict[str, list[tuple[str, str, str]]]:
    from ..guard import table  # a source file that is gone / unreadable: empty list (the `… ≠ []` obligations then fail)

    enum_sites = []
    for f in ("parser/jsonschema.py", "parser/graphql.py"):
        enum_sites += table(lambda f=f: _fstring_contexts(SRC / f, "translate(escape_characters)"), [])
    pattern_sites = table(lambda: _fstring_contexts(SRC / "model/pydantic/types.py", "pattern"), [])
    return {"enumSites": enum_sites, "patternSites": pattern_sites}


def docstring_replaces() -> list[tuple[str, str]]:
    """The chain of `.replace(old, new)` calls that make up `model/base.py escape_docstring`, in the
    order they are applied (innermost call first). Anything else in that function → empty list (the
    Lean side then no longer recognises the function)."""
    try:
        tree = ast.parse((SRC / "model" / "base.py").read_text())
    except Exception:  # noqa: BLE001
        return []
    for node in ast.walk(tree):
        if isinstance(node, ast.FunctionDef) and node.name == "escape_docstring":
            rets = [n for n in ast.walk(node) if isinstance(n, ast.Return)]
            if len(rets) != 1:
                return []
            chain = []
            cur = rets[0].value
            while isinstance(cur, ast.Call) and isinstance(cur.func, ast.Attribute) and cur.func.attr == "replace":
                if len(cur.args) != 2 or not all(isinstance(a, ast.Constant) and isinstance(a.value, str) for a in cur.args):
                    return []
                chain.append((cur.args[0].value, cur.args[1].value))
                cur = cur.func.value
            if not (isinstance(cur, ast.Name) and cur.id == node.args.args[0].arg):
                return []
            return list(reversed(chain))
    return []


def generate() -> str:
    out = ["namespace Dcg.Gen.EscTables", ""]
    present = tables_present()
    for name, tab in tables().items():
        rows = ",\n   ".join(f"(Char.ofNat {ord(k)}, {lean_str(v)})" for k, v in tab.items() if len(k) == 1)
        out.append(f"def {name} : List (Char × List Char) :=\n  [{rows}]\n")
        out.append(f"/-- the module has an `escape_characters` translate table (false: the table above is empty because there is none) -/\n"
                   f"def {name}Present : Bool := {'true' if present[name] else 'false'}\n")
    ksrc, kok = typed_dict_key_mechanism()
    out.append("/-- `model/typed_dict.py DataModelField.key`: source of the returned expression, and whether it is\n"
               "`<wire name>.translate(escape_characters)` with the module's own table (the reviewed shape) -/\n"
               f"def typedDictKeySource : String := {lean_string(ksrc)}\n"
               f"def typedDictKeyUsesTable : Bool := {'true' if kok else 'false'}\n")
    for name, ss in sites().items():
        rows = ",\n   ".join(f"({lean_string(a)}, {lean_string(b)}, {lean_string(c)})" for a, b, c in ss)
        out.append(
            f"/-- (file, literal text before, literal text after) of each f-string embedding the escaped text -/\n"
            f"def {name} : List (String × String × String) :=\n  [{rows}]\n"
        )
    rows = ",\n   ".join(f"({lean_str(a)}, {lean_str(b)})" for a, b in docstring_replaces())
    out.append(
        "/-- `escape_docstring`: the (old, new) pairs of its chain of str.replace calls, in application order -/\n"
        f"def docstringReplaces : List (List Char × List Char) :=\n  [{rows}]\n"
    )
    out.append("end Dcg.Gen.EscTables")
    return "\n".join(out) + "\n"
