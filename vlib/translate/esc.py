"""Translator: escape tables and the quote context each is used in → Dcg/Gen/EscTables.lean."""
from __future__ import annotations

import ast
import importlib

from ..common import REPO
from ..lean import lean_str, lean_string

SRC = REPO / "src" / "datamodel_code_generator"


def _table(mod: str) -> dict[str, str]:
    m = importlib.import_module(mod)
    t = m.escape_characters
    return {chr(k): v for k, v in t.items()}


def _fstring_contexts(path, needle: str) -> list[tuple[str, str, str]]:
    """(location, literal text before, literal text after) of every f-string that embeds an
    expression whose source mentions `needle`."""
    src = path.read_text()
    tree = ast.parse(src)
    out = []
    for node in ast.walk(tree):
        if isinstance(node, ast.JoinedStr):
            for i, part in enumerate(node.values):
                if isinstance(part, ast.FormattedValue) and needle in ast.unparse(part.value):
                    before = node.values[i - 1].value if i > 0 and isinstance(node.values[i - 1], ast.Constant) else ""
                    after = (
                        node.values[i + 1].value
                        if i + 1 < len(node.values) and isinstance(node.values[i + 1], ast.Constant)
                        else ""
                    )
                    out.append((f"{path.relative_to(SRC)}", before, after))
    return sorted(out)


def tables() -> dict[str, dict[str, str]]:
    return {
        "enumTable": _table("datamodel_code_generator.parser.base"),
        "typedDictKeyTable": _table("datamodel_code_generator.model.typed_dict"),
    }


def sites() -> dict[str, list[tuple[str, str, str]]]:
    enum_sites = []
    for f in ("parser/jsonschema.py", "parser/graphql.py"):
        enum_sites += _fstring_contexts(SRC / f, "translate(escape_characters)")
    pattern_sites = _fstring_contexts(SRC / "model/pydantic/types.py", "pattern")
    return {"enumSites": enum_sites, "patternSites": pattern_sites}


def docstring_replaces() -> list[tuple[str, str]]:
    """The chain of `.replace(old, new)` calls that make up `model/base.py escape_docstring`, in the
    order they are applied (innermost call first). Anything else in that function → empty list (the
    Lean side then no longer recognises the function)."""
    tree = ast.parse((SRC / "model" / "base.py").read_text())
    for node in ast.walk(tree):
        if isinstance(node, ast.FunctionDef) and node.name == "escape_docstring":
            rets = [n for n in ast.walk(node) if isinstance(n, ast.Return)]
            if len(rets) != 1:
                return []
            chain = []
            cur = rets[0].value
            while isinstance(cur, ast.Call) and isinstance(cur.func, ast.Attribute) and cur.func.attr == "replace":
                if len(cur.args) != 2 or not all(isinstance(a, ast.Constant) and isinstance(a.value, str) for a in cur.args):
                    return []
                chain.append((cur.args[0].value, cur.args[1].value))
                cur = cur.func.value
            if not (isinstance(cur, ast.Name) and cur.id == node.args.args[0].arg):
                return []
            return list(reversed(chain))
    return []


def generate() -> str:
    out = ["namespace Dcg.Gen.EscTables", ""]
    for name, tab in tables().items():
        rows = ",\n   ".join(f"(Char.ofNat {ord(k)}, {lean_str(v)})" for k, v in tab.items())
        out.append(f"def {name} : List (Char × List Char) :=\n  [{rows}]\n")
    for name, ss in sites().items():
        rows = ",\n   ".join(f"({lean_string(a)}, {lean_string(b)}, {lean_string(c)})" for a, b, c in ss)
        out.append(
            f"/-- (file, literal text before, literal text after) of each f-string embedding the escaped text -/\n"
            f"def {name} : List (String × String × String) :=\n  [{rows}]\n"
        )
    rows = ",\n   ".join(f"({lean_str(a)}, {lean_str(b)})" for a, b in docstring_replaces())
    out.append(
        "/-- `escape_docstring`: the (old, new) pairs of its chain of str.replace calls, in application order -/\n"
        f"def docstringReplaces : List (List Char × List Char) :=\n  [{rows}]\n"
    )
    out.append("end Dcg.Gen.EscTables")
    return "\n".join(out) + "\n"
