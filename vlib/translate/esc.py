"""Translator: escape tables and the quote context each is used in → Dcg/Gen/EscTables.lean."""
from __future__ import annotations

import ast
import importlib

from ..common import REPO
from ..lean import lean_str, lean_string

SRC = REPO / "src" / "datamodel_code_generator"


def _table(mod: str) -> dict[str, str]:
    m = importlib.import_module(mod)
    t = m.escape_characters
    return {chr(k): v for k, v in t.items()}


def _fstring_contexts(path, needle: str) -> list[tuple[str, str, str]]:
    """(location, literal text before, literal text after) of every f-string that embeds an
    expression whose source mentions `needle`."""
    src = path.read_text()
    tree = ast.parse(src)
    out = []
    for node in ast.walk(tree):
        if isinstance(node, ast.JoinedStr):
            for i, part in enumerate(node.values):
                if isinstance(part, ast.FormattedValue) and needle in ast.unparse(part.value):
                    before = node.values[i - 1].value if i > 0 and isinstance(node.values[i - 1], ast.Constant) else ""
                    after = (
                        node.values[i + 1].value
                        if i + 1 < len(node.values) and isinstance(node.values[i + 1], ast.Constant)
                        else ""
                    )
                    out.append((f"{path.relative_to(SRC)}", before, after))
    return sorted(out)


def tables() -> dict[str, dict[str, str]]:
    return {
        "enumTable": _table("datamodel_code_generator.parser.base"),
        "typedDictKeyTable": _table("datamodel_code_generator.model.typed_dict"),
        "patternTable": _table("datamodel_code_generator.model.pydantic.types"),
    }


def sites() -> dict[str, list[tuple[str, str, str]]]:
    enum_sites = []
    for f in ("parser/jsonschema.py", "parser/graphql.py"):
        enum_sites += _fstring_contexts(SRC / f, "translate(escape_characters)")
    pattern_sites = _fstring_contexts(SRC / "model/pydantic/types.py", "escaped_regex")
    return {"enumSites": enum_sites, "patternSites": pattern_sites}


def generate() -> str:
    out = ["namespace Dcg.Gen.EscTables", ""]
    for name, tab in tables().items():
        rows = ",\n   ".join(f"(Char.ofNat {ord(k)}, {lean_str(v)})" for k, v in tab.items())
        out.append(f"def {name} : List (Char × List Char) :=\n  [{rows}]\n")
    for name, ss in sites().items():
        rows = ",\n   ".join(f"({lean_string(a)}, {lean_string(b)}, {lean_string(c)})" for a, b, c in ss)
        out.append(
            f"/-- (file, literal text before, literal text after) of each f-string embedding the escaped text -/\n"
            f"def {name} : List (String × String × String) :=\n  [{rows}]\n"
        )
    out.append("end Dcg.Gen.EscTables")
    return "\n".join(out) + "\n"
