"""Translator: the data of the GraphQL front end → Dcg/Gen/GraphqlTables.lean.

* DEFAULT_GRAPHQL_SCALAR_TYPES / DEFAULT_GRAPHQL_SCALAR_TYPE (model/scalar.py, runtime values)
* the scalar names graphql-core predefines (environment)
* the TypeKind members a *named* type can have (environment), GraphQLParser.parse_order (runtime),
  the keys of `support_graphql_types` and of the kind → parse-method map (ast of parse_raw)
* the keyword arguments of `_typename_field` (ast) and the type names `_resolve_types` skips (ast)
"""
from __future__ import annotations

import ast

from ..common import REPO
from ..guard import table
from ..lean import lean_string

GEN_NAME = "GraphqlTables"
SRC = REPO / "src" / "datamodel_code_generator" / "parser" / "graphql.py"


def scalar_table() -> tuple[dict[str, str], str]:
    from datamodel_code_generator.model import scalar

    return dict(scalar.DEFAULT_GRAPHQL_SCALAR_TYPES), scalar.DEFAULT_GRAPHQL_SCALAR_TYPE


def builtin_scalars() -> list[str]:
    import graphql

    return sorted(graphql.specified_scalar_types)


def named_kinds() -> list[str]:
    import graphql

    return sorted(k.name for k in graphql.type.introspection.TypeKind if k.name not in ("LIST", "NON_NULL"))


def parse_order() -> list[str]:
    from datamodel_code_generator.parser.graphql import GraphQLParser

    return [k.name for k in GraphQLParser.parse_order]


def _func(tree: ast.AST, name: str) -> ast.FunctionDef:
    for n in ast.walk(tree):
        if isinstance(n, ast.FunctionDef) and n.name == name:
            return n
    raise KeyError(name)


def _kind_of(expr: ast.AST) -> str:
    # graphql.type.introspection.TypeKind.SCALAR
    return expr.attr if isinstance(expr, ast.Attribute) else ast.unparse(expr)


def parse_raw_tables() -> tuple[list[str], list[tuple[str, str]]]:
    tree = ast.parse(SRC.read_text())
    fn = _func(tree, "parse_raw")
    support: list[str] = []
    mapper: list[tuple[str, str]] = []
    for n in ast.walk(fn):
        if isinstance(n, ast.Assign) and isinstance(n.value, ast.Dict):
            tgt = ast.unparse(n.targets[0])
            if tgt == "self.support_graphql_types":
                support = [_kind_of(k) for k in n.value.keys]
            elif tgt == "mapper_from_graphql_type_to_parser_method":
                mapper = [(_kind_of(k), ast.unparse(v)) for k, v in zip(n.value.keys, n.value.values)]
    return support, mapper


def typename_field() -> dict[str, str]:
    tree = ast.parse(SRC.read_text())
    fn = _func(tree, "_typename_field")
    param = fn.args.args[1].arg  # the type name parameter
    out: dict[str, str] = {}
    for n in ast.walk(fn):
        if isinstance(n, ast.Return) and isinstance(n.value, ast.Call):
            for kw in n.value.keywords:
                if kw.arg == "data_type" and isinstance(kw.value, ast.Call):
                    for k2 in kw.value.keywords:
                        if k2.arg == "literals":
                            out["literals"] = ast.unparse(k2.value).replace(param, "NAME")
                elif kw.arg is not None:
                    v = kw.value
                    if isinstance(v, ast.Constant):
                        out[kw.arg] = repr(v.value) if not isinstance(v.value, str) else v.value
                    else:
                        out[kw.arg] = ast.unparse(v).replace(param, "NAME")
    return dict(sorted(out.items()))


def skipped_names() -> list[str]:
    tree = ast.parse(SRC.read_text())
    fn = _func(tree, "_resolve_types")
    out: list[str] = []
    for n in ast.walk(fn):
        if isinstance(n, ast.If) and any(isinstance(s, ast.Continue) for s in n.body):
            for c in ast.walk(n.test):
                if isinstance(c, ast.Set):
                    out += [e.value for e in c.elts if isinstance(e, ast.Constant)]
    return sorted(out)


def _strs(xs) -> str:
    return "[" + ", ".join(lean_string(x) for x in xs) + "]"


def _pairs(xs) -> str:
    return "[" + ", ".join(f"({lean_string(a)}, {lean_string(b)})" for a, b in xs) + "]"


def generate() -> str:
    table_, dflt = table(scalar_table, ({}, "?"))
    support, mapper = table(parse_raw_tables, ([], []))
    out = ["namespace Dcg.Gen.GraphqlTables", ""]
    out.append("/-- model/scalar.py DEFAULT_GRAPHQL_SCALAR_TYPES (GraphQL scalar name, Python type) -/")
    out.append(f"def defaultScalarTypes : List (String × String) :=\n  {_pairs(table_.items())}\n")
    out.append("/-- model/scalar.py DEFAULT_GRAPHQL_SCALAR_TYPE: every scalar not in the table -/")
    out.append(f"def defaultScalarType : String := {lean_string(dflt)}\n")
    out.append("/-- graphql-core: specified_scalar_types (environment) -/")
    out.append(f"def builtinScalars : List String := {_strs(table(builtin_scalars, []))}\n")
    out.append("/-- graphql-core: the TypeKind members a named type can have (environment) -/")
    out.append(f"def namedTypeKinds : List String := {_strs(table(named_kinds, []))}\n")
    out.append("/-- GraphQLParser.parse_order (render order of the kinds) -/")
    out.append(f"def parseOrder : List String := {_strs(table(parse_order, []))}\n")
    out.append("/-- keys of self.support_graphql_types in parse_raw -/")
    out.append(f"def supportKinds : List String := {_strs(support)}\n")
    out.append("/-- mapper_from_graphql_type_to_parser_method in parse_raw (kind, method) -/")
    out.append(f"def kindMethods : List (String × String) := {_pairs(mapper)}\n")
    out.append("/-- keyword arguments of the field built by _typename_field(NAME) -/")
    out.append(f"def typenameField : List (String × String) :=\n  {_pairs(table(typename_field, {}).items())}\n")
    out.append("/-- type names _resolve_types skips -/")
    out.append(f"def skippedTypeNames : List String := {_strs(table(skipped_names, []))}\n")
    out.append("end Dcg.Gen.GraphqlTables")
    return "\n".join(out) + "\n"
