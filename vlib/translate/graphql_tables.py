"""Translator: the data of the GraphQL front end → Dcg/Gen/GraphqlTables.lean.

* DEFAULT_GRAPHQL_SCALAR_TYPES / DEFAULT_GRAPHQL_SCALAR_TYPE (model/scalar.py, runtime values)
* the scalar names graphql-core predefines (environment)
* the TypeKind members a *named* type can have (environment), GraphQLParser.parse_order (runtime),
  the keys of `support_graphql_types` and of the kind → parse-method map (ast of parse_raw)
* the keyword arguments of `_typename_field` (ast) and the type names `_resolve_types` skips (ast)
* model/template/Union.jinja2 as an abstract template (jinja2's own parser): the `{% if %}` tree with its
  conditions and every `{{ … }}` site with the Python lexical state it sits in (code / string / comment),
  the identifiers its literal text uses in code, DataTypeUnion.DEFAULT_IMPORTS, and the template
  variables `parse_union` sets from parser options (ast)
"""
from __future__ import annotations

import ast
import re

from ..common import REPO
from ..guard import table
from ..lean import lean_string

GEN_NAME = "GraphqlTables"
SRC = REPO / "src" / "datamodel_code_generator" / "parser" / "graphql.py"


def scalar_table() -> tuple[dict[str, str], str]:
    from datamodel_code_generator.model import scalar

    return dict(scalar.DEFAULT_GRAPHQL_SCALAR_TYPES), scalar.DEFAULT_GRAPHQL_SCALAR_TYPE


def builtin_scalars() -> list[str]:
    import graphql

    return sorted(graphql.specified_scalar_types)


def named_kinds() -> list[str]:
    import graphql

    return sorted(k.name for k in graphql.type.introspection.TypeKind if k.name not in ("LIST", "NON_NULL"))


def parse_order() -> list[str]:
    from datamodel_code_generator.parser.graphql import GraphQLParser

    return [k.name for k in GraphQLParser.parse_order]


def _func(tree: ast.AST, name: str) -> ast.FunctionDef:
    for n in ast.walk(tree):
        if isinstance(n, ast.FunctionDef) and n.name == name:
            return n
    raise KeyError(name)


def _kind_of(expr: ast.AST) -> str:
    # graphql.type.introspection.TypeKind.SCALAR
    return expr.attr if isinstance(expr, ast.Attribute) else ast.unparse(expr)


def parse_raw_tables() -> tuple[list[str], list[tuple[str, str]]]:
    tree = ast.parse(SRC.read_text())
    fn = _func(tree, "parse_raw")
    support: list[str] = []
    mapper: list[tuple[str, str]] = []
    for n in ast.walk(fn):
        if isinstance(n, ast.Assign) and isinstance(n.value, ast.Dict):
            tgt = ast.unparse(n.targets[0])
            if tgt == "self.support_graphql_types":
                support = [_kind_of(k) for k in n.value.keys]
            elif tgt == "mapper_from_graphql_type_to_parser_method":
                mapper = [(_kind_of(k), ast.unparse(v)) for k, v in zip(n.value.keys, n.value.values)]
    return support, mapper


def typename_field() -> dict[str, str]:
    tree = ast.parse(SRC.read_text())
    fn = _func(tree, "_typename_field")
    param = fn.args.args[1].arg  # the type name parameter
    out: dict[str, str] = {}
    for n in ast.walk(fn):
        if isinstance(n, ast.Return) and isinstance(n.value, ast.Call):
            for kw in n.value.keywords:
                if kw.arg == "data_type" and isinstance(kw.value, ast.Call):
                    for k2 in kw.value.keywords:
                        if k2.arg == "literals":
                            out["literals"] = ast.unparse(k2.value).replace(param, "NAME")
                elif kw.arg is not None:
                    v = kw.value
                    if isinstance(v, ast.Constant):
                        out[kw.arg] = repr(v.value) if not isinstance(v.value, str) else v.value
                    else:
                        out[kw.arg] = ast.unparse(v).replace(param, "NAME")
    return dict(sorted(out.items()))


def skipped_names() -> list[str]:
    tree = ast.parse(SRC.read_text())
    fn = _func(tree, "_resolve_types")
    out: list[str] = []
    for n in ast.walk(fn):
        if isinstance(n, ast.If) and any(isinstance(s, ast.Continue) for s in n.body):
            for c in ast.walk(n.test):
                if isinstance(c, ast.Set):
                    out += [e.value for e in c.elts if isinstance(e, ast.Constant)]
    return sorted(out)


# ------------------------------------------------------------------ Union.jinja2 → Model.GraphqlOrder.UTpl
TEMPLATE_DIR = REPO / "src" / "datamodel_code_generator" / "model" / "template"


def union_template_path():
    """the template the union model renders with (GraphQLParser's default data_model_union_type)"""
    from datamodel_code_generator.model.union import DataTypeUnion

    return TEMPLATE_DIR / DataTypeUnion.TEMPLATE_FILE_PATH


class _Lexer:
    """Python lexical state along the literal text of a template path: code | sq | dq | comment |
    maybe (code or comment: an optional block ended inside a comment) | unknown."""

    def __init__(self) -> None:
        self.code_text: list[str] = []

    def feed(self, state: str, text: str) -> str:
        i = 0
        while i < len(text):
            c = text[i]
            if state == "unknown":
                return state
            if state in ("comment", "maybe"):
                if c == "\n":
                    state = "code"
                elif state == "maybe" and c in "'\"#":
                    return "unknown"
                elif state == "maybe":
                    self.code_text.append(c)
            elif state == "code":
                if c in "'\"":
                    if text[i : i + 3] == c * 3:
                        return "unknown"  # a triple-quoted literal: not something an alias statement has
                    state = "sq" if c == "'" else "dq"
                elif c == "#":
                    state = "comment"
                else:
                    self.code_text.append(c)
            else:  # sq / dq
                if c == "\\":
                    i += 1
                elif c == "\n" or (c == "'" and state == "sq") or (c == '"' and state == "dq"):
                    state = "code"
            i += 1
        self.code_text.append(" ")
        return state


def _lex_name(state: str) -> str:
    return {"sq": ".str", "dq": ".str", "comment": ".comment"}.get(state, ".code")  # maybe / unknown: as if code


def _join(a: str, b: str) -> str:
    if a == b:
        return a
    if {a, b} <= {"code", "comment", "maybe"}:
        return "maybe"
    return "unknown"


def _cond(n) -> str:
    from jinja2 import nodes

    def length_of_fields(e) -> bool:
        return isinstance(e, nodes.Filter) and e.name in ("length", "count") and isinstance(e.node, nodes.Name) and e.node.name == "fields" and not e.args

    if isinstance(n, nodes.Const) and n.value is True:
        return ".tt"
    if isinstance(n, nodes.Name):
        return f"(.var {lean_string(n.name)})"
    if isinstance(n, nodes.Not):
        return f"(.not {_cond(n.node)})"
    if isinstance(n, nodes.And):
        return f"(.and {_cond(n.left)} {_cond(n.right)})"
    if isinstance(n, nodes.Or):
        return f"(.or {_cond(n.left)} {_cond(n.right)})"
    if isinstance(n, nodes.Compare) and len(n.ops) == 1 and length_of_fields(n.expr):
        op, rhs = n.ops[0].op, n.ops[0].expr
        if isinstance(rhs, nodes.Const) and isinstance(rhs.value, int) and not isinstance(rhs.value, bool) and rhs.value >= 0:
            k = rhs.value
            if op == "gt":
                return f"(.lenGt {k})"
            if op == "gteq" and k >= 1:
                return f"(.lenGt {k - 1})"
            if op == "lteq":
                return f"(.not (.lenGt {k}))"
            if op == "lt" and k >= 1:
                return f"(.not (.lenGt {k - 1}))"
            if op == "eq" and k >= 1:
                return f"(.and (.lenGt {k - 1}) (.not (.lenGt {k})))"
            if op == "ne" and k >= 1:
                return f"(.not (.and (.lenGt {k - 1}) (.not (.lenGt {k}))))"
    return f"(.unknown {lean_string(_src(n))})"


def _src(n) -> str:
    from jinja2 import nodes

    if isinstance(n, nodes.Name):
        return n.name
    if isinstance(n, nodes.Const):
        return repr(n.value)
    if isinstance(n, nodes.Getattr):
        return f"{_src(n.node)}.{n.attr}"
    if isinstance(n, nodes.Getitem):
        return f"{_src(n.node)}[{_src(n.arg)}]"
    if isinstance(n, nodes.Filter):
        args = [_src(a) for a in n.args] + [f"{k.key}={_src(k.value)}" for k in n.kwargs]
        return f"{_src(n.node) if n.node is not None else ''}|{n.name}" + (f"({','.join(args)})" if args else "")
    return type(n).__name__ + "(" + ",".join(_src(c) for c in n.iter_child_nodes()) + ")"


def _site(n, loop_var: str | None) -> str:
    """which of the four kinds of site an output expression is"""
    from jinja2 import nodes

    if isinstance(n, nodes.Name) and n.name == "class_name":
        return ".className"
    if isinstance(n, nodes.Getattr) and n.attr == "name":
        inner = n.node
        if isinstance(inner, nodes.Name) and loop_var is not None and inner.name == loop_var:
            return ".eachMember"
        if (isinstance(inner, nodes.Getitem) and isinstance(inner.node, nodes.Name) and inner.node.name == "fields"
                and isinstance(inner.arg, nodes.Const) and inner.arg.value == 0):
            return ".firstMember"
    if isinstance(n, nodes.Filter) and n.name == "join" and isinstance(n.node, nodes.Filter) and n.node.name == "map":
        m = n.node
        attr = [k for k in m.kwargs if k.key == "attribute"]
        sep = n.args[0].value if len(n.args) == 1 and isinstance(n.args[0], nodes.Const) else None
        if (isinstance(m.node, nodes.Name) and m.node.name == "fields" and not m.args and len(attr) == 1
                and isinstance(attr[0].value, nodes.Const) and attr[0].value.value == "name"
                and isinstance(sep, str) and not re.search(r"['\"#\\\n\w]", sep)):
            return ".eachMember"
    return f"(.other {lean_string(_src(n))})"


def _walk(body, state: str, lx: _Lexer, loop_var: str | None) -> tuple[list, str]:
    """items: ('site', kind, lex) | ('ite', cond, then_items, else_items)"""
    from jinja2 import nodes

    items: list = []
    for n in body:
        if isinstance(n, nodes.Output):
            for part in n.nodes:
                if isinstance(part, nodes.TemplateData):
                    state = lx.feed(state, part.data)
                else:
                    items.append(("site", _site(part, loop_var), _lex_name(state)))
        elif isinstance(n, nodes.If):
            t_items, st_t = _walk(n.body, state, lx, loop_var)
            if n.elif_:
                nested = nodes.If(n.elif_[0].test, n.elif_[0].body, n.elif_[1:], n.else_)
                e_items, st_e = _walk([nested], state, lx, loop_var)
            else:
                e_items, st_e = _walk(n.else_, state, lx, loop_var)
            items.append(("ite", _cond(n.test), t_items, e_items))
            state = _join(st_t, st_e)
        elif isinstance(n, nodes.For):
            over_fields = isinstance(n.iter, nodes.Name) and n.iter.name == "fields" and isinstance(n.target, nodes.Name) and not n.else_ and n.test is None
            b_items, st_b = _walk(n.body, state, lx, n.target.name if over_fields else loop_var)
            if not over_fields:
                # a loop over something else runs any number of times: its sites are sites of unknown expressions
                b_items = [("site", f"(.other {lean_string('in a loop over ' + _src(n.iter))})", it[2]) if it[0] == "site" and it[1] != ".className" else it for it in b_items]
            items += b_items
            state = _join(state, st_b)  # zero iterations, or at least one
            if st_b != state and over_fields:
                # the body does not leave the lexical state as it found it: the second member sits elsewhere
                items.append(("site", f"(.other {lean_string('loop body is not state-neutral')})", ".code"))
        else:
            items.append(("site", f"(.other {lean_string(type(n).__name__)})", _lex_name(state)))
    return items, state


def _tpl(items: list) -> str:
    out = ".done"
    for it in reversed(items):
        if it[0] == "site":
            out = f"(.site {it[1]} {it[2]} {out})"
        else:
            out = f"(.ite {it[1]} {_tpl(it[2])} {_tpl(it[3])} {out})"
    return out


def union_template() -> tuple[str, list[str]]:
    import jinja2

    lx = _Lexer()
    tree = jinja2.Environment().parse(union_template_path().read_text())  # noqa: S701
    items, _ = _walk(tree.body, "code", lx, None)
    names = sorted(set(re.findall(r"[A-Za-z_][A-Za-z_0-9]*", "".join(lx.code_text))))
    return _tpl(items), names


def union_default_imports() -> list[str]:
    from datamodel_code_generator.model.union import DataTypeUnion

    return sorted((i.alias or i.import_) for i in DataTypeUnion.DEFAULT_IMPORTS)


def union_template_vars() -> list[tuple[str, str]]:
    """`self.extra_template_data[<name>][KEY] = self.<option>` (also `.update({KEY: self.<option>})`) in parse_union"""
    tree = ast.parse(SRC.read_text())
    fn = _func(tree, "parse_union")
    out: list[tuple[str, str]] = []

    def is_etd(e: ast.AST) -> bool:
        return isinstance(e, ast.Subscript) and ast.unparse(e.value) == "self.extra_template_data"

    for n in ast.walk(fn):
        if isinstance(n, ast.Assign):
            for t in n.targets:
                if isinstance(t, ast.Subscript) and is_etd(t.value) and isinstance(t.slice, ast.Constant):
                    out.append((str(t.slice.value), ast.unparse(n.value).removeprefix("self.")))
        if isinstance(n, ast.Call) and isinstance(n.func, ast.Attribute) and n.func.attr in ("update", "setdefault") and is_etd(n.func.value):
            if n.func.attr == "setdefault" and len(n.args) == 2 and isinstance(n.args[0], ast.Constant):
                out.append((str(n.args[0].value), ast.unparse(n.args[1]).removeprefix("self.")))
            for a in n.args:
                if isinstance(a, ast.Dict):
                    out += [(str(k.value), ast.unparse(v).removeprefix("self.")) for k, v in zip(a.keys, a.values) if isinstance(k, ast.Constant)]
            out += [(k.arg, ast.unparse(k.value).removeprefix("self.")) for k in n.keywords if k.arg]
    return sorted(set(out))


def _strs(xs) -> str:
    return "[" + ", ".join(lean_string(x) for x in xs) + "]"


def _pairs(xs) -> str:
    return "[" + ", ".join(f"({lean_string(a)}, {lean_string(b)})" for a, b in xs) + "]"


def generate() -> str:
    table_, dflt = table(scalar_table, ({}, "?"))
    support, mapper = table(parse_raw_tables, ([], []))
    out = ["import Dcg.Model.GraphqlOrder", "namespace Dcg.Gen.GraphqlTables", "open Dcg.Model.GraphqlOrder", ""]
    out.append("/-- model/scalar.py DEFAULT_GRAPHQL_SCALAR_TYPES (GraphQL scalar name, Python type) -/")
    out.append(f"def defaultScalarTypes : List (String × String) :=\n  {_pairs(table_.items())}\n")
    out.append("/-- model/scalar.py DEFAULT_GRAPHQL_SCALAR_TYPE: every scalar not in the table -/")
    out.append(f"def defaultScalarType : String := {lean_string(dflt)}\n")
    out.append("/-- graphql-core: specified_scalar_types (environment) -/")
    out.append(f"def builtinScalars : List String := {_strs(table(builtin_scalars, []))}\n")
    out.append("/-- graphql-core: the TypeKind members a named type can have (environment) -/")
    out.append(f"def namedTypeKinds : List String := {_strs(table(named_kinds, []))}\n")
    out.append("/-- GraphQLParser.parse_order (render order of the kinds) -/")
    out.append(f"def parseOrder : List String := {_strs(table(parse_order, []))}\n")
    out.append("/-- keys of self.support_graphql_types in parse_raw -/")
    out.append(f"def supportKinds : List String := {_strs(support)}\n")
    out.append("/-- mapper_from_graphql_type_to_parser_method in parse_raw (kind, method) -/")
    out.append(f"def kindMethods : List (String × String) := {_pairs(mapper)}\n")
    out.append("/-- keyword arguments of the field built by _typename_field(NAME) -/")
    out.append(f"def typenameField : List (String × String) :=\n  {_pairs(table(typename_field, {}).items())}\n")
    out.append("/-- type names _resolve_types skips -/")
    out.append(f"def skippedTypeNames : List String := {_strs(table(skipped_names, []))}\n")
    # fallback: a template the model knows nothing about (an unknown expression in code): the side conditions fail
    tpl, lit_names = table(union_template, ('(.site (.other "template not understood") .code .done)', ["?"]))
    out.append("/-- model/template/Union.jinja2: the `if` tree and every `{{ … }}` site with its Python lexical state -/")
    out.append(f"def unionTemplate : UTpl :=\n  {tpl}\n")
    out.append("/-- identifiers in the literal text of Union.jinja2 that are in code -/")
    out.append(f"def unionLiteralNames : List String := {_strs(lit_names)}\n")
    out.append("/-- the names DataTypeUnion.DEFAULT_IMPORTS binds -/")
    out.append(f"def unionDefaultImports : List String := {_strs(table(union_default_imports, []))}\n")
    out.append("/-- template variables parse_union sets in extra_template_data[<union name>] (variable, parser option) -/")
    out.append(f"def unionTemplateVars : List (String × String) := {_pairs(table(union_template_vars, [('?', '?')]))}\n")
    out.append("end Dcg.Gen.GraphqlTables")
    return "\n".join(out) + "\n"
