"""Translator: what the project's YAML loader (the reader of BOTH JSON and YAML text) changes relative to the stock
PyYAML `yaml.SafeLoader` → Dcg/Gen/YamlLoader.lean.

* `loaderOverrides` (runtime): every entry of the constructor / multi-constructor / implicit-resolver / path-resolver
  tables of the class `load_yaml` passes as `Loader=` that is not the entry of `yaml.SafeLoader`, every method of the
  constructor / resolver layers (`construct_mapping`, `flatten_mapping`, `construct_object`, `resolve`, …) that is not the
  stock function, and every class in its MRO that does not come from the `yaml` package;
* `loaderSetup` (ast): the module-level statements of util.py that mention the loader classes, outside the import block;
* `loadYamlBody` (ast): the body of `load_yaml` and `load_yaml_from_path`.
"""
from __future__ import annotations

import ast
import inspect

from ..common import REPO
from ..guard import table
from ..lean import lean_string

GEN_NAME = "YamlLoader"
PKG = REPO / "src" / "datamodel_code_generator"


def _name(f) -> str:
    if f is None:
        return "<absent>"
    mod = getattr(f, "__module__", "") or ""
    q = getattr(f, "__qualname__", None) or repr(f)
    return q if mod.startswith("yaml.") else f"{mod}.{q}"


def loader_class():
    """the class `load_yaml` hands to yaml.load"""
    import datamodel_code_generator as d

    return d.SafeLoader


def overrides() -> list[tuple[str, str, str]]:
    import yaml

    L, R = loader_class(), yaml.SafeLoader
    rows: list[tuple[str, str, str]] = []
    for attr, kind in (("yaml_constructors", "constructor"), ("yaml_multi_constructors", "multi_constructor")):
        a, b = getattr(L, attr), getattr(R, attr)
        for tag in sorted(set(a) | set(b), key=str):
            if a.get(tag) is not b.get(tag):
                rows.append((kind, str(tag), _name(a.get(tag))))
    a, b = L.yaml_implicit_resolvers, R.yaml_implicit_resolvers
    for ch in sorted(set(a) | set(b), key=repr):
        la = [(t, r.pattern) for t, r in a.get(ch, [])]
        lb = [(t, r.pattern) for t, r in b.get(ch, [])]
        if la != lb:
            rows += [("implicit_resolver", f"{ch!r} {t}", pat) for t, pat in la if (t, pat) not in lb]
            rows += [("implicit_resolver_removed", f"{ch!r} {t}", pat) for t, pat in lb if (t, pat) not in la]
            if sorted(la) == sorted(lb):
                rows.append(("implicit_resolver_order", repr(ch), " ".join(t for t, _ in la)))
    if L.yaml_path_resolvers != R.yaml_path_resolvers:
        rows.append(("path_resolver", "yaml_path_resolvers", repr(sorted(map(repr, L.yaml_path_resolvers)))[:200]))
    layers = (yaml.constructor.SafeConstructor, yaml.resolver.Resolver)
    names = sorted({n for c in layers for n in dir(c) if not n.startswith("__")} | {n for c in L.__mro__ if not c.__module__.startswith("yaml") and c is not object
                                                                                      for n in vars(c) if not n.startswith("__")})
    tables = {"yaml_constructors", "yaml_multi_constructors", "yaml_implicit_resolvers", "yaml_path_resolvers"}
    for n in names:
        if n in tables:
            continue
        fa, fb = inspect.getattr_static(L, n, None), inspect.getattr_static(R, n, None)
        if fa is not fb and fa != fb:
            rows.append(("method", n, _name(getattr(fa, "__func__", fa))))
    for c in L.__mro__:
        if c is not object and not c.__module__.startswith("yaml"):
            rows.append(("mro", f"{c.__module__}.{c.__qualname__}", ""))
    return rows


def stock_constructors() -> tuple[list[tuple[str, str]], str]:
    """the constructor table of the stock yaml.SafeLoader (tag ↦ constructor) and its entry for unknown tags (key None)"""
    import yaml

    t = yaml.SafeLoader.yaml_constructors
    return [(str(k), _name(v)) for k, v in sorted(((k, v) for k, v in t.items() if k is not None), key=lambda kv: str(kv[0]))], _name(t.get(None))


def loader_base() -> str:
    L = loader_class()
    return f"{L.__module__}.{L.__qualname__}"


def loader_setup() -> list[str]:
    tree = ast.parse((PKG / "util.py").read_text())
    out = []
    for node in tree.body:
        if isinstance(node, (ast.Import, ast.ImportFrom)):
            continue
        if isinstance(node, ast.If) and "TYPE_CHECKING" in ast.unparse(node.test):
            continue
        src = ast.unparse(node)
        if any(isinstance(x, ast.Name) and "Loader" in x.id for x in ast.walk(node)) or "yaml" in src.split("(")[0]:
            out.append(" ".join(src.split()))
    return out


def load_yaml_body() -> list[str]:
    tree = ast.parse((PKG / "__init__.py").read_text())
    out = []
    for node in tree.body:
        if isinstance(node, ast.FunctionDef) and node.name in ("load_yaml", "load_yaml_from_path"):
            out.append(node.name + ": " + "; ".join(" ".join(ast.unparse(s).split()) for s in node.body))
    return out


def _strs(xs) -> str:
    return "[" + ",\n   ".join(lean_string(x) for x in xs) + "]"


def generate() -> str:
    rows = table(overrides, [("?", "unrecognised loader", "?")])
    out = ["namespace Dcg.Gen.YamlLoader", ""]
    out.append("/-- (kind, tag / first character + tag / method name, what is registered there): every difference between the class\n"
               "`load_yaml` passes as `Loader=` and the stock `yaml.SafeLoader` in the constructor, multi-constructor, implicit-resolver\n"
               "and path-resolver tables, in the methods of the constructor and resolver layers, and in the MRO -/\n"
               "def loaderOverrides : List (String × String × String) :=\n  ["
               + ",\n   ".join(f"({lean_string(a)}, {lean_string(b)}, {lean_string(c)})" for a, b, c in rows) + "]\n")
    stock, fb = table(stock_constructors, ([], "?"))
    out.append("/-- yaml.SafeLoader.yaml_constructors: tag ↦ constructor (the stock table) -/\ndef stockConstructors : List (String × String) :=\n  ["
               + ",\n   ".join(f"({lean_string(a)}, {lean_string(b)})" for a, b in stock) + "]\n")
    out.append(f"/-- its entry for every other tag (key `None`) -/\ndef stockFallback : String := {lean_string(fb)}\n")
    out.append(f"/-- the class `load_yaml` passes as `Loader=` -/\ndef loaderBase : String := {lean_string(table(loader_base, '?'))}\n")
    out.append("/-- module-level statements of util.py that mention the loader classes (imports excluded) -/\n"
               f"def loaderSetup : List String :=\n  {_strs(table(loader_setup, ['? unrecognised']))}\n")
    out.append("/-- bodies of load_yaml and load_yaml_from_path -/\n"
               f"def loadYamlBody : List String :=\n  {_strs(table(load_yaml_body, ['? unrecognised']))}\n")
    out.append("end Dcg.Gen.YamlLoader")
    return "\n".join(out) + "\n"
