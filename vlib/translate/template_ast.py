"""Translator: every Jinja template of the generator → a value of the deep-embedded template type
`Dcg.Model.TemplateSyntax.Tpl` → Dcg/Gen/TemplateAst.lean.

The templates are parsed by jinja2's OWN parser with the Environment settings the project uses
(`model/base.py get_template`: a default `Environment(loader=FileSystemLoader(dir))`, i.e. no
`trim_blocks`/`lstrip_blocks`, `keep_trailing_newline=False`), so the literal text that reaches Lean
is the `TemplateData` jinja2 itself would emit — `{%-`/`-%}` white-space control and the stripped
final newline are applied by jinja2, not re-implemented here.  This file only *prints* that AST;
it does no analysis.  Anything outside the modelled fragment is printed as an explicit
`unsupported` node and counted (`unsupportedTotal`)."""
from __future__ import annotations

import ast as pyast
import re
from pathlib import Path

from jinja2 import Environment, FileSystemLoader, nodes

from ..common import REPO
from ..lean import lean_string

GEN_NAME = "TemplateAst"
TEMPLATE_DIR = REPO / "src" / "datamodel_code_generator" / "model" / "template"


# ------------------------------------------------------------------ how the project builds its Environment
def project_environment_kwargs() -> dict:
    """Keyword arguments of the `Environment(...)` call in `model/base.py get_template` other than the
    loader (read from the source's AST, so that a change such as `trim_blocks=True` is followed)."""
    src = (REPO / "src" / "datamodel_code_generator" / "model" / "base.py").read_text()
    tree = pyast.parse(src)
    out: dict = {}
    for fn in pyast.walk(tree):
        if isinstance(fn, pyast.FunctionDef) and fn.name == "get_template":
            for call in pyast.walk(fn):
                if isinstance(call, pyast.Call) and getattr(call.func, "id", None) == "Environment":
                    for kw in call.keywords:
                        if kw.arg != "loader":
                            out[kw.arg] = pyast.literal_eval(kw.value)
    return out


def environment_for(directory: Path) -> Environment:
    return Environment(loader=FileSystemLoader(str(directory)), **project_environment_kwargs())  # noqa: S701


# ------------------------------------------------------------------ printing
def lchar(c: str) -> str:
    o = ord(c)
    if c == "\n":
        return "'\\n'"
    if c == "'":
        return "'\\''"
    if c == "\\":
        return "'\\\\'"
    if 32 <= o < 127:
        return f"'{c}'"
    return f"Char.ofNat {o}"


def lchars(s: str) -> str:
    return "[" + ", ".join(lchar(c) for c in s) + "]"


def lstrs(xs) -> str:
    return "[" + ", ".join(lean_string(x) for x in xs) + "]"


class Printer:
    def __init__(self, rel: str) -> None:
        self.rel = rel
        self.dir = (TEMPLATE_DIR / rel).parent
        self.env = environment_for(self.dir)
        self.unsupported: list[str] = []
        self.macros: dict[str, tuple[list[str], str]] = {}

    # ---- expressions
    def unsup(self, node, what: str = "") -> str:
        src = f"{type(node).__name__}{(': ' + what) if what else ''} (line {getattr(node, 'lineno', '?')})"
        self.unsupported.append(f"{self.rel}: {src}")
        return f"(.unsupported {lean_string(src)})"

    def const_args(self, call: nodes.Call) -> str | None:
        """canonical text of an argument list made of constants only"""
        if call.dyn_args is not None or call.dyn_kwargs is not None:
            return None
        parts = []
        for a in call.args:
            if not isinstance(a, nodes.Const):
                return None
            parts.append(repr(a.value))
        for k in call.kwargs:
            if not isinstance(k.value, nodes.Const):
                return None
            parts.append(f"{k.key}={k.value.value!r}")
        return ",".join(parts)

    def filt(self, f: nodes.Filter) -> str | None:
        """Lean `Filter` term for a filter application, None when outside the fragment"""
        plain = not f.kwargs and f.dyn_args is None and f.dyn_kwargs is None
        if f.name == "escape_docstring" and plain and not f.args:
            return ".escapeDocstring"
        if f.name == "indent" and plain and len(f.args) == 1 and isinstance(f.args[0], nodes.Const) \
                and isinstance(f.args[0].value, int) and not isinstance(f.args[0].value, bool) and f.args[0].value >= 0:
            return f"(.indent {f.args[0].value})"
        if f.name == "replace" and plain and len(f.args) == 2 and all(isinstance(a, nodes.Const) and isinstance(a.value, str) for a in f.args):
            return f"(.replace {lchars(f.args[0].value)} {lchars(f.args[1].value)})"
        if f.name == "length" and plain and not f.args:
            return ".length"
        if f.name == "default" and plain and len(f.args) == 1 and isinstance(f.args[0], nodes.Dict) and not f.args[0].items:
            return ".defaultEmptyDict"
        return None

    def expr(self, e) -> str:
        if isinstance(e, nodes.Name):
            return f"(.name {lean_string(e.name)})"
        if isinstance(e, nodes.Getattr):
            return f"(.attr {self.expr(e.node)} {lean_string(e.attr)})"
        if isinstance(e, nodes.Getitem):
            return f"(.item {self.expr(e.node)} {self.expr(e.arg)})"
        if isinstance(e, nodes.Const):
            v = e.value
            if isinstance(v, bool):
                return f"(.bool {'true' if v else 'false'})"
            if isinstance(v, int):
                return f"(.int {v})" if v >= 0 else f"(.int ({v}))"
            if isinstance(v, str):
                return f"(.str {lchars(v)})"
            if v is None:
                return ".none"
            return self.unsup(e, repr(v))
        if isinstance(e, nodes.Not):
            return f"(.not {self.expr(e.node)})"
        if isinstance(e, nodes.And):
            return f"(.and {self.expr(e.left)} {self.expr(e.right)})"
        if isinstance(e, nodes.Or):
            return f"(.or {self.expr(e.left)} {self.expr(e.right)})"
        if isinstance(e, nodes.Compare):
            ops = {"eq": ".eq", "ne": ".ne", "lt": ".lt", "lteq": ".le", "gt": ".gt", "gteq": ".ge", "in": ".isIn", "notin": ".notIn"}
            if len(e.ops) == 1 and e.ops[0].op in ops:
                return f"(.cmp {ops[e.ops[0].op]} {self.expr(e.expr)} {self.expr(e.ops[0].expr)})"
            return self.unsup(e, "chained comparison")
        if isinstance(e, nodes.Filter):
            if e.node is None:
                return self.unsup(e, "filter without operand")
            f = self.filt(e)
            if f is None:
                f = f"(.other {lean_string(e.name)})"
                self.unsupported.append(f"{self.rel}: filter {e.name} (line {e.lineno})")
            return f"(.filter {self.expr(e.node)} {f})"
        if isinstance(e, nodes.Test):
            if e.name == "defined" and not e.args and not e.kwargs:
                return f"(.isDefined {self.expr(e.node)})"
            if e.name == "none" and not e.args and not e.kwargs:
                return f"(.isNone {self.expr(e.node)})"
            return self.unsup(e, f"test {e.name}")
        if isinstance(e, nodes.Call):
            if isinstance(e.node, nodes.Getattr):
                args = self.const_args(e)
                if args is not None:
                    return f"(.mcall {self.expr(e.node.node)} {lean_string(e.node.attr)} {lean_string(args)})"
            return self.unsup(e, "call")
        return self.unsup(e)

    # ---- statements
    def body(self, stmts, ind: int) -> str:
        items: list[str] = []
        for s in stmts:
            items += self.stmt(s, ind + 2)
        if not items:
            return "[]"
        pad = " " * (ind + 2)
        return "[\n" + ",\n".join(pad + it for it in items) + "]"

    def stmt(self, s, ind: int) -> list[str]:
        if isinstance(s, nodes.Output):
            out = []
            for n in s.nodes:
                if isinstance(n, nodes.TemplateData):
                    if n.data:
                        out.append(f".text {lchars(n.data)}")
                elif isinstance(n, nodes.Call) and isinstance(n.node, nodes.Name) and n.node.name in self.macros \
                        and not n.kwargs and n.dyn_args is None and n.dyn_kwargs is None:
                    params, body = self.macros[n.node.name]
                    args = "[" + ", ".join(self.expr(a) for a in n.args) + "]"
                    out.append(f".callMacro {lean_string(n.node.name)} {lstrs(params)} {args} {body}")
                else:
                    out.append(f".out {self.expr(n)}")
            return out
        if isinstance(s, nodes.If):
            els = self.body(s.else_, ind) if s.else_ else "[]"
            for el in reversed(s.elif_):
                els = "[.ite " + self.expr(el.test) + " " + self.body(el.body, ind) + " " + els + "]"
            return [f".ite {self.expr(s.test)} {self.body(s.body, ind)} {els}"]
        if isinstance(s, nodes.For):
            if s.else_ or s.test is not None or s.recursive:
                return [self.unsup(s, "for with else/if/recursive")[1:-1]]
            if isinstance(s.target, nodes.Name):
                vs = [s.target.name]
            elif isinstance(s.target, nodes.Tuple) and all(isinstance(i, nodes.Name) for i in s.target.items):
                vs = [i.name for i in s.target.items]
            else:
                return [self.unsup(s, "for target")[1:-1]]
            return [f".forIn {lstrs(vs)} {self.expr(s.iter)} {self.body(s.body, ind)}"]
        if isinstance(s, nodes.Assign):
            if isinstance(s.target, nodes.Name):
                return [f".setVar {lean_string(s.target.name)} {self.expr(s.node)}"]
            return [self.unsup(s, "set target")[1:-1]]
        if isinstance(s, nodes.Include):
            if isinstance(s.template, nodes.Const) and isinstance(s.template.value, str) and s.with_context and not s.ignore_missing:
                name = s.template.value
                # resolved as jinja2 would: by the loader of this template's Environment (its own directory)
                path = (self.dir / name).resolve()
                try:
                    rel = str(path.relative_to(TEMPLATE_DIR.resolve()))
                except ValueError:
                    return [self.unsup(s, f"include outside the template directory: {name}")[1:-1]]
                if not path.exists():
                    return [self.unsup(s, f"include of a missing template: {name}")[1:-1]]
                sub = Printer(rel)
                inner = sub.template_body(ind)
                self.unsupported += sub.unsupported
                return [f".incl {lean_string(name)} {lean_string(rel)} {inner}"]
            return [self.unsup(s, "include")[1:-1]]
        if isinstance(s, nodes.FilterBlock):
            f = self.filt(s.filter)
            if f is None:
                f = f"(.other {lean_string(s.filter.name)})"
                self.unsupported.append(f"{self.rel}: filter block {s.filter.name} (line {s.lineno})")
            return [f".filterBlock {f} {self.body(s.body, ind)}"]
        if isinstance(s, nodes.Macro):
            if s.defaults or not all(isinstance(a, nodes.Name) for a in s.args):
                return [self.unsup(s, "macro with defaults")[1:-1]]
            params = [a.name for a in s.args]
            body = self.body(s.body, ind)
            self.macros[s.name] = (params, body)
            return [f".macroDef {lean_string(s.name)} {lstrs(params)} {body}"]
        return [self.unsup(s)[1:-1]]

    def template_body(self, ind: int = 0) -> str:
        src = (TEMPLATE_DIR / self.rel).read_text()
        tree = self.env.parse(src)
        return self.body(tree.body, ind)


def ident(rel: str) -> str:
    return "t_" + re.sub(r"[^0-9A-Za-z]", "_", rel.removesuffix(".jinja2"))


def translate_all() -> tuple[list[tuple[str, str, str]], list[str]]:
    """[(relative path, Lean identifier, Lean term)], [unsupported node descriptions]"""
    rows, unsupported = [], []
    for p in sorted(TEMPLATE_DIR.rglob("*.jinja2")):
        rel = str(p.relative_to(TEMPLATE_DIR))
        pr = Printer(rel)
        term = pr.template_body(0)
        rows.append((rel, ident(rel), term))
        unsupported += pr.unsupported
    return rows, unsupported


def translate_source(src: str, rel: str = "Enum.jinja2") -> str:
    """Lean term for template text given directly (used for fixtures and the self-test)."""
    pr = Printer(rel)
    return pr.body(pr.env.parse(src).body, 0)


def generate() -> str:
    rows, unsupported = translate_all()
    out = [
        "import Dcg.Model.TemplateSyntax",
        "/-! Every `model/template/**/*.jinja2` of the working tree as a `List Tpl` (jinja2's own parse, white-space",
        "control applied by jinja2). -/",
        "namespace Dcg.Gen.TemplateAst",
        "open Dcg.Model.TemplateSyntax",
        "",
        f"/-- keyword arguments of the project's `Environment(...)` other than the loader: {project_environment_kwargs()!r} -/",
        f"def environmentOptions : List String := {lstrs(sorted(f'{k}={v!r}' for k, v in project_environment_kwargs().items()))}",
        "",
    ]
    for rel, name, term in rows:
        out.append(f"/-- `{rel}` -/")
        out.append(f"def {name} : List Tpl := {term}")
        out.append("")
    out.append("def templates : List (String × List Tpl) := [")
    out.append(",\n".join(f"  ({lean_string(rel)}, {name})" for rel, name, _ in rows))
    out.append("]\n")
    out.append("/-- nodes outside the modelled fragment, as reported by the translator (re-counted in Lean by")
    out.append("`Tpl.unsupportedCountL`) -/")
    out.append("def unsupportedNotes : List String := " + lstrs(unsupported))
    out.append("")
    out.append("end Dcg.Gen.TemplateAst")
    return "\n".join(out) + "\n"


if __name__ == "__main__":
    rows, unsupported = translate_all()
    print(f"{len(rows)} templates, {len(unsupported)} unsupported nodes")
    for u in unsupported:
        print("  ", u)
