"""Name binding inside class bodies of an emitted module (property C02, "no generated field or
class hides a name the file needs").

Python semantics this file states (cross-checked on every run by really importing the modules and
by the Lean model `Dcg.Model.ClassScope` through the driver):

* a class body is executed statement by statement in its own namespace; a name read there is looked
  up in that namespace first, then in the module's globals, then in builtins.  Enclosing class
  namespaces are NOT visible from a nested class body or from a lambda/def body;
* `m: T = v` evaluates `v`, binds `m`, and only then (without `from __future__ import annotations`)
  evaluates `T`; `m: T` alone binds nothing;
* under `from __future__ import annotations` an annotation is a string.  WHO evaluates it decides
  which namespace is used:
    - pydantic v2 (ModelMetaclass.__new__ → collect_model_fields) evaluates every annotation when
      the class is created, class namespace first: a member with a value hides the name in every
      annotation of the class (its own and its siblings', before or after it) — except the name of
      the class itself, which pydantic puts on top of the class namespace; any exception other
      than NameError aborts the import of the module.  (pydantic then deletes the member's value
      from the class, so a later `model_rebuild(force=True)` sees the module's name again.)
    - pydantic v1 evaluates in the module's globals only (`resolve_annotations`,
      `update_forward_refs`): not affected.
    - dataclasses never evaluates; `typing.get_type_hints(cls)` (3.10+) looks a name up in the
      module's globals first and in the class namespace second: it is affected only for names the
      module does not bind, i.e. builtins (`Dict[str, int]` next to a member `str`, `list[int]`
      next to a member `list`).  `inspect.get_annotations(cls, eval_str=True)` and
      `pydantic.TypeAdapter(cls)` / `pydantic.dataclasses.dataclass(cls)` evaluate with the class
      namespace first: affected for every name (the class keeps the member's default as class
      attribute; a member written `field(...)` without `default=` is removed by @dataclass).
    - TypedDict members never have a value: nothing is bound, nothing can be hidden.
    - msgspec is not installed here; its own resolution (`msgspec._utils.get_class_annotations`)
      is not exercised, so for annotations nothing is claimed for msgspec.
* an expression evaluated while the class body runs (default value, `Field(...)`/`field(...)` call,
  decorator, nested class base) sees the members bound by earlier statements of the body: in every
  output kind (plain Python), a member with a value hides the name for every later eager use.
"""
from __future__ import annotations

import ast
import builtins
import inspect
import re
import traceback
import typing
import warnings

from .common import hx

BUILTINS = set(dir(builtins))
TYPING_MODULES = {"typing", "typing_extensions", "collections.abc"}


# ---------------------------------------------------------------- names an expression reads
def names_in(node: ast.AST, skip_literal: bool = True, lambdas: bool = True) -> list[str]:
    """identifiers read in an expression; the arguments of Literal[...] are data.
    `lambdas=False`: the body of a lambda is not evaluated where it is written (and does not see
    the class namespace): skipped."""
    out: list[str] = []

    def visit(n):
        if isinstance(n, ast.Subscript) and isinstance(n.value, ast.Name) and n.value.id == "Literal" and skip_literal:
            out.append("Literal")
            return
        if isinstance(n, ast.Name) and isinstance(n.ctx, ast.Load):
            out.append(n.id)
        elif isinstance(n, ast.Attribute):
            visit(n.value)
            return
        elif isinstance(n, ast.Lambda):
            if lambdas:
                visit(n.body)
            return
        for c in ast.iter_child_nodes(n):
            visit(c)

    visit(node)
    return out


def annotation_names(node: ast.AST, lambdas: bool = True) -> list[str]:
    """names an annotation reads when it is evaluated: string constants are forward references
    (parsed), except inside Literal[...], inside the metadata of Annotated[...] and inside calls"""
    out = names_in(node, lambdas=lambdas)

    def strings(n):
        if isinstance(n, ast.Subscript) and isinstance(n.value, ast.Name) and n.value.id == "Literal":
            return
        if isinstance(n, ast.Subscript) and isinstance(n.value, ast.Name) and n.value.id == "Annotated":
            elts = n.slice.elts if isinstance(n.slice, ast.Tuple) else [n.slice]
            if elts:
                strings(elts[0])
            return
        if isinstance(n, ast.Call):
            return
        if isinstance(n, ast.Constant) and isinstance(n.value, str):
            try:
                sub = ast.parse(n.value, mode="eval").body
            except SyntaxError:
                return
            out.extend(annotation_names(sub, lambdas))
            return
        for c in ast.iter_child_nodes(n):
            strings(c)

    strings(node)
    return out


def lambda_names(node: ast.AST) -> list[str]:
    """names the bodies of the lambdas inside `node` read (their own parameters and the targets of the
    comprehensions of the body excepted: `lambda :[T.model_validate(v) for v in [...]]`, the list form of
    pydantic's validating default_factory, binds `v` itself): needed when the lambda is called — module
    scope, every statement of the module has run"""
    out: list[str] = []
    for n in ast.walk(node):
        if isinstance(n, ast.Lambda):
            params = {a.arg for a in n.args.args + n.args.kwonlyargs + n.args.posonlyargs} | ({n.args.vararg.arg} if n.args.vararg else set()) | ({n.args.kwarg.arg} if n.args.kwarg else set())
            params |= {t.id for c in ast.walk(n.body) if isinstance(c, ast.comprehension) for t in ast.walk(c.target) if isinstance(t, ast.Name)}
            out += [x for x in names_in(n.body, lambdas=False) if x not in params]
    return out


def bound_by(stmt: ast.stmt) -> list[str]:
    if isinstance(stmt, (ast.Import, ast.ImportFrom)):
        return [(a.asname or a.name).split(".")[0] for a in stmt.names if a.name != "*"]
    if isinstance(stmt, (ast.ClassDef, ast.FunctionDef, ast.AsyncFunctionDef)):
        return [stmt.name]
    if isinstance(stmt, ast.Assign):
        return [t.id for t in stmt.targets if isinstance(t, ast.Name)]
    if isinstance(stmt, ast.AnnAssign) and isinstance(stmt.target, ast.Name) and stmt.value is not None:
        return [stmt.target.id]
    return []


def has_future_annotations(tree: ast.Module) -> bool:
    return any(isinstance(s, ast.ImportFrom) and s.module == "__future__" and any(a.name == "annotations" for a in s.names) for s in tree.body)


def module_bindings(tree: ast.Module) -> dict[str, tuple[str, str]]:
    """module-level name → ("import", module) | ("def", statement type); the LAST binding wins"""
    out: dict[str, tuple[str, str]] = {}
    for s in tree.body:
        for n in bound_by(s):
            if isinstance(s, ast.ImportFrom):
                out[n] = ("import", s.module or ".")
            elif isinstance(s, ast.Import):
                out[n] = ("import", n)
            else:
                out[n] = ("def", type(s).__name__)
    return out


def shadow_name_class(name: str, bindings: dict[str, tuple[str, str]]) -> str:
    """what the hidden name is for the module: a class/alias the module defines, a typing construct
    it imports, another imported name, or a builtin"""
    b = bindings.get(name)
    if b is None:
        return "builtin" if name in BUILTINS else "unbound"
    if b[0] == "def":
        return "local_class"
    if b[1] in TYPING_MODULES:
        return "typing_name"
    return "imported_name"


# ---------------------------------------------------------------- the static class-scope analysis
def _value_kind(v: ast.AST | None) -> str:
    if v is None:
        return "none"
    if isinstance(v, ast.Call) and isinstance(v.func, ast.Name):
        return "call:" + v.func.id
    return "default"


class _NameErr(Exception):
    pass


class _Raise(Exception):
    pass


class _Dep(Exception):
    pass


def simulate(expr: ast.AST, hidden: set[str], is_bound) -> str:
    """Evaluate `expr` the way CPython does (operands left to right, then the operation) in a scope
    where the names in `hidden` carry the value of a class member (None, a literal, a FieldInfo, …)
    instead of what the module means by them.
      "ok"              nothing hidden is read
      "name_error"      an unbound name is read before anything else goes wrong (NameError)
      "exception"       a hidden value is subscripted, called or dereferenced (TypeError/AttributeError/KeyError)
      "passed_on"       hidden values are read but only handed on (`Optional[Address]`, `Dict[str, int]`): what
                        receives them decides — typing turns None into NoneType (no exception, the result is not
                        the type the module means), takes a str as forward reference, rejects most other values
                        (TypeError), pydantic cannot build a schema for a FieldInfo
      "value_dependent" a hidden value is an operand of `|` or of another operator: depends on the value"""
    silent = False

    def ev(n) -> bool:
        nonlocal silent
        if isinstance(n, ast.Name):
            if n.id in hidden:
                silent = True
                return True
            if is_bound(n.id):
                return False
            raise _NameErr
        if isinstance(n, ast.Constant) or isinstance(n, ast.Lambda):
            return False
        if isinstance(n, ast.Subscript):
            h = ev(n.value)
            ev(n.slice)
            if h:
                raise _Raise
            return False
        if isinstance(n, ast.Call):
            f = ev(n.func)
            for x in n.args:
                ev(x)
            for k in n.keywords:
                ev(k.value)
            if f:
                raise _Raise
            return False
        if isinstance(n, ast.Attribute):
            if ev(n.value):
                raise _Raise
            return False
        if isinstance(n, (ast.Tuple, ast.List, ast.Set)):
            for x in n.elts:
                ev(x)
            return False
        if isinstance(n, ast.Dict):
            for x in list(n.keys) + list(n.values):
                if x is not None:
                    ev(x)
            return False
        if isinstance(n, ast.Starred):
            ev(n.value)
            return False
        got = [ev(c) for c in ast.iter_child_nodes(n) if isinstance(c, ast.expr)]
        if any(got):
            raise _Dep
        return False

    try:
        ev(expr)
    except _NameErr:
        return "name_error"
    except _Raise:
        return "exception"
    except _Dep:
        return "value_dependent"
    return "passed_on" if silent else "ok"


def only_as_dict_key(node: ast.AST, name: str) -> bool:
    """every read of `name` in the expression is the key type of a Dict[...] / dict[...] / Mapping[...]"""
    keys: set[int] = set()
    for n in ast.walk(node):
        if isinstance(n, ast.Subscript) and isinstance(n.value, ast.Name) and n.value.id in ("Dict", "dict", "Mapping") and isinstance(n.slice, ast.Tuple) and n.slice.elts:
            k = n.slice.elts[0]
            if isinstance(k, ast.Name) and k.id == name:
                keys.add(id(k))
    reads = [n for n in ast.walk(node) if isinstance(n, ast.Name) and n.id == name]
    return bool(reads) and all(id(n) in keys for n in reads)


def class_scope_problems(code: str | ast.Module) -> list[dict]:
    """Every (class, hidden name, hiding member, use) of the module.  `phase`:
    "class_body"     — the use is evaluated while the class body runs, after the hiding member;
                       `effect`: what the evaluation does ("exception" / "passed_on" / "value_dependent")
    "class_creation" — the use is a deferred annotation, evaluated by whoever resolves the class's
                       annotations in the class namespace once the body has run;
                       `effect_v2`: pydantic v2 at class creation (names bound by earlier statements of
                       the module, the class's own name on top; "name_error" = the annotation is a forward
                       reference: pydantic re-evaluates it later, AFTER it has deleted the members' values
                       from the class, so nothing is hidden then),
                       `effect_dc`: an evaluator of a dataclass's annotations after import (every module
                       name bound; members written `field(...)` without `default=` are deleted from the
                       class by @dataclass and hide nothing)."""
    tree = ast.parse(code) if isinstance(code, str) else code
    future = has_future_annotations(tree)
    bindings = module_bindings(tree)
    outer = set(bindings) | BUILTINS
    out: list[dict] = []
    bound_before: set[str] = set()

    def analyse(cls: ast.ClassDef, qual: str, top: ast.stmt, before: set[str]) -> None:
        local: dict[str, str] = {}  # bound so far in the class namespace → kind of the binding statement
        kept_dc: dict[str, bool] = {}  # … and whether @dataclass leaves it in the class
        str_valued: dict[str, bool] = {}  # … and whether its value is a string literal (typing takes it for a forward reference)
        deferred: list[tuple[str, ast.AST]] = []
        simple = qual.split(".")[-1]

        def problem(n: str, phase: str, use: str, user: str, **effects) -> None:
            out.append({"mechanism": "shadowed_name", "use": "member_hides_name", "name": n, "cls": qual, "top": top.name if isinstance(top, ast.ClassDef) else qual,
                        "phase": phase, "use_kind": use, "user": user, "hider": "own_member" if n == user else "sibling_member",
                        "hider_binding": local.get(n, "?"), "name_class": shadow_name_class(n, bindings), "line": cls.lineno, **effects})

        def eager(node: ast.AST, names: list[str], use: str, user: str) -> None:
            hidden = {n for n in local if n in outer}
            if not hidden & set(names):
                return
            eff = simulate(node, hidden, lambda n: n in local or n in before or n in BUILTINS)
            for n in dict.fromkeys(names):
                if n in hidden:
                    problem(n, "class_body", use, user, effect=eff)

        def bind(name: str, kind: str, value: ast.AST | None = None) -> None:
            local[name] = kind
            str_valued[name] = isinstance(value, ast.Constant) and isinstance(value.value, str)
            kept = True
            if isinstance(value, ast.Call) and isinstance(value.func, ast.Name) and value.func.id == "field":
                kept = any(k.arg == "default" for k in value.keywords)
            kept_dc[name] = kept

        for b in cls.body:
            if isinstance(b, ast.AnnAssign) and isinstance(b.target, ast.Name):
                m = b.target.id
                if b.value is not None:
                    eager(b.value, names_in(b.value, lambdas=False), "field_call" if _value_kind(b.value).startswith("call:") else "default", m)
                    bind(m, "member:" + _value_kind(b.value), b.value)
                if future:
                    deferred.append((m, b.annotation))
                else:  # evaluated after the assignment
                    eager(b.annotation, annotation_names(b.annotation, lambdas=False), "annotation", m)
            elif isinstance(b, ast.Assign):
                tg = [t.id for t in b.targets if isinstance(t, ast.Name)]
                eager(b.value, names_in(b.value, lambdas=False), "class_assignment", tg[0] if tg else "?")
                for t in tg:
                    bind(t, "assignment:" + _value_kind(b.value), b.value)
            elif isinstance(b, (ast.FunctionDef, ast.AsyncFunctionDef)):
                for d in b.decorator_list + b.args.defaults + [k for k in b.args.kw_defaults if k is not None]:
                    eager(d, names_in(d, lambdas=False), "decorator", b.name)
                bind(b.name, "def")
            elif isinstance(b, ast.ClassDef):
                for d in b.decorator_list + b.bases + [k.value for k in b.keywords]:
                    eager(d, annotation_names(d, lambdas=False), "nested_base", b.name)
                bind(b.name, "class")
            elif isinstance(b, ast.Expr) and not isinstance(b.value, ast.Constant):
                eager(b.value, names_in(b.value, lambdas=False), "statement", "?")
        hidden_all = {n for n in local if n in outer}
        hidden_v2 = hidden_all - {simple}
        hidden_dc = {n for n in hidden_all if kept_dc.get(n, True)}
        for m, ann in deferred:
            names = [n for n in dict.fromkeys(names_in(ann, lambdas=False)) if n in hidden_all]
            if not names:
                continue
            eff_v2 = simulate(ann, hidden_v2, lambda n: n in local or n == simple or n in before or n in BUILTINS)
            eff_dc = simulate(ann, hidden_dc, lambda n: True)
            for n in names:
                problem(n, "class_creation", "annotation", m,
                        effect_v2=eff_v2 if n in hidden_v2 else "ok", effect_dc=eff_dc if n in hidden_dc else "ok",
                        str_hider=any(str_valued.get(x) for x in names), dict_key_only=only_as_dict_key(ann, n))
        for b in cls.body:  # a nested class body has its own namespace (the enclosing one is not visible)
            if isinstance(b, ast.ClassDef):
                analyse(b, qual + "." + b.name, top, before)

    for s in tree.body:
        if isinstance(s, ast.ClassDef):
            analyse(s, s.name, s, set(bound_before))
        bound_before.update(bound_by(s))
    return out


# which statically found hidings make which output kind fail, and how it shows
AFFECTED = {
    # kind: {phase: (how it is observed, which effect field decides)}
    "pydantic_v2.BaseModel": {"class_body": ("import", "effect"), "class_creation": ("import", "effect_v2")},
    "pydantic.BaseModel": {"class_body": ("import", "effect")},
    "dataclasses.dataclass": {"class_body": ("import", "effect"), "class_creation": ("consumer", "effect_dc")},
    "typing.TypedDict": {"class_body": ("import", "effect")},
    "msgspec.Struct": {"class_body": ("import", "effect")},
}


def applicable(problems: list[dict], kind: str) -> list[dict]:
    """The hidings that make output of this kind misbehave, with `effect` ("exception": the
    evaluation raises; "passed_on": the member's value reaches a typing construct — another type without
    an exception (None) or an exception of that construct; "value_dependent": not
    decided statically — reported only when the run shows it) and `observed_at`."""
    how = AFFECTED.get(kind, {})
    out = []
    for p in problems:
        if p["phase"] not in how:
            continue
        at, field = how[p["phase"]]
        eff = p[field]
        if eff in ("ok", "name_error"):
            continue
        # a string handed to a typing construct becomes a forward reference: pydantic v2 cannot resolve it at class
        # creation (NameError), defers the member and re-evaluates the annotation later without the hiding value
        uncertain_str = eff == "passed_on" and kind == "pydantic_v2.BaseModel" and p.get("str_hider", False)
        out.append(dict(p, observed_at=at, effect=eff, certain=eff in ("exception", "passed_on") and not uncertain_str))
    return out


# ---------------------------------------------------------------- where an exception of the module came from
def exception_site(e: BaseException, code: str) -> dict:
    """the innermost frame of the traceback that lies in the generated module → line, top-level
    statement and (if it is one) top-level class"""
    lines = [f.lineno for f in traceback.extract_tb(e.__traceback__) if "dcgverif_gen_" in (f.filename or "")]
    if not lines:
        return {"line": None, "top": None}
    ln = lines[-1]
    try:
        tree = ast.parse(code)
    except SyntaxError:
        return {"line": ln, "top": None}
    for s in tree.body:
        lo = min([s.lineno] + [d.lineno for d in getattr(s, "decorator_list", [])])
        if lo <= ln <= (s.end_lineno or lo):
            return {"line": ln, "top": s.name if isinstance(s, ast.ClassDef) else None, "stmt": type(s).__name__}
    return {"line": ln, "top": None}


def rename_member(code: str, cls_qual: str, member: str, new: str) -> str | None:
    """the module with the binding statement(s) of `member` in class `cls_qual` renamed (counterfactual:
    the same module without that class-level binding of the name); None when there is no such member"""
    tree = ast.parse(code)
    found = False

    def walk(body, prefix):
        nonlocal found
        for s in body:
            if isinstance(s, ast.ClassDef):
                q = prefix + s.name
                if q == cls_qual:
                    for b in s.body:
                        if isinstance(b, ast.AnnAssign) and isinstance(b.target, ast.Name) and b.target.id == member:
                            b.target.id = new
                            found = True
                        elif isinstance(b, ast.Assign):
                            for t in b.targets:
                                if isinstance(t, ast.Name) and t.id == member:
                                    t.id = new
                                    found = True
                walk(s.body, q + ".")

    walk(tree.body, "")
    return ast.unparse(tree) if found else None


_MOD = re.compile(r"dcgverif_gen_\d+_\d+")


def exception_text(e: BaseException, limit: int = 200) -> str:
    return f"{type(e).__name__}: {_MOD.sub('<module>', str(e))[:limit]}"


# ---------------------------------------------------------------- triage of exceptions that are not name-binding failures
# (regex on "<Type>: <message>") → (disposition, owner, why).  Investigated on seeds 0–3 (quick and
# thorough): every bucket seen is listed here; anything else is reported as "untriaged".
TRIAGE: list[tuple[str, str, str, str]] = [
    (r"^ImportError: email-validator is not installed", "environment", "sandbox",
     "format email / idn-email needs the optional package email-validator, which this environment lacks"),
    (r"^ModuleNotFoundError: No module named 'msgspec'", "environment", "sandbox", "msgspec is not installed"),
    (r"^TypeError: non-default argument '.*' follows default argument", "other_property", "C03 (known finding: dataclass_non_default_after_default) / C05",
     "dataclass output writes a required member after a defaulted one (member order, not name binding)"),
    (r"^TypeError: <enum '.*'> cannot extend <enum '.*'>", "other_property", "C03 (allOf composition) / C09",
     "allOf over a definition that is an enum: the derived class inherits from an Enum that has members (the input is unsatisfiable as an object schema; not name binding)"),
    (r"^PydanticUserError: `RootModel` does not support setting `model_config\['extra'\]`", "other_property", "C14 (representation-only options) / C03 (module not importable)",
     "--allow-extra-fields writes model_config = ConfigDict(extra='allow') into a RootModel class, which pydantic v2 refuses when the class is created (option handling, not name binding)"),
    (r"^TypeError: Cannot subclass typing\.Optional\[", "other_property", "C14 (--reuse-model) / C06 / C03 (module not importable)",
     "--reuse-model makes a duplicate of a nullable root model inherit from the first one and writes the base as the reference's type hint: `class Tag(Optional[Item])` (every name is bound; the base is not a class)"),
    (r"^RuntimeError: no validator found for <class 'collections\.abc\.", "other_property", "C14 (representation-only options) / C13",
     "--use-generic-container-types with --use-standard-collections writes collections.abc.Sequence/Mapping/Set, which pydantic v1 (here: pydantic.v1 on Python 3.12) cannot validate (spelling option, not name binding)"),
    (r"^RuntimeError: no validator found for <class '(pathlib|fractions)\.", "other_property", "C03 (module not importable) / C14 (--collapse-root-models)",
     "pydantic v1 output: a class with a member of a customTypePath type gets `class Config: arbitrary_types_allowed = True`, but when --collapse-root-models moves the "
     "type from a root model into the member of another class that class does not get it: pydantic v1 finds no validator when the class is created "
     "(every name is bound; model configuration, not name binding). Met by the root-model chain family"),
    (r"^ValueError: On field \".*\" the following field constraints are set but not enforced", "other_property", "C04 / C14 (known finding: unenforced_field_constraints)",
     "pydantic v1 refuses a constraint the annotated type cannot enforce (constraint routing, not name binding)"),
]


def triage(text: str) -> tuple[str, str, str]:
    for rx, disp, owner, why in TRIAGE:
        if re.search(rx, text):
            return disp, owner, why
    return "untriaged", "?", "not seen when the buckets were investigated: look at the example"


def bucket_key(text: str) -> str:
    """exception type + message with quoted names and field names blanked"""
    t = re.sub(r"'[^']*'", "'…'", text)
    t = re.sub(r'"[^"]*"', '"…"', t)
    return t[:110]


# ---------------------------------------------------------------- the emitted module as the Lean model sees it (Dcg.Model.ClassScope)
KIND_SX = {"pydantic.BaseModel": "v1", "pydantic_v2.BaseModel": "v2", "dataclasses.dataclass": "dc", "typing.TypedDict": "td", "msgspec.Struct": "ms"}


def _names_sx(names) -> str:
    return "(" + " ".join(hx(n) for n in names) + ")"


def expr_sx(n: ast.AST, seen: set[str]) -> str:
    """evaluation skeleton of an expression (the constructors of Dcg.Model.ClassScope.Expr)"""
    if isinstance(n, ast.Name):
        seen.add(n.id)
        return f"(n {hx(n.id)})"
    if isinstance(n, (ast.Constant, ast.Lambda)):
        return "l"
    if isinstance(n, ast.Subscript):
        args = n.slice.elts if isinstance(n.slice, ast.Tuple) else [n.slice]
        return "(s " + " ".join([expr_sx(n.value, seen)] + [expr_sx(a, seen) for a in args]) + ")"
    if isinstance(n, ast.Call):
        return "(c " + " ".join([expr_sx(n.func, seen)] + [expr_sx(a, seen) for a in n.args] + [expr_sx(k.value, seen) for k in n.keywords]) + ")"
    if isinstance(n, ast.Attribute):
        return f"(a {expr_sx(n.value, seen)})"
    if isinstance(n, (ast.Tuple, ast.List, ast.Set)):
        return "(t" + "".join(" " + expr_sx(x, seen) for x in n.elts) + ")"
    if isinstance(n, ast.Dict):
        return "(t" + "".join(" " + expr_sx(x, seen) for x in list(n.keys) + list(n.values) if x is not None) + ")"
    if isinstance(n, ast.Starred):
        return f"(t {expr_sx(n.value, seen)})"
    return "(o" + "".join(" " + expr_sx(c, seen) for c in ast.iter_child_nodes(n) if isinstance(c, ast.expr)) + ")"


def _N(node: ast.AST) -> list[str]:
    return names_in(node, lambdas=False)


def _A(node: ast.AST) -> list[str]:
    return annotation_names(node, lambdas=False)


def _site(uses: list[str], node: ast.AST, seen: set[str]) -> str:
    late = lambda_names(node)
    seen.update(uses)
    seen.update(late)
    return f"({_names_sx(uses)} {_names_sx(late)} {expr_sx(node, seen)})"


def _tuple_node(nodes: list[ast.AST]) -> ast.AST:
    return ast.Tuple(elts=list(nodes), ctx=ast.Load())


def _kept_by_dataclass(value: ast.AST) -> bool:
    if isinstance(value, ast.Call) and isinstance(value.func, ast.Name) and value.func.id == "field":
        return any(k.arg == "default" for k in value.keywords)
    return True


def _class_sx(c: ast.ClassDef, binds_module: bool, header: list[str], seen: set[str], out: list[str]) -> None:
    """appends the hoisted nested classes of `c`, then `c` itself, to `out`"""
    items = []
    for b in c.body:
        if isinstance(b, ast.AnnAssign) and isinstance(b.target, ast.Name):
            m = b.target.id
            ann = _site(_A(b.annotation), b.annotation, seen)
            val, kept = "-", True
            if b.value is not None:
                val = _site(_N(b.value), b.value, seen)
                kept = _kept_by_dataclass(b.value)
            items.append(f"({hx(m)} {_names_sx([m] if b.value is not None else [])} {ann} {val} {1 if kept else 0})")
        elif isinstance(b, ast.Assign):
            tg = [t.id for t in b.targets if isinstance(t, ast.Name)]
            items.append(f"({hx(tg[0] if tg else '?')} {_names_sx(tg)} - {_site(_N(b.value), b.value, seen)} {1 if _kept_by_dataclass(b.value) else 0})")
        elif isinstance(b, (ast.FunctionDef, ast.AsyncFunctionDef)):
            uses = [n for d in b.decorator_list for n in _N(d)]
            node = _tuple_node(b.decorator_list + b.args.defaults + [k for k in b.args.kw_defaults if k is not None])
            site = f"({_names_sx(uses)} {_names_sx([n for d in b.decorator_list for n in lambda_names(d)])} {expr_sx(node, seen)})"
            seen.update(uses)
            items.append(f"({hx(b.name)} {_names_sx([b.name])} - {site} 1)")
        elif isinstance(b, ast.ClassDef):
            uses = [n for bb in b.bases for n in _N(bb)]
            node = _tuple_node(b.decorator_list + b.bases + [k.value for k in b.keywords])
            site = f"({_names_sx(uses)} {_names_sx([n for bb in b.bases for n in lambda_names(bb)])} {expr_sx(node, seen)})"
            seen.update(uses)
            items.append(f"({hx(b.name)} {_names_sx([b.name])} - {site} 1)")
            _class_sx(b, False, [], seen, out)
        elif isinstance(b, ast.Expr) and not isinstance(b.value, ast.Constant):
            items.append(f"({hx('?')} () - {_site(_N(b.value), b.value, seen)} 1)")
    seen.update(header)
    out.append(f"(cls {hx(c.name)} {1 if binds_module else 0} {_names_sx(header)} ({' '.join(items)}))")


def module_sx(code: str, kind: str) -> str | None:
    """request line `classscope.check …` for one emitted module; None when the module has a
    statement form the model does not have (none is generated today)"""
    tree = ast.parse(code)
    future = has_future_annotations(tree)
    seen: set[str] = set()
    out: list[str] = []

    def late(nodes) -> None:
        names = [n for x in nodes for n in lambda_names(x)]
        if names:
            seen.update(names)
            out.append("(late" + "".join(" " + hx(n) for n in names) + ")")

    for s in tree.body:
        if isinstance(s, (ast.Import, ast.ImportFrom)):
            out.append("(imp" + "".join(" " + hx(n) for n in bound_by(s)) + ")")
        elif isinstance(s, ast.ClassDef):
            header: list[str] = []
            for d in s.decorator_list:
                header += _N(d)
            for b in s.bases:
                if isinstance(b, ast.Subscript):
                    header += _N(b.value) + _A(b.slice)
                else:
                    header += _N(b)
            for k in s.keywords:
                header += _N(k.value)
            _class_sx(s, True, header, seen, out)
            late(s.decorator_list + s.bases + [k.value for k in s.keywords])
        elif isinstance(s, ast.AnnAssign):
            val: list[str] = []
            if s.value is not None:
                val = _A(s.value) if isinstance(s.annotation, ast.Name) and s.annotation.id == "TypeAlias" else _N(s.value)
            ann = _A(s.annotation)
            seen.update(val + ann)
            out.append(f"(asg {_names_sx(bound_by(s))} {_names_sx(val)} {_names_sx(ann)})")
            late(([s.value] if s.value is not None else []) + [s.annotation])
        elif isinstance(s, ast.Assign):
            val = _A(s.value)
            seen.update(val)
            out.append(f"(asg {_names_sx(bound_by(s))} {_names_sx(val)} -)")
            late([s.value])
        elif isinstance(s, ast.Expr):
            val = _N(s.value)
            seen.update(val)
            out.append("(ex" + "".join(" " + hx(n) for n in val) + ")")
            late([s.value])
        elif isinstance(s, (ast.FunctionDef, ast.AsyncFunctionDef)):
            val = [n for d in s.decorator_list for n in _N(d)]
            seen.update(val)
            out.append(f"(fn {hx(s.name)}" + "".join(" " + hx(n) for n in val) + ")")
            late(s.decorator_list)
        else:
            return None
    return f"classscope.check {KIND_SX[kind]} {_names_sx(sorted(seen & BUILTINS))} {1 if future else 0} ({' '.join(out)})"


def _unhx(t: str) -> str:
    body = t[1:]
    return "".join(chr(int(p, 16)) for p in body.split(",")) if body else ""


def lean_problems(reply: str) -> set[tuple] | None:
    """`ok ((order x..) (hides …) …)` → set of tuples"""
    if not reply.startswith("ok ("):
        return None
    toks = reply[3:].replace("(", " ( ").replace(")", " ) ").split()
    out: set[tuple] = set()
    i, depth, cur = 0, 0, []
    for t in toks:
        if t == "(":
            depth += 1
            if depth == 2:
                cur = []
        elif t == ")":
            if depth == 2:
                tag = cur[0]
                if tag == "hides":
                    out.add(("hides", _unhx(cur[1]), _unhx(cur[2]), _unhx(cur[3]), cur[4], cur[5]))
                else:
                    out.add((tag, _unhx(cur[1])))
            depth -= 1
        else:
            cur.append(t)
    return out


def python_problems(static: list[dict], hidings: list[dict]) -> set[tuple]:
    """the Python analyses' verdict in the same vocabulary (`static` = scope_analysis of c02.py,
    `hidings` = applicable(class_scope_problems(code), kind))"""
    out: set[tuple] = set()
    for p in static:
        if p["mechanism"] == "shadowed_name":
            out.add(("rebind", p["name"]))
        else:
            out.add(("order" if p["mechanism"] == "order" else "missing", p["name"]))
    for p in hidings:
        out.add(("hides", p["cls"].split(".")[-1], p["user"], p["name"], "body" if p["phase"] == "class_body" else "creation", p["effect"]))
    return out
