"""Helpers for checks whose translators / campaigns read the SHAPE of the code under check (new shared file; used by
C01 and C10).

A translator that throws because the code changed shape is a finding about the code, not an infrastructure error
(DESIGN §12.4): the table it would have written is not regenerated, so whatever the property's theorems say is about a
STALE table — no theorem of the property is established for the code as it is now.  `translate` records that and
`mark_stale` (called after `ck.prove()`) turns it into broken obligations, so that the verdict is a VIOLATION after the
failing-input search, never exit 2."""
from __future__ import annotations

import json
import re
import traceback
from typing import Any, Callable


def translate(ck, name: str, fn: Callable[[], str]) -> bool:
    """`ck.translate(name, fn())`; a translator that throws leaves the old file and is remembered"""
    try:
        content = fn()
    except Exception:  # noqa: BLE001
        tb = traceback.format_exc()
        ck.notes.setdefault("translators_failed", {})[name] = tb[-600:]
        ck.gen_files.append(name + " (NOT regenerated: the translator threw)")
        return False
    ck.translate(name, content)
    return True


def mark_stale(ck) -> None:
    """after `ck.prove()`: every theorem of the property is unestablished when one of its tables is stale"""
    failed = ck.notes.get("translators_failed") or {}
    if not failed:
        return
    why = "; ".join(f"translator {n} threw ({tb.strip().splitlines()[-1][:160]})" for n, tb in failed.items())
    for t in ck.theorems:
        ck.broken.setdefault(t.short, "generated table is stale — " + why)


def has_astral(x: Any) -> bool:
    if isinstance(x, str):
        return any(ord(c) > 0xFFFF for c in x)
    if isinstance(x, dict):
        return any(has_astral(k) or has_astral(v) for k, v in x.items())
    if isinstance(x, (list, tuple)):
        return any(has_astral(v) for v in x)
    return False


_ESC = re.compile(r"\\(?:u(d[89ab][0-9a-f]{2})\\u(d[c-f][0-9a-f]{2})|.)", re.S)


def doc_text(doc: Any) -> Any:
    """The document text handed to `e2e.run_generate`.  `run_generate` dumps a value with `json.dumps` (ASCII only):
    a character outside the BMP becomes a `\\ud83d\\ude00` surrogate-pair escape, which the YAML reader the generator
    uses for JSON documents refuses (ScannerError) — every such case used to end as a reported error and was never
    looked at.  For documents that contain such characters the same ASCII dump is used with exactly those pairs
    replaced by the character itself (UTF-8 text, as in a user's file); every other escape stays as it was (a raw
    U+0085 or U+2028 would be folded by the YAML reader — C15's subject, not this one's).  All other documents are
    passed on unchanged."""
    if isinstance(doc, str) or not has_astral(doc):
        return doc

    def pair(m: "re.Match[str]") -> str:
        if m.group(1) is None:
            return m.group(0)
        hi, lo = int(m.group(1), 16), int(m.group(2), 16)
        return chr(0x10000 + ((hi - 0xD800) << 10) + (lo - 0xDC00))

    return _ESC.sub(pair, json.dumps(doc))
