"""A translator or campaign that throws is a finding about the *code under check* (its shape is no
longer what the model/extractor understands), not an infrastructure error: record it as a broken
correspondence so that the verdict is a VIOLATION (with the failing-input search), never exit 2."""
from __future__ import annotations

import traceback


def campaign(ck, fn, *args, **kw) -> None:
    try:
        fn(ck, *args, **kw)
    except Exception:  # noqa: BLE001
        tb = traceback.format_exc()
        name = f"{getattr(fn, '__name__', 'campaign')} (crashed)"
        camp = next((c for c in ck.campaigns if c.name == name), None) or ck.campaign(name)
        camp.evaluations += 1
        ck.disagree(camp, {"campaign": getattr(fn, "__name__", "?")}, "the campaign runs to the end", "exception: " + tb[-700:])


def table(fn, fallback):
    """value of one translator extractor; the fallback (which makes the Lean side condition fail) when
    the source no longer has the shape the extractor reads"""
    try:
        return fn()
    except Exception:  # noqa: BLE001
        return fallback
