"""Shared seeded generators (DESIGN.md §2.6)."""
from __future__ import annotations

import keyword

from .common import Rng

QUOTES = ["'", '"', "'''", '"""']
CONTROLS = ["\n", "\r", "\t", "\b", "\f", "\x00", "\x0b", "\x1b", "\x7f", "\x85", " "]
JINJA = ["{{", "}}", "{%", "%}", "{#", "#}"]
PUNCT = list("#[],|(){}:=;@$%&*!?<>/-+.` ~^")
ASCII = list("abcxyzABZ019_")
NONASCII = ["é", "ß", "Ж", "日", "本", " ", "ｘ", "⁰", "½", "①", "\U0001f600", "́", "ǅ", "ʰ", "·"]
ESC_TAILS = ["\\", "\\\\", "\\n", "\\'", '\\"', "\\x41", "\\u0041", "\\N{BULLET}", "\\0", "\\1", "\\8", "\\z"]
WORDS = ["None", "True", "class", "import os", "mro", "name", "value", "__init__", "_x", "__root__", "model_config", "schema", "copy"]


def adversarial(rng: Rng, max_units: int = 6, alphabet: list[list[str]] | None = None) -> str:
    """Mostly short strings mixing quote runs, backslash runs, control characters, Jinja
    delimiters, punctuation, ASCII and non-ASCII text."""
    groups = alphabet or [QUOTES, CONTROLS, JINJA, PUNCT, ASCII, ASCII, NONASCII, ESC_TAILS, WORDS]
    n = rng.range(1, max_units)
    return "".join(rng.choice(rng.choice(groups)) for _ in range(n))


def classify_string(s: str) -> list[str]:
    """Trigger classes of a string (used to classify failures before matching known findings)."""
    out = []
    if '"""' in s or "'''" in s:
        out.append("triple_quote")
    if "'" in s:
        out.append("single_quote")
    if '"' in s:
        out.append("double_quote")
    if "\\" in s:
        out.append("backslash")
    if any(c in s for c in "\n\r"):
        out.append("newline")
    if any(ord(c) < 32 and c not in "\n\r" for c in s) or "\x7f" in s:
        out.append("control")
    if "\x00" in s:
        out.append("nul")
    if any(j in s for j in JINJA):
        out.append("jinja")
    if any(ord(c) > 127 for c in s):
        out.append("non_ascii")
    if s != s.strip():
        out.append("edge_space")
    return out or ["plain"]


def neutral(i: int) -> str:
    return f"neutral{i}q"


def is_plain_identifier(s: str) -> bool:
    return s.isidentifier() and not keyword.iskeyword(s) and s.isascii()
