"""More family generators for the semantic properties C03 / C04 / C14 (new shared file, used only by them).

* `fracbound_doc`      — `integer`-typed schemas whose bounds are NOT whole numbers: all four bound keywords
                         (minimum / maximum / exclusiveMinimum / exclusiveMaximum) × the zone of the bound (below -1,
                         between -1 and 0, between 0 and 1, above 1) × the fraction (.5 / .25 / .75) × every place (member,
                         required member, array item, nullable type list, nested object, map value, behind a `$ref`,
                         union alternative, the document root), two-sided ranges, next to controls (the same bound on a
                         `number`, whole bounds); with the BOUNDARY integers of every bound as instances: floor(b) - 1,
                         floor(b), ceil(b), ceil(b) + 1 (labels come from jsonschema).
* `truncated_doc` / `rejected_by_truncation` — what known finding D10 (`int()` truncation of such a bound) predicts:
                         the document with every non-integral bound of an integer-typed schema replaced by `int(b)`.
                         An instance that is valid under the truncated document is NOT explained by D10.
* `sibling_union_doc`  — validation keywords written as SIBLINGS of `anyOf` / `oneOf` (not inside the members):
                         member orders (the `null` member first / in the middle / last / absent) × scalar kinds (string
                         with maxLength / minLength / pattern, integer and number with the bounds) × two or three inline
                         members × every place; with valid instances and one-step invalid mutations (exactly one
                         jsonschema error, raised by the sibling keyword at the place of the union).
"""
from __future__ import annotations

import copy
import math
from typing import Any

from . import semgen
from .common import Rng
from .semgen import Mutation

BOUND4 = ("minimum", "maximum", "exclusiveMinimum", "exclusiveMaximum")
ZONES = ("below_minus_one", "minus_one_to_zero", "zero_to_one", "above_one")
FRACS = (0.5, 0.25, 0.75)
PLACES = ("member_required", "member", "array_item", "nullable_type_list", "nested_object", "map_value", "def_ref", "union_alt", "range")


# ------------------------------------------------------------------ fractional bounds on integers
def _frac_bound(r: Rng, zone: str, frac: float) -> float:
    if zone == "below_minus_one":
        return -(r.range(1, 9) + frac)
    if zone == "minus_one_to_zero":
        return -frac
    if zone == "zero_to_one":
        return frac
    return r.range(1, 9) + frac


def _boundary(b: float) -> list[int]:
    return [math.floor(b) - 1, math.floor(b), math.ceil(b), math.ceil(b) + 1]


def _inside(kw: str, b: float) -> int:
    """an integer well inside the range left by bound `b`"""
    return math.ceil(b) + 10 if kw in ("minimum", "exclusiveMinimum") else math.floor(b) - 10


def _wrap(place: str, leaf: dict, defs: dict, name: str) -> tuple[dict, Any]:
    """(schema of the member, function value -> member value)"""
    if place == "array_item":
        return {"type": "array", "items": leaf}, lambda v: [v]
    if place == "nested_object":
        return {"type": "object", "properties": {"inner": leaf}, "required": ["inner"]}, lambda v: {"inner": v}
    if place == "map_value":
        return {"type": "object", "additionalProperties": leaf}, lambda v: {"k": v}
    if place == "def_ref":
        dn = "D" + "".join(ch for ch in name.title() if ch.isalnum())
        defs[dn] = leaf
        return {"$ref": f"#/definitions/{dn}"}, lambda v: v
    if place == "union_alt":
        # (the other alternative is one that no integer is coerced to: with a string / boolean next to it pydantic's lax
        # mode would turn a refused boundary integer into "0" / False — the lax zone, not this family's topic)
        return {"anyOf": [leaf, {"type": "array", "items": {"type": "string"}}]}, lambda v: v
    return leaf, lambda v: v


def fracbound_doc(rng: Rng, i: int, plain_names: bool = False) -> tuple[dict, set[str], list]:
    """document number `i` of the family (keyword = i mod 4, zone = (i div 4) mod 4, fraction = (i div 16) mod 3:
    48 consecutive documents cover every combination, each at every place) and its candidate instances"""
    kw = BOUND4[i % 4]
    zone = ZONES[(i // 4) % 4]
    frac = FRACS[(i // 16) % 3]
    feats = {f"fracbound:{kw}", f"fracbound_zone:{zone}", f"fracbound_frac:{frac}"}
    r = rng
    if i % 12 == 11:
        # the document root is the integer itself
        b = _frac_bound(r, zone, frac)
        doc = {"title": "Model", "type": "integer", kw: b}
        feats.add("fracbound_place:root")
        return doc, feats, _boundary(b) + [_inside(kw, b)]
    names = list(semgen.PLAIN_NAMES if plain_names or i % 3 else semgen.PLAIN_NAMES[:8] + ["kebab-name", "with space", "1st"])
    props: dict[str, dict] = {}
    defs: dict[str, dict] = {}
    req: list[str] = []
    base: dict[str, Any] = {}
    cands: list[tuple[str, Any]] = []
    for pi, place in enumerate(PLACES):
        nm = names[pi]
        b = _frac_bound(r, zone, frac)
        leaf: dict[str, Any] = {"type": "integer", kw: b}
        pts = _boundary(b)
        if place == "nullable_type_list":
            leaf["type"] = ["integer", "null"] if r.chance(1, 2) else ["null", "integer"]
        if place == "range":
            # a two-sided range with both ends fractional, in the same zone
            lo = b if kw in ("minimum", "exclusiveMinimum") else b - 6
            hi = lo + 6
            lk, hk = ("minimum", "maximum") if kw in ("minimum", "maximum") else ("exclusiveMinimum", "exclusiveMaximum")
            leaf = {"type": "integer", lk: lo, hk: hi}
            pts = _boundary(lo) + _boundary(hi)
            inside = math.ceil(lo) + 2
        else:
            inside = _inside(kw, b)
        sch, put = _wrap(place, leaf, defs, nm)
        props[nm] = sch
        if place in ("member_required", "nested_object") or r.chance(1, 4):
            req.append(nm)
        base[nm] = put(inside)
        for p in pts:
            cands.append((nm, put(p)))
        if place == "nullable_type_list":
            cands.append((nm, None))
        feats.add(f"fracbound_place:{place}")
    # controls: the same kind of bound on a number, and whole bounds on an integer
    cb = _frac_bound(r, zone, frac)
    props[names[len(PLACES)]] = {"type": "number", kw: cb}
    for p in (*_boundary(cb), cb):
        cands.append((names[len(PLACES)], p))
    wb = int(_frac_bound(r, zone, frac))
    props[names[len(PLACES) + 1]] = {"type": "integer", kw: wb}
    for p in (wb - 1, wb, wb + 1):
        cands.append((names[len(PLACES) + 1], p))
    doc: dict[str, Any] = {"title": "Model", "type": "object", "properties": props, "required": req}
    if defs:
        doc["definitions"] = defs
    insts: list = [dict(base)]
    for nm, v in cands:
        insts.append({**base, nm: v})
    # absent optionals
    insts.append({k: v for k, v in base.items() if k in req})
    return doc, feats, insts


def nonintegral_on_integer(doc: Any) -> bool:
    """some integer-typed schema of the document has a bound that is not a whole number"""
    if isinstance(doc, list):
        return any(nonintegral_on_integer(x) for x in doc)
    if not isinstance(doc, dict):
        return False
    if "integer" in semgen.types_of(doc):
        for k in BOUND4:
            v = doc.get(k)
            if isinstance(v, float) and v != int(v):
                return True
    return any(nonintegral_on_integer(v) for v in doc.values())


def truncated_doc(doc: dict) -> dict:
    """the document as known finding D10 reads it: every non-integral bound of an integer-typed schema is cut
    towards zero by `int()` (the keyword stays what it was)"""

    def walk(s: Any) -> Any:
        if isinstance(s, list):
            return [walk(x) for x in s]
        if not isinstance(s, dict):
            return s
        out = {k: walk(v) for k, v in s.items()}
        if "integer" in semgen.types_of(s):
            for k in BOUND4:
                v = s.get(k)
                if isinstance(v, float) and v != int(v):
                    out[k] = int(v)
        return out

    return walk(copy.deepcopy(doc))


def rejected_by_truncation(doc: dict, inst: Any) -> bool:
    """the instance stops being valid when the non-integral bounds of integer-typed schemas are truncated by int():
    exactly the rejections that known finding D10 explains (a valid instance that is STILL valid under the truncated
    document and is rejected all the same is something else)"""
    if not nonintegral_on_integer(doc):
        return False
    try:
        return not semgen.is_valid(truncated_doc(doc), inst)
    except Exception:  # noqa: BLE001
        return False


def accepted_by_truncation(leaf: dict, keyword: str, value: Any) -> bool:
    """the (invalid) value satisfies the truncated bound `int(leaf[keyword])`: exactly the acceptances that D10 explains"""
    b = leaf.get(keyword)
    if not (isinstance(b, float) and b != int(b)) or isinstance(value, bool) or not isinstance(value, (int, float)):
        return False
    t = int(b)
    excl_flag = leaf.get({"minimum": "exclusiveMinimum", "maximum": "exclusiveMaximum"}.get(keyword, "")) is True
    if keyword == "minimum":
        return value > t if excl_flag else value >= t
    if keyword == "maximum":
        return value < t if excl_flag else value <= t
    if keyword == "exclusiveMinimum":
        return value > t
    if keyword == "exclusiveMaximum":
        return value < t
    return False


# ------------------------------------------------------------------ validation keywords as siblings of anyOf / oneOf
SIB_KINDS = ("string", "integer", "number")
SIB_ORDERS = ("null_first", "null_middle", "null_last", "no_null")
SIB_PLACES = ("member", "member_required", "array_item", "map_value", "def_ref")
CONSTRAINT_KEYS = (*semgen.BOUND_KEYS, *semgen.STR_KEYS, *semgen.ARR_KEYS)


def _sibling_keywords(r: Rng, kind: str, variant: int) -> dict:
    if kind == "string":
        pat = r.choice(semgen.PATTERNS_ANCHORED)[0]
        return [{"maxLength": r.range(2, 6)}, {"minLength": r.range(2, 3)}, {"pattern": pat}, {"minLength": 2, "maxLength": r.range(3, 6)}, {"pattern": pat, "maxLength": 6}][variant % 5]
    lo = r.range(-4, 4)
    if kind == "number":
        lo = lo + r.choice([0, 0.5, 0.25])
    hi = lo + r.range(3, 7)
    return [{"minimum": lo}, {"maximum": hi}, {"exclusiveMinimum": lo}, {"exclusiveMaximum": hi}, {"minimum": lo, "maximum": hi}, {"multipleOf": r.choice([2, 3]) if kind == "integer" else r.choice([0.5, 2])}][variant % 6]


def _other_member(kind: str, k: int) -> dict:
    """a second non-null inline member of a different type (the sibling keywords say nothing about it)"""
    if kind == "string":
        return [{"type": "boolean"}, {"type": "integer"}][k % 2]
    return [{"type": "boolean"}, {"type": "string"}][k % 2]


def sibling_union(r: Rng, i: int, ref_defs: dict | None = None) -> tuple[dict, str, dict, list[dict]]:
    """(the union schema with sibling keywords, kind, the sibling keywords, its members). With `ref_defs` (a
    definitions table to add to) every 11th union has its constrained member written as a `$ref` to a definition
    `{"type": kind}` instead of inline (the generator does not merge sibling keywords into a `$ref` member:
    known finding C04-sibling-ref)."""
    kind = SIB_KINDS[i % 3]
    order = SIB_ORDERS[(i // 3) % 4]
    three = (i // 12) % 2 == 1 or order == "null_middle"
    kws = _sibling_keywords(r, kind, i // 5)
    t = {"type": kind}
    if ref_defs is not None and i % 11 == 10:
        dn = f"Plain{kind.title()}{len(ref_defs)}"
        ref_defs[dn] = {"type": kind}
        t = {"$ref": f"#/definitions/{dn}"}
    other = _other_member(kind, i // 7)
    if order == "null_first":
        members = [{"type": "null"}, t] + ([other] if three else [])
    elif order == "null_middle":
        members = ([other] if (i // 24) % 2 else [t]) + [{"type": "null"}] + ([t] if (i // 24) % 2 else [other])
    elif order == "null_last":
        members = ([other] if three else []) + [t, {"type": "null"}]
    else:
        members = [t, other] if (i // 24) % 2 else [other, t]
    key = "oneOf" if (i // 2) % 3 == 1 else "anyOf"
    return {key: members, **kws}, kind, kws, members


def _values_for(kind: str, kws: dict) -> tuple[list, list[tuple[str, Any]]]:
    """valid values of the constrained kind and (keyword, value violating only that keyword)"""
    s = {"type": kind, **kws}
    v = semgen.validator_for(s)
    if kind == "string":
        good = [x for x in semgen._str_candidates(s) if v.is_valid(x)]
    else:
        good = [x for x in semgen._num_candidates(s, kind == "integer") if v.is_valid(x)]
    bad = []
    for kw, x in semgen._outside(s, kind):
        errs = list(v.iter_errors(x))
        if len(errs) == 1 and errs[0].validator == kw:
            bad.append((kw, x))
    return good[:4], bad


def sibling_union_doc(rng: Rng, i: int, plain_names: bool = False) -> tuple[dict, set[str], list, list[Mutation]]:
    """document number `i` of the family: one union with sibling keywords per place (kinds / orders / keywords step
    with the index: 24 consecutive documents × 5 places cover kinds × orders × two-or-three members), its valid
    instances and its confirmed one-step mutations"""
    feats: set[str] = set()
    names = list(semgen.PLAIN_NAMES)
    if i % 10 == 9:
        # the document root is the union
        u, kind, kws, members = sibling_union(rng.fork("root"), i)
        doc = {"title": "Model", **u}
        good, bad = _values_for(kind, kws)
        feats |= {"sibling_place:root", f"sibling_kind:{kind}"}
        insts = [g for g in good if semgen.is_valid(doc, g)]
        muts = _confirm(doc, [Mutation(x, kw, "root", [], u, "none", True, x, [m for m in members if m.get("type") != kind]) for kw, x in bad])
        return doc, feats, insts, muts
    props: dict[str, dict] = {}
    defs: dict[str, dict] = {}
    req: list[str] = []
    base: dict[str, Any] = {}
    per: list[tuple[str, str, Any, dict, str, dict, list]] = []
    for pi, place in enumerate(SIB_PLACES):
        nm = names[pi]
        u, kind, kws, members = sibling_union(rng.fork(nm), i * len(SIB_PLACES) + pi, defs)
        sch, put = _wrap(place, u, defs, nm)
        props[nm] = sch
        if place == "member_required":
            req.append(nm)
        good, bad = _values_for(kind, kws)
        if not good:
            continue
        base[nm] = put(good[0])
        per.append((nm, place, put, u, kind, kws, members))
        order = "no_null" if all(m.get("type") != "null" for m in members) else ("null_first" if members[0].get("type") == "null" else ("null_last" if members[-1].get("type") == "null" else "null_middle"))
        feats |= {f"sibling_place:{place}", f"sibling_kind:{kind}", f"sibling_order:{order}", f"sibling_members:{len(members)}", *(f"sibling_keyword:{k}" for k in kws)}
        ti = next(j for j, m in enumerate(members) if m.get("type") == kind or "$ref" in m)
        if "$ref" in members[ti]:
            feats.add("sibling_constrained_member_is_ref")
        if order != "no_null" and members.index({"type": "null"}) < ti:
            feats.add("sibling_null_before_constrained_member")
    doc: dict[str, Any] = {"title": "Model", "type": "object", "properties": props, "required": req}
    if defs:
        doc["definitions"] = defs
    insts: list = [dict(base)]
    raw: list[Mutation] = []
    for nm, place, put, u, kind, kws, members in per:
        good, bad = _values_for(kind, kws)
        for g in good[1:]:
            insts.append({**base, nm: put(g)})
        for m in members:
            if m.get("type") == "null":
                insts.append({**base, nm: put(None)})
            elif m.get("type") == "boolean":
                insts.append({**base, nm: put(True)})
            elif m.get("type") != kind:
                insts.append({**base, nm: put("zq" if m.get("type") == "string" else 7)})
        loc = {"member": "member", "member_required": "member", "array_item": "array_item", "map_value": "ap_value", "def_ref": "member"}[place]
        path = [nm] + ([0] if place == "array_item" else (["k"] if place == "map_value" else []))
        on_ref = any("$ref" in m for m in members)
        for kw, x in bad:
            raw.append(Mutation({**base, nm: put(x)}, kw, loc, path, u, "sibling_keyword_on_ref_member" if on_ref else "none", True, x, [m for m in members if m.get("type") != kind and "$ref" not in m]))
    insts = [x for x in insts if semgen.is_valid(doc, x)]
    return doc, feats, insts, _confirm(doc, raw)


def _confirm(doc: dict, raw: list[Mutation]) -> list[Mutation]:
    """keep the mutations that jsonschema refuses with exactly one error, raised by the intended keyword at the
    place of the union"""
    v = semgen.validator_for(doc)
    out = []
    for m in raw:
        errs = list(v.iter_errors(m.instance))
        if len(errs) == 1 and errs[0].validator == m.keyword and list(errs[0].absolute_path) == m.path:
            out.append(m)
    return out
