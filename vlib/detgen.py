"""Seeded generators of the input FAMILIES the determinism check (C08) needs beyond vlib/docgen.py:

* documents whose properties carry several extension keywords (`x-…` and other non-schema keys) together with the options
  that keep them (`field_include_all_keys`, `field_extra_keys`, `field_extra_keys_without_x_prefix`): what is kept passes
  through sets of key names on its way into the emitted `Field(...)` / `json_schema_extra={...}`;
* JSON-Schema / OpenAPI documents with `discriminator` objects (with and without `mapping`, property names that field-name
  conversion rewrites): the parser writes the converted name back INTO the loaded document;
* directory inputs with at least two sub-directories (nested, too), pairwise distinct basenames, and class names that collide
  across files (inline objects under the same property name, equal definition names): the order in which the files are
  parsed decides who gets the plain name and who gets the numbered one.

Every choice comes from the Rng passed in."""
from __future__ import annotations

import json

from . import docgen
from .common import Rng

X_KEYS = ["x-unit", "x-source", "x-owner", "x-tier", "x-order", "x-internal", "x-go-name", "x-a", "x-b", "x-c", "x-xml", "x-example-id"]
PLAIN_EXTRA_KEYS = ["units", "comment", "ui:widget", "displayName", "deprecatedSince", "vendor"]
EXTRA_VALUES = ["kg", "m/s", 1, 2.5, True, None, "a b", ["p", "q"], {"k": "v"}, "", "it's"]


def json_schema_extras(rng: Rng) -> tuple[dict, dict]:
    """(document, options): 1–4 properties each carrying 2–7 extension keywords in a random document order"""
    n_props = rng.range(1, 4)
    props: dict = {}
    used: list[str] = []
    for i in range(n_props):
        name = rng.choice(docgen.WORDS) + (str(i) if rng.chance(1, 2) else "")
        sub = docgen._scalar(rng)
        keys = rng.sample(X_KEYS, rng.range(2, 6)) + (rng.sample(PLAIN_EXTRA_KEYS, rng.range(1, 2)) if rng.chance(1, 3) else [])
        for kx in rng.shuffle(keys):
            sub[kx] = rng.choice(EXTRA_VALUES)
            if kx not in used:
                used.append(kx)
        props[name] = sub
    doc: dict = {"title": "Extras", "type": "object", "properties": props, "required": [p for p in props if rng.chance(1, 2)]}
    if rng.chance(1, 3):   # extension keywords on a definition that is referenced, too
        doc["definitions"] = {"Part": {"type": "object", "properties": {"v": {"type": "integer", **{kx: rng.choice(EXTRA_VALUES) for kx in rng.sample(X_KEYS, 3)}}}}}
        doc["properties"]["part"] = {"$ref": "#/definitions/Part"}
    opts = extras_option_family(rng, used)
    if rng.chance(1, 3):
        opts.update({"use_annotated": True, "field_constraints": True})
    return doc, opts


def extras_option_family(rng: Rng, used: list[str], *, keeping_only: bool = False) -> dict:
    """one member of the option family that decides which extension keywords of a property reach Field(...): keep all, keep the
    listed ones (all of the document's, or a STRICT part of them: the others must be dropped), strip the x- prefix of some, the
    mixtures — and, unless `keeping_only`, no such option at all (every extension keyword must be dropped)"""
    xs = [kx for kx in used if kx.startswith("x-")]
    r = rng.below(6 if keeping_only else 8)
    if r == 0:
        opts: dict = {"field_include_all_keys": True}
    elif r == 1:
        opts = {"field_extra_keys": rng.shuffle(used)}
    elif r == 2 and xs:
        opts = {"field_extra_keys_without_x_prefix": rng.shuffle(xs)}
    elif r == 3 and xs:
        half = rng.sample(xs, max(1, len(xs) // 2))
        opts = {"field_extra_keys": rng.shuffle([kx for kx in used if kx not in half]), "field_extra_keys_without_x_prefix": half}
    elif r == 4 and xs:
        opts = {"field_include_all_keys": True, "field_extra_keys_without_x_prefix": rng.sample(xs, max(1, len(xs) // 2))}
    elif r == 5 and len(used) > 1:
        opts = {"field_extra_keys": rng.sample(used, max(1, len(used) // 2))}
    elif r in (6, 7):
        opts = {}
    else:
        opts = {"field_include_all_keys": True}
    return opts


def extension_keys_of(doc) -> list[str]:
    """the extension keywords (x-… and the plain ones of this generator) that occur anywhere in a document, in document order"""
    out: list[str] = []

    def walk(x) -> None:
        if isinstance(x, dict):
            for kx, v in x.items():
                if (kx.startswith("x-") or kx in PLAIN_EXTRA_KEYS) and kx not in out:
                    out.append(kx)
                walk(v)
        elif isinstance(x, list):
            for v in x:
                walk(v)

    walk(doc)
    return out


def openapi_extras(rng: Rng) -> tuple[dict, dict]:
    """the same family as `json_schema_extras` inside an OpenAPI document (components.schemas, one or two schemas)"""
    schemas = {}
    for nm in rng.sample(["Invoice", "Customer", "Parcel", "Reading"], rng.range(1, 2)):
        d, _ = json_schema_extras(rng)
        part = d.pop("definitions", None)
        d["properties"].pop("part", None)
        d["required"] = [p for p in d.get("required", []) if p in d["properties"]]
        d.pop("title", None)
        schemas[nm] = d
        if part:
            schemas.setdefault("Part", part["Part"])
    doc = {"openapi": "3.0.3", "info": {"title": "extras", "version": "1"}, "paths": {}, "components": {"schemas": schemas}}
    return doc, extras_option_family(rng, extension_keys_of(doc))


DISCRIMINATOR_PROPS = ["petType", "objectType", "kind", "type", "pet_type", "Pet-Kind", "$type", "@type", "itemKind", "class"]
VARIANTS = ["Cat", "Dog", "Lizard", "Bird", "Fish"]


def discriminator_doc(rng: Rng) -> tuple[str, dict]:
    """(input_file_type, document): a oneOf/anyOf of object schemas with a `discriminator` (OpenAPI style), placed under
    definitions (JSON Schema) or components.schemas (OpenAPI); with / without `mapping`; the discriminating property is
    declared as const / one-value enum / plain string, or missing in a variant"""
    prop = rng.choice(DISCRIMINATOR_PROPS)
    variants = rng.sample(VARIANTS, rng.range(2, 4))
    openapi = rng.chance(1, 2)
    prefix = "#/components/schemas/" if openapi else "#/definitions/"
    schemas: dict = {}
    for v in variants:
        how = rng.below(4)
        props: dict = {}
        if how == 0:
            props[prop] = {"const": v.lower()} if not openapi else {"type": "string", "enum": [v.lower()]}
        elif how == 1:
            props[prop] = {"type": "string", "enum": [v.lower()]}
        elif how == 2:
            props[prop] = {"type": "string"}
        for _ in range(rng.range(1, 3)):
            props[rng.choice(docgen.WORDS)] = docgen._scalar(rng)
        schemas[v] = {"type": "object", "properties": props, "required": [prop] if prop in props and rng.chance(2, 3) else []}
        if not schemas[v]["required"]:
            del schemas[v]["required"]
    disc: dict = {"propertyName": prop}
    if rng.chance(1, 2):
        disc["mapping"] = {v.lower(): prefix + v for v in variants}
    union = {rng.choice(["oneOf", "anyOf"]): [{"$ref": prefix + v} for v in variants], "discriminator": disc}
    holder_props = {"pet": union}
    if rng.chance(1, 3):
        holder_props["pets"] = {"type": "array", "items": json.loads(json.dumps(union))}
    schemas["Owner"] = {"type": "object", "properties": holder_props}
    if rng.chance(1, 3):
        schemas["AnyPet"] = json.loads(json.dumps(union))
    if openapi:
        return "openapi", {"openapi": "3.0.3", "info": {"title": "t", "version": "1"}, "paths": {}, "components": {"schemas": schemas}}
    return "jsonschema", {"$schema": "http://json-schema.org/draft-07/schema#", "title": "Root", "type": "object",
                          "properties": {"owner": {"$ref": "#/definitions/Owner"}}, "definitions": schemas}


def discriminator_doc_openapi(rng: Rng) -> dict:
    """an OpenAPI document (for directories whose files are not all of one type)"""
    for _ in range(20):
        ift, doc = discriminator_doc(rng)
        if ift == "openapi":
            return doc
    return {"openapi": "3.0.3", "info": {"title": "t", "version": "1"}, "paths": {}, "components": {"schemas": {"Thing": {"type": "object", "properties": {"n": {"type": "integer"}}}}}}


TREE_DIRS = ["a", "b", "zeta", "m/inner", "b/deep", "common", "v1", "v2"]
TREE_STEMS = ["alpha", "beta", "gamma", "delta", "pets", "users", "order", "epsilon", "eta", "theta"]
SHARED_PROPS = ["pet", "owner", "address", "item", "meta"]


def schema_tree(rng: Rng) -> dict[str, str]:
    """relative path → text. At least two sub-directories (some nested), every basename used once, and names that
    collide ACROSS files: inline object properties with the same name and definitions called like the numbered
    variants (`Pet1`, `Owner1`) another file's inline object would get."""
    dirs = rng.sample(TREE_DIRS, rng.range(2, 4))
    stems = rng.sample(TREE_STEMS, rng.range(len(dirs), len(dirs) + 2))
    paths = [f"{dirs[i % len(dirs)]}/{s}.json" for i, s in enumerate(stems)]
    if rng.chance(1, 3):
        paths.append(f"{rng.choice(TREE_STEMS + ['root'])}_top.json")
    shared = rng.sample(SHARED_PROPS, rng.range(1, 2))
    files: dict[str, str] = {}
    for p in paths:
        props: dict = {"id": {"type": "integer"}}
        for sp in shared:
            if rng.chance(3, 4):
                props[sp] = {"type": "object", "properties": {rng.choice(docgen.WORDS): docgen._scalar(rng) for _ in range(rng.range(1, 2))}}
        for _ in range(rng.range(0, 2)):
            props[rng.choice(docgen.WORDS)] = docgen._scalar(rng)
        defs: dict = {}
        if rng.chance(1, 2):
            sp = rng.choice(shared)
            defs[sp.title() + str(rng.range(1, 2))] = {"type": "object", "properties": {"n": {"type": "string"}}}
        if rng.chance(1, 3):
            defs[rng.choice(docgen.WORDS).title()] = docgen._object(rng, [], 1)
        root: dict = {"type": "object", "properties": props}
        if defs:
            root["definitions"] = defs
            if rng.chance(1, 2):
                root["properties"]["d"] = {"$ref": "#/definitions/" + sorted(defs)[0]}
        others = [q for q in paths if q != p]
        if others and rng.chance(1, 3):
            q = rng.choice(others)
            up = "../" * p.count("/")
            root["properties"]["ref_" + q.split("/")[-1].split(".")[0]] = {"$ref": f"{up}{q}"}
        files[p] = json.dumps(root, indent=1)
    return files
