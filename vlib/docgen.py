"""Seeded generators of whole input documents (JSON Schema, multi-file schema directories, GraphQL SDL)
for the process-level properties (C08, C19). Every choice comes from the Rng passed in."""
from __future__ import annotations

import json

from .common import Rng

FORMATS = ["date", "date-time", "time", "uuid", "email", "uri", "ipv4", "ipv6", "decimal", "binary", "password", "hostname", "duration", "path"]
WORDS = ["user", "order", "item", "pet", "tag", "name", "value", "kind", "id", "Address", "lineItem", "created_at", "zip-code", "type", "class", "Config", "data", "meta", "list", "status"]
ENUMS = [["a", "b"], ["red", "green", "blue"], ["1", "2"], ["on", "off", ""], ["x y", "x-y"], [1, 2, 3], ["only"]]


def _scalar(rng: Rng) -> dict:
    t = rng.choice(["string", "string", "integer", "number", "boolean", "fmt", "fmt", "enum", "const", "null"])
    if t == "fmt":
        return {"type": "string", "format": rng.choice(FORMATS)}
    if t == "enum":
        vals = rng.choice(ENUMS)
        return {"enum": vals, **({"type": "string"} if isinstance(vals[0], str) else {"type": "integer"})}
    if t == "const":
        return {"const": rng.choice(["c", 1, "k v"])}
    s: dict = {"type": t}
    if t == "string" and rng.chance(1, 3):
        s.update(rng.choice([{"minLength": 1}, {"maxLength": 9}, {"pattern": "^[a-z]+$"}]))
    if t in ("integer", "number") and rng.chance(1, 3):
        s.update(rng.choice([{"minimum": 0}, {"exclusiveMaximum": 10}, {"multipleOf": 2}, {"minimum": 1, "maximum": 5}]))
    return s


def _schema(rng: Rng, names: list[str], depth: int, ref_prefix: str = "#/definitions/") -> dict:
    r = rng.below(12)
    if depth <= 0 or r < 4:
        return _scalar(rng)
    if r < 6 and names:
        return {"$ref": ref_prefix + rng.choice(names)}
    if r == 6:
        s = {"type": "array", "items": _schema(rng, names, depth - 1, ref_prefix)}
        if rng.chance(1, 3):
            s["uniqueItems"] = True
        return s
    if r == 7:
        return {rng.choice(["oneOf", "anyOf"]): [_schema(rng, names, depth - 1, ref_prefix) for _ in range(rng.range(2, 3))]}
    if r == 8:
        return {"type": "object", "additionalProperties": _schema(rng, names, depth - 1, ref_prefix)}
    if r == 9:
        return {"type": [rng.choice(["string", "integer", "number"]), "null"]}
    if r == 10 and names:
        return {"allOf": [{"$ref": ref_prefix + rng.choice(names)}, _object(rng, names, depth - 1, ref_prefix)]}
    return _object(rng, names, depth - 1, ref_prefix)


def _object(rng: Rng, names: list[str], depth: int, ref_prefix: str = "#/definitions/") -> dict:
    props = {}
    for _ in range(rng.range(1, 5)):
        key = rng.choice(WORDS) + (str(rng.below(3)) if rng.chance(1, 3) else "")
        sub = _schema(rng, names, depth, ref_prefix)
        if rng.chance(1, 4) and "$ref" not in sub:
            sub["description"] = "about " + key
        if rng.chance(1, 5) and sub.get("type") == "string" and "format" not in sub and "enum" not in sub:
            sub["default"] = "dflt"
        props[key] = sub
    req = [k for k in props if rng.chance(1, 2)]
    o: dict = {"type": "object", "properties": props}
    if req:
        o["required"] = req
    if rng.chance(1, 6):
        o["additionalProperties"] = rng.chance(1, 2)
    if rng.chance(1, 5):
        o["title"] = rng.choice(WORDS).title() + "Title"
    return o


def json_schema(rng: Rng, n_defs: int | None = None) -> dict:
    n = n_defs if n_defs is not None else rng.range(2, 7)
    names = []
    for i in range(n):
        w = rng.choice(WORDS)
        nm = w[0].upper() + w[1:] + (str(i) if rng.chance(1, 2) or any(x.lower() == w.lower() for x in names) else "")
        names.append(nm)
    defs = {}
    for nm in names:
        defs[nm] = _object(rng, names, 2) if rng.chance(3, 4) else _schema(rng, names, 2)
    root = _object(rng, names, 2)
    root["title"] = "Root"
    root["definitions"] = defs
    if rng.chance(1, 3):
        # sections outside `definitions`: their members are only reached through "reserved" JSON pointers, parsed in a
        # second phase whose order is decided by a set of pointer strings; equal member names make the order visible
        pool = rng.sample(names, min(len(names), 2)) + rng.sample(["Shared", "Common", "Extra", "Zeta", "Alpha"], 3)
        for sec in rng.sample(["shared", "x-parts", "components"], rng.range(1, 2)):
            members = rng.sample(pool, rng.range(2, 4))
            root[sec] = {m: _object(rng, names, 1) for m in members}
            for m in members:
                holder = root if rng.chance(1, 2) else defs[rng.choice(names)]
                if isinstance(holder.get("properties"), dict):
                    holder["properties"][f"via_{sec.replace('-', '_')}_{m.lower()}"] = {"$ref": f"#/{sec}/{m}"}
    root["$schema"] = "http://json-schema.org/draft-07/schema#"
    return root


# property NAME → a schema whose generated type (or a typing helper it needs) is imported under exactly that name
SHADOW = {
    "date": {"type": "string", "format": "date"},
    "datetime": {"type": "string", "format": "date-time"},
    "time": {"type": "string", "format": "time"},
    "timedelta": {"type": "string", "format": "duration"},
    "UUID": {"type": "string", "format": "uuid"},
    "Decimal": {"type": "string", "format": "decimal"},
    "Path": {"type": "string", "format": "path"},
    "IPv4Address": {"type": "string", "format": "ipv4"},
    "IPv6Address": {"type": "string", "format": "ipv6"},
    "AnyUrl": {"type": "string", "format": "uri"},
    "EmailStr": {"type": "string", "format": "email"},
    "SecretStr": {"type": "string", "format": "password"},
    "Any": {},
    "Dict": {"type": "object", "additionalProperties": {"type": "string"}},
    "List": {"type": "array", "items": {"type": "integer"}},
    "Optional": {"type": "string"},
    "Union": {"oneOf": [{"type": "integer"}, {"type": "string"}]},
    "Literal": {"const": "x"},
    "constr": {"type": "string", "pattern": "^a+$"},
    "conint": {"type": "integer", "minimum": 1},
    "Field": {"type": "integer", "description": "d"},
    "Enum": {"type": "string", "enum": ["a", "b"]},
    "Annotated": {"type": "integer", "minimum": 0},
    "Set": {"type": "array", "items": {"type": "string"}, "uniqueItems": True},
}


def json_schema_shadow(rng: Rng, k: int | None = None) -> dict:
    """a document whose property names EQUAL the names under which their types are imported (`date: date`, `UUID: UUID`, …):
    this is what makes the generator alias the import (`from datetime import date as date_aliased`)"""
    names = rng.sample(sorted(SHADOW), k or rng.range(2, 6))
    props = {n: dict(SHADOW[n]) for n in names}
    return {"title": "Shadow", "type": "object", "properties": props, "required": [n for n in names if rng.chance(1, 2)]}


def json_schema_plain_types(rng: Rng, k: int | None = None) -> dict:
    """the same types under ordinary property names: the observer for anything an earlier run left in shared objects"""
    names = rng.sample(sorted(SHADOW), k or rng.range(4, 9))
    props = {f"p_{i}_{n.lower()}": dict(SHADOW[n]) for i, n in enumerate(names)}
    return {"title": "Plain", "type": "object", "properties": props, "required": [p for p in props if rng.chance(1, 2)]}


def schema_dir(rng: Rng) -> dict[str, str]:
    """relative path → text of a directory input: several schema files, cross-file $refs, sub-directories,
    and (sometimes) two files with the same basename in different directories"""
    n = rng.range(2, 5)
    stems = rng.sample(["alpha", "beta", "gamma", "delta", "pets", "users", "Order", "common"], n)
    paths = []
    for i, s in enumerate(stems):
        sub = rng.choice(["", "", "sub/", "other/"]) if i else ""
        paths.append(f"{sub}{s}.json")
    if rng.chance(1, 3):
        paths.append(("sub/" if not paths[0].startswith("sub/") else "other/") + paths[0].split("/")[-1])
    files: dict[str, str] = {}
    defnames: dict[str, list[str]] = {}
    for p in paths:
        k = rng.range(1, 3)
        defnames[p] = [rng.choice(WORDS).title() + str(j) for j in range(k)]
    for p in paths:
        names = defnames[p]
        defs = {nm: _object(rng, names, 1) for nm in names}
        root = _object(rng, names, 1)
        # cross-file references
        others = [q for q in paths if q != p]
        for _ in range(rng.range(0, 2)):
            q = rng.choice(others) if others else None
            if q:
                up = "../" * p.count("/")
                root["properties"]["ref_" + q.split("/")[-1].split(".")[0].lower() + str(rng.below(2))] = {
                    "$ref": f"{up}{q}#/definitions/{rng.choice(defnames[q])}"
                }
        root["definitions"] = defs
        files[p] = json.dumps(root, indent=1)
    return files


GQL_SCALARS = ["String", "Int", "Float", "Boolean", "ID"]


def graphql_sdl(rng: Rng) -> str:
    n = rng.range(2, 5)
    types = [f"{rng.choice(['User', 'Pet', 'Order', 'Item', 'Tag'])}{i}" for i in range(n)]
    inputs = {t for t in types[1:] if rng.chance(1, 6)}
    out_types = [t for t in types if t not in inputs]
    enums = [f"Color{i}" for i in range(rng.range(0, 2))]
    customs = [f"Date{i}" for i in range(rng.range(0, 2))]
    out = []
    for s in customs:
        out.append(f"scalar {s}\n")
    for e in enums:
        out.append(f"enum {e} {{\n  RED\n  GREEN\n  BLUE\n}}\n")

    def ty() -> str:
        base = rng.choice(GQL_SCALARS + out_types + enums + customs)
        r = rng.below(6)
        if r == 0:
            return f"[{base}]"
        if r == 1:
            return f"[{base}!]!"
        if r == 2:
            return f"{base}!"
        return base

    if rng.chance(1, 2):
        out.append("interface Node {\n  id: ID!\n}\n")
        iface = True
    else:
        iface = False
    for i, t in enumerate(types):
        fields = "\n".join(f"  {rng.choice(['name', 'age', 'owner', 'tags', 'kind', 'friend'])}{j}: {ty()}" for j in range(rng.range(1, 4)))
        impl = " implements Node" if iface and t not in inputs and rng.chance(1, 2) else ""
        idf = "  id: ID!\n" if impl else ""
        kw = "input" if t in inputs else "type"
        if kw == "input":
            impl, idf = "", ""
            fields = "\n".join(f"  f{j}: {rng.choice(GQL_SCALARS)}" for j in range(rng.range(1, 3)))
        out.append(f"{kw} {t}{impl} {{\n{idf}{fields}\n}}\n")
    objs = [t for t, src in zip(types, out[-len(types):]) if src.startswith("type ")]
    if len(objs) >= 2 and rng.chance(2, 3):
        out.append(f"union SearchResult = {' | '.join(objs[:3])}\n")
    out.append("type Query {\n  " + "\n  ".join(f"q{j}: {ty()}" for j in range(rng.range(1, 2))) + "\n}\n")
    return "\n".join(out)
