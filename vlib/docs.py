"""Seeded generator of input documents inside the documented feature set
(docs/supported-data-types.md), with an optional adversarial stream for names and text."""
from __future__ import annotations

from typing import Any

from . import gens
from .common import Rng

FORMATS = ["date", "date-time", "time", "password", "email", "uuid", "ipv4", "ipv6", "hostname", "uri", "path", "decimal", "uuid4"]
CLEAN_NAMES = ["id", "name", "tags", "owner", "pet", "Pet", "kind", "value", "items", "count", "createdAt", "user_name", "address", "zip", "x", "y", "data", "parent", "children", "meta"]
NASTY_NAMES = ["", "class", "3a", "$in", "a b", "a-b", "_x", "__root__", "model_config", "schema", "copy", "json", "é", "日本", "a⁰", "½", "①x", "ำa", "mro", "None", "a.b", "a/b", "#x", "a'b", 'a"b', "a\\b", "a\nb", "ｘ", "x", "X", "field", "fields", "self", "__init__", "dict"]


class DocGen:
    def __init__(self, rng: Rng, adversarial: bool = False, max_defs: int = 4) -> None:
        self.rng = rng
        self.adv = adversarial
        self.max_defs = max_defs
        self.features: set[str] = set()

    # ---- text and names
    def name(self) -> str:
        r = self.rng
        if self.adv and r.chance(1, 3):
            return r.choice(NASTY_NAMES) if r.chance(2, 3) else gens.adversarial(r, 3)
        return r.choice(CLEAN_NAMES)

    def text(self) -> str:
        r = self.rng
        if self.adv and r.chance(1, 2):
            return gens.adversarial(r, 5)
        return r.choice(["A pet.", "The owner's name", "count of items", "see docs", "x"])

    # ---- schemas
    def scalar(self) -> dict[str, Any]:
        r = self.rng
        k = r.below(8)
        if k == 0:
            s: dict[str, Any] = {"type": "string"}
            if r.chance(1, 3):
                s["minLength"] = r.range(0, 3)
                self.features.add("minLength")
            if r.chance(1, 3):
                s["maxLength"] = r.range(3, 9)
                self.features.add("maxLength")
            if r.chance(1, 4):
                s["pattern"] = r.choice(["^[a-z]+$", "^\\d{3}$", "^a.c$"]) if not self.adv or r.chance(1, 2) else gens.adversarial(r, 4)
                self.features.add("pattern")
            return s
        if k == 1:
            self.features.add("format")
            return {"type": "string", "format": r.choice(FORMATS)}
        if k in (2, 3):
            t = r.choice(["integer", "number"])
            s = {"type": t}
            if r.chance(1, 3):
                s["minimum"] = r.range(-5, 5)
                self.features.add("minimum")
            if r.chance(1, 3):
                s["maximum"] = r.range(6, 20)
                self.features.add("maximum")
            if r.chance(1, 6):
                s["exclusiveMinimum"] = r.range(-9, 0)
                self.features.add("exclusiveMinimum")
            if r.chance(1, 6):
                s["multipleOf"] = r.choice([1, 2, 5])
                self.features.add("multipleOf")
            return s
        if k == 4:
            return {"type": "boolean"}
        if k == 5:
            self.features.add("enum")
            if r.chance(1, 3):
                return {"type": "integer", "enum": r.sample([1, 2, 3, 5, 8], r.range(1, 3))}
            vals = [self.enum_value() for _ in range(r.range(1, 4))]
            vals = list(dict.fromkeys(vals))
            return {"type": "string", "enum": vals}
        if k == 6:
            self.features.add("nullable_type_list")
            return {"type": [r.choice(["string", "integer", "number", "boolean"]), "null"]}
        self.features.add("const")
        return {"const": r.choice(["fixed", 1, True]) if not self.adv else self.text()}

    def enum_value(self) -> str:
        r = self.rng
        if self.adv and r.chance(1, 2):
            return gens.adversarial(r, 3)
        return r.choice(["red", "green", "blue", "RED", "a b", "1st", "mro", "none"])

    def schema(self, depth: int, defs: list[str]) -> dict[str, Any]:
        r = self.rng
        k = r.below(12)
        if depth <= 0 or k < 5:
            s = self.scalar()
        elif k == 5 and defs:
            self.features.add("$ref")
            return {"$ref": "#/definitions/" + r.choice(defs)}
        elif k == 6:
            self.features.add("array")
            s = {"type": "array", "items": self.schema(depth - 1, defs)}
            if r.chance(1, 3):
                s["minItems"] = r.range(0, 2)
                self.features.add("minItems")
            if r.chance(1, 4):
                s["maxItems"] = r.range(2, 5)
                self.features.add("maxItems")
        elif k == 7:
            self.features.add("nested_object")
            s = self.obj(depth - 1, defs)
        elif k == 8:
            self.features.add("anyOf")
            s = {r.choice(["anyOf", "oneOf"]): [self.schema(depth - 1, defs) for _ in range(r.range(2, 3))]}
        elif k == 9:
            self.features.add("additionalProperties_schema")
            s = {"type": "object", "additionalProperties": self.schema(depth - 1, defs)}
        elif k == 10 and defs:
            self.features.add("array_of_ref")
            s = {"type": "array", "items": {"$ref": "#/definitions/" + r.choice(defs)}}
        else:
            s = self.scalar()
        if r.chance(1, 4):
            s["description"] = self.text()
        if r.chance(1, 8):
            s["title"] = self.text() if self.adv else r.choice(["Title", "My Thing"])
        return s

    def obj(self, depth: int, defs: list[str]) -> dict[str, Any]:
        r = self.rng
        props: dict[str, Any] = {}
        for _ in range(r.range(0 if self.adv else 1, 4)):
            props[self.name()] = self.schema(depth, defs)
        o: dict[str, Any] = {"type": "object", "properties": props}
        req = [p for p in props if r.chance(1, 2)]
        if req:
            o["required"] = req
        for p, sch in props.items():
            if p not in req and "type" in sch and isinstance(sch["type"], str) and r.chance(1, 4) and "$ref" not in sch:
                d = self.default_for(sch)
                if d is not None:
                    sch["default"] = d
                    self.features.add("default")
        if r.chance(1, 5):
            o["additionalProperties"] = r.chance(1, 2)
            self.features.add("additionalProperties_bool")
        if r.chance(1, 3):
            o["description"] = self.text()
        return o

    def default_for(self, sch: dict[str, Any]) -> Any:
        r = self.rng
        t = sch.get("type")
        if "enum" in sch:
            return sch["enum"][0]
        if "format" in sch:
            return None
        if t == "string":
            if any(k in sch for k in ("pattern", "minLength", "maxLength")):
                return None
            return self.text()
        if t == "integer":
            return r.range(6, 6) if "minimum" in sch or "maximum" in sch or "multipleOf" in sch or "exclusiveMinimum" in sch else r.range(0, 9)
        if t == "number":
            return None
        if t == "boolean":
            return r.chance(1, 2)
        if t == "array":
            return []
        return None

    def document(self) -> dict[str, Any]:
        r = self.rng
        n = r.range(1, self.max_defs)
        names: list[str] = []
        pool = ["Pet", "Owner", "Tag", "Order", "Item", "Node", "Error", "pet", "Pets", "User"]
        if self.adv:
            pool = pool + ["Pet_", "Pets-item", "a.b", "class", "3D", "é", "None", "Model"]
        while len(names) < n:
            c = r.choice(pool)
            if c not in names:
                names.append(c)
        defs: dict[str, Any] = {}
        for nm in names:
            k = r.below(10)
            if k < 6:
                defs[nm] = self.obj(2, names)
            elif k == 6 and len(names) > 1:
                base = r.choice([x for x in names if x != nm])
                self.features.add("allOf")
                defs[nm] = {"allOf": [{"$ref": "#/definitions/" + base}, self.obj(1, names)]}
            elif k == 7:
                defs[nm] = self.scalar()
            elif k == 8:
                self.features.add("root_array")
                defs[nm] = {"type": "array", "items": self.schema(1, names)}
            else:
                defs[nm] = self.obj(1, names)
        # break inheritance cycles (they are refused with an error by design)
        bases = {k: v["allOf"][0]["$ref"].rsplit("/", 1)[1] for k, v in defs.items() if "allOf" in v}
        for k in list(bases):
            seen, cur = {k}, bases.get(k)
            while cur in bases:
                if cur in seen:
                    defs[k] = defs[k]["allOf"][1]
                    del bases[k]
                    break
                seen.add(cur)
                cur = bases.get(cur)
        root = self.obj(2, names)
        root["title"] = "Root"
        root["definitions"] = defs
        return root


def to_openapi(doc: dict[str, Any]) -> dict[str, Any]:
    """The same set of schemas as an OpenAPI 3 document (refs rewritten)."""
    import json

    defs = doc.get("definitions", {})
    schemas = dict(defs)
    root = {k: v for k, v in doc.items() if k != "definitions"}
    schemas["Root"] = root
    text = json.dumps({"openapi": "3.0.0", "info": {"title": "t", "version": "1"}, "paths": {}, "components": {"schemas": schemas}})
    return json.loads(text.replace("#/definitions/", "#/components/schemas/"))
