"""Lean side of a check: regenerate Gen files, build, audit axioms, talk to the model driver."""
from __future__ import annotations

import contextlib
import fcntl
import json
import os
import re
import subprocess
import time
from dataclasses import dataclass, field
from pathlib import Path

from .common import LEAN

ALLOWED_AXIOMS = {"propext", "Classical.choice", "Quot.sound"}
FORBIDDEN = re.compile(
    r"\b(sorry|admit|native_decide|bv_decide|implemented_by|unsafe)\b|^\s*axiom\s|maxHeartbeats\s+0\b",
    re.M,
)
ENV = dict(os.environ, LAKE_NO_CACHE="1")


@contextlib.contextmanager
def build_lock():
    """Checks may run concurrently; translate+build is serialised."""
    lock_path = LEAN / ".build.lock"
    with open(lock_path, "w") as fh:
        fcntl.flock(fh, fcntl.LOCK_EX)
        try:
            yield
        finally:
            fcntl.flock(fh, fcntl.LOCK_UN)


def write_if_changed(path: Path, content: str) -> bool:
    path.parent.mkdir(parents=True, exist_ok=True)
    if path.exists() and path.read_text() == content:
        return False
    tmp = path.with_suffix(path.suffix + ".tmp")
    tmp.write_text(content)
    tmp.replace(path)
    return True


def write_gen(name: str, content: str) -> bool:
    header = "-- GENERATED from /repo by /verif/vlib/translate on every run. Do not edit.\n"
    return write_if_changed(LEAN / "Dcg" / "Gen" / f"{name}.lean", header + content)


def lean_str(s: str) -> str:
    """A Lean `List Char` literal for an arbitrary Python string (scalar values only)."""
    return "[" + ", ".join(f"Char.ofNat {ord(c)}" for c in s) + "]"


def lean_string(s: str) -> str:
    """A Lean `String` literal (escaped)."""
    out = []
    for c in s:
        o = ord(c)
        if c == "\\":
            out.append("\\\\")
        elif c == '"':
            out.append('\\"')
        elif c == "\n":
            out.append("\\n")
        elif c == "\t":
            out.append("\\t")
        elif c == "\r":
            out.append("\\r")
        elif o < 32 or o == 127:
            out.append("\\x%02x" % o)
        else:
            out.append(c)
    return '"' + "".join(out) + '"'


def strip_comments(src: str) -> str:
    """Remove Lean comments (nested block comments, line comments) and string literals' content is kept."""
    out = []
    i, n, depth = 0, len(src), 0
    in_str = False
    while i < n:
        two = src[i : i + 2]
        if depth == 0 and not in_str and src[i] == '"':
            in_str = True
            out.append(src[i])
            i += 1
        elif in_str:
            if src[i] == "\\" and i + 1 < n:
                out.append(src[i : i + 2])
                i += 2
                continue
            if src[i] == '"':
                in_str = False
            out.append(src[i])
            i += 1
        elif two == "/-":
            depth += 1
            i += 2
        elif two == "-/" and depth > 0:
            depth -= 1
            i += 2
        elif depth > 0:
            if src[i] == "\n":
                out.append("\n")
            i += 1
        elif two == "--":
            while i < n and src[i] != "\n":
                i += 1
        else:
            out.append(src[i])
            i += 1
    return "".join(out)


THEOREM_RE = re.compile(r"^(?:@\[[^\]]*\]\s*)?(?:private\s+|protected\s+)?theorem\s+([A-Za-z_][\w'.]*)", re.M)
NAMESPACE_RE = re.compile(r"^namespace\s+(\S+)", re.M)


@dataclass
class Theorem:
    name: str  # fully qualified
    short: str
    line: int
    end_line: int = 0


def theorems_of(path: Path) -> list[Theorem]:
    src = strip_comments(path.read_text())
    ns = NAMESPACE_RE.search(src)
    prefix = ns.group(1) + "." if ns else ""
    found = []
    for m in THEOREM_RE.finditer(src):
        line = src.count("\n", 0, m.start()) + 1
        found.append(Theorem(prefix + m.group(1), m.group(1), line))
    total = src.count("\n") + 1
    for i, t in enumerate(found):
        t.end_line = (found[i + 1].line - 1) if i + 1 < len(found) else total
    return found


def imports_closure(module: str) -> list[Path]:
    """All files of the Dcg package reachable from `module` through imports."""
    seen: dict[str, Path] = {}
    todo = [module]
    while todo:
        m = todo.pop()
        if m in seen or not m.startswith("Dcg"):
            continue
        p = LEAN / (m.replace(".", "/") + ".lean")
        if not p.exists():
            continue
        seen[m] = p
        for mm in re.finditer(r"^import\s+(\S+)", p.read_text(), re.M):
            todo.append(mm.group(1))
    return list(seen.values())


def forbidden_tokens(files: list[Path]) -> list[str]:
    hits = []
    for p in files:
        src = strip_comments(p.read_text())
        # string literals may mention the words; drop them
        src = re.sub(r'"(?:\\.|[^"\\])*"', '""', src)
        for m in FORBIDDEN.finditer(src):
            line = src.count("\n", 0, m.start()) + 1
            hits.append(f"{p.relative_to(LEAN)}:{line}:{m.group(0).strip()}")
    return hits


@dataclass
class BuildResult:
    ok: bool
    errors: list[tuple[str, int, str]] = field(default_factory=list)  # (file, line, message)
    log: str = ""
    wall_s: float = 0.0


ERR_RE = re.compile(r"^error: (\S+?\.lean):(\d+):(\d+): (.*)$", re.M)


def lake_build(targets: list[str], timeout: int = 1500) -> BuildResult:
    t0 = time.time()
    proc = subprocess.run(
        ["lake", "build", *targets], cwd=LEAN, capture_output=True, text=True, timeout=timeout, env=ENV
    )
    log = proc.stdout + proc.stderr
    errs = [(m.group(1), int(m.group(2)), m.group(4)) for m in ERR_RE.finditer(log)]
    return BuildResult(proc.returncode == 0, errs, log, time.time() - t0)


def lean_run_file(path: Path, timeout: int = 600) -> tuple[int, str]:
    proc = subprocess.run(
        ["lake", "env", "lean", str(path)], cwd=LEAN, capture_output=True, text=True, timeout=timeout, env=ENV
    )
    return proc.returncode, proc.stdout + proc.stderr


AX_RE = re.compile(r"'([^']+)' depends on axioms: \[([^\]]*)\]")
NOAX_RE = re.compile(r"'([^']+)' does not depend on any axioms")


def audit_axioms(prop_id: str, theorems: list[Theorem]) -> dict[str, list[str] | None]:
    """`#print axioms` for every theorem of the property file; None = could not be printed."""
    audit = LEAN / "Dcg" / "Audit" / f"{prop_id}.lean"
    body = [f"import Dcg.Props.{prop_id}", "-- generated by vlib.lean.audit_axioms"]
    body += [f"#print axioms {t.name}" for t in theorems]
    write_if_changed(audit, "\n".join(body) + "\n")
    _, out = lean_run_file(audit)
    out = out.replace("\n  ", " ").replace("\n ", " ")
    res: dict[str, list[str] | None] = {t.name: None for t in theorems}
    for m in AX_RE.finditer(out):
        res[m.group(1)] = [a.strip() for a in m.group(2).split(",") if a.strip()]
    for m in NOAX_RE.finditer(out):
        res[m.group(1)] = []
    return res


def leanchecker(modules: list[str], timeout: int = 1800) -> tuple[bool, str]:
    proc = subprocess.run(
        ["lake", "env", "leanchecker", *modules], cwd=LEAN, capture_output=True, text=True, timeout=timeout, env=ENV
    )
    return proc.returncode == 0, (proc.stdout + proc.stderr)[-2000:]


class Driver:
    """Line protocol to the executable model (`Main.lean`). Batch: all requests in, all replies out."""

    def __init__(self) -> None:
        self.wall_s = 0.0
        self.lines = 0

    def run(self, requests: list[str], timeout: int = 900) -> list[str]:
        if not requests:
            return []
        t0 = time.time()
        data = "\n".join(requests) + "\n"
        exe = LEAN / ".lake" / "build" / "bin" / "dcgdriver"
        cmd = [str(exe)] if exe.exists() else ["lake", "env", "lean", "--run", "Main.lean"]
        proc = subprocess.run(cmd, cwd=LEAN, input=data, capture_output=True, text=True, timeout=timeout, env=ENV)
        self.wall_s += time.time() - t0
        out = proc.stdout.split("\n")
        if out and out[-1] == "":
            out.pop()
        if proc.returncode != 0 or len(out) != len(requests):
            raise RuntimeError(
                f"model driver failed (rc={proc.returncode}, {len(out)} replies for {len(requests)} requests): "
                + proc.stderr[-1500:]
            )
        self.lines += len(requests)
        return out


def jarg(obj) -> str:
    """Structured argument: one-line JSON (callers put strings in hex form themselves)."""
    return json.dumps(obj, separators=(",", ":"), ensure_ascii=True)
