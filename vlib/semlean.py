"""Bridge between JSON-Schema documents / JSON values / the real parser's IR and the Lean semantic
model (Dcg/Sem, Dcg/Model/Translate) over the S-expression line protocol (new shared file for
C03 / C04 / C14).

* `schema_sx(doc, s)`  JSON-Schema dict → S-expression of `Dcg.Sem.Schema` (None = outside the modelled subset)
* `json_sx(v)`         JSON value → S-expression of `Dcg.Sem.Json`
* `regex_sx(...)`      the regular-expression oracle as a finite table (computed with Python `re.search`)
* `parse_sx(text)`     reply → nested lists
* `real_ir(doc, style, routing)`  IR dump of `JsonSchemaParser(...).parse_raw()` in the shape `sem.tr` prints
"""
from __future__ import annotations

import ast
import json
import re
import warnings
from decimal import Decimal
from typing import Any

from .common import hx, unhx

SCALARS = ("integer", "number", "string", "boolean")


class Unmodelled(Exception):
    pass


# ------------------------------------------------------------------ encoders
def dec(x) -> tuple[int, int]:
    if isinstance(x, bool):
        raise Unmodelled("bool as number")
    if isinstance(x, int):
        return x, 0
    d = Decimal(repr(x))
    sign, digits, exp = d.as_tuple()
    m = int("".join(map(str, digits))) * (-1 if sign else 1)
    if exp >= 0:
        return m * 10**exp, 0
    # strip trailing zeros of the fraction
    e = -exp
    while e > 0 and m % 10 == 0:
        m //= 10
        e -= 1
    return m, e


def json_sx(v: Any) -> str:
    if v is None:
        return "null"
    if isinstance(v, bool):
        return f"(b {1 if v else 0})"
    if isinstance(v, (int, float)):
        m, e = dec(v)
        return f"(n {m} {e})"
    if isinstance(v, str):
        return f"(s {hx(v)})"
    if isinstance(v, list):
        return "(a" + "".join(" " + json_sx(x) for x in v) + ")"
    if isinstance(v, dict):
        return "(o" + "".join(f" ({hx(k)} {json_sx(x)})" for k, x in v.items()) + ")"
    raise Unmodelled(f"json {type(v)}")


def atom_sx(a: Any) -> str:
    if isinstance(a, str):
        return f"(s {hx(a)})"
    if isinstance(a, int) and not isinstance(a, bool):
        return f"(i {a})"
    raise Unmodelled(f"atom {a!r}")


def normalise_exclusive(s: dict) -> dict:
    """`validate_exclusive_maximum_and_exclusive_minimum` (mirrors Model.Constraints.normaliseSide,
    which is compared with the real validator by C04)"""
    s = dict(s)
    for incl, excl in (("minimum", "exclusiveMinimum"), ("maximum", "exclusiveMaximum")):
        e = s.get(excl)
        if e is True:
            if incl not in s:
                raise Unmodelled("draft-4 flag without its bound (the generator raises)")
            s[excl] = s.pop(incl)
        elif e is False:
            del s[excl]
    return s


def bounds_sx(s: dict) -> str:
    s = normalise_exclusive(s)
    parts = []
    for k, tag in (("minimum", "min"), ("maximum", "max"), ("exclusiveMinimum", "xmin"), ("exclusiveMaximum", "xmax"), ("multipleOf", "mul")):
        if s.get(k) is not None:
            m, e = dec(s[k])
            parts.append(f"({tag} {m} {e})")
    for k, tag in (("minLength", "minlen"), ("maxLength", "maxlen")):
        if s.get(k) is not None:
            parts.append(f"({tag} {int(s[k])})")
    if s.get("pattern") is not None:
        parts.append(f"(pat {hx(s['pattern'])})")
    return "(bounds" + "".join(" " + p for p in parts) + ")"


KNOWN_KEYS = {
    "allOf",
    "type", "title", "properties", "required", "additionalProperties", "items", "enum", "const", "$ref", "anyOf", "oneOf",
    "minimum", "maximum", "exclusiveMinimum", "exclusiveMaximum", "multipleOf", "minLength", "maxLength", "pattern",
    "minItems", "maxItems", "definitions", "x-draft4", "discriminator",
}


def sib_union_sx(u: dict) -> tuple[str, str]:
    """a combination with validation keywords NEXT TO `anyOf` / `oneOf` → (`(bounds …)` of the sibling keywords, the
    combination of the members as written). The modelled shape (Dcg/Model/Siblings.lean): inline scalar members
    `{"type": T, own keywords}`, `{"type": "null"}` and local `$ref` members. Lean merges the keywords into the
    members (`distribute` / `trSib`); nothing is merged here."""
    key = "anyOf" if "anyOf" in u else "oneOf"
    sib = {k: v for k, v in u.items() if k not in (key, "title")}
    if not sib or set(sib) - {"minimum", "maximum", "exclusiveMinimum", "exclusiveMaximum", "multipleOf", "minLength", "maxLength", "pattern"}:
        raise Unmodelled("sibling keywords outside the scalar constraint keywords")
    if any(isinstance(v, bool) for v in sib.values()):
        raise Unmodelled("draft-4 flags next to a combination")
    parts = []
    for m in u[key]:
        if not isinstance(m, dict):
            raise Unmodelled("boolean member")
        if "$ref" in m or m.get("type") == "null" and set(m) == {"type"}:
            parts.append(schema_sx(m))
        elif m.get("type") in SCALARS and not (set(m) - {"type", "minimum", "maximum", "exclusiveMinimum", "exclusiveMaximum", "multipleOf", "minLength", "maxLength", "pattern"}):
            parts.append(schema_sx(m))
        else:
            raise Unmodelled("member of a combination with sibling keywords outside the modelled shape")
    return bounds_sx(sib), f"({key} {' '.join(parts)})"


def schema_sx(s: Any, top: bool = False) -> str:
    """S-expression of the Lean `Schema` for JSON-Schema node `s`; raises Unmodelled outside the subset.
    `top`: the node is a whole document / definition (an object without properties is then an empty
    class, not `Dict[str, Any]`)."""
    if s is True or s == {}:
        return "any"
    if not isinstance(s, dict):
        raise Unmodelled("boolean false schema")
    extra = set(s) - KNOWN_KEYS
    if extra:
        raise Unmodelled(f"keywords {sorted(extra)}")
    if "$ref" in s:
        if len([k for k in s if k not in ("$ref", "title")]) > 0:
            raise Unmodelled("$ref with siblings")
        ref = s["$ref"]
        if not ref.startswith("#/definitions/"):
            raise Unmodelled("non-local ref")
        return f"(ref {hx(ref.rsplit('/', 1)[1])})"
    if "allOf" in s:
        # shape modelled: $ref parts (to object definitions), at most one inline object without
        # additionalProperties, at most one bare {"required": [...]}
        if set(s) - {"allOf", "title", "definitions", "x-draft4"}:
            raise Unmodelled("allOf with sibling keywords")
        # `_parse_all_of_item` walks the members depth first: a `$ref` member is a base class, an inline member gives
        # its own fields (its `required` marks THOSE fields) and is then searched for a nested `allOf`; a member
        # without fields contributes its `required` to the allOf-level list. So nested `allOf`s (with or without
        # sibling `properties`) flatten — in that order — into the one shape the Lean `Schema.allOf` has. The
        # flattening is done here (bridge); `sem.tr` / `sem.valid` / `sem.accepts` compare its result with the real
        # parser, jsonschema and the exec'd classes. A nested oneOf / anyOf is outside the model.
        refs, props, req, xreq = [], {}, [], []

        def walk(parts: list) -> None:
            for part in parts:
                if not isinstance(part, dict):
                    raise Unmodelled("allOf part outside the modelled shape")
                if set(part) == {"$ref"}:
                    if not part["$ref"].startswith("#/definitions/"):
                        raise Unmodelled("non-local ref")
                    refs.append(part["$ref"].rsplit("/", 1)[1])
                    continue
                if set(part) & {"oneOf", "anyOf"}:
                    raise Unmodelled("allOf part with a nested oneOf/anyOf")
                if set(part) - {"type", "properties", "required", "allOf"} or part.get("type") not in (None, "object"):
                    raise Unmodelled("allOf part outside the modelled shape")
                own = part.get("properties") or {}
                if own:
                    if set(own) & set(props):
                        raise Unmodelled("allOf parts declaring the same member")
                    if set(part.get("required", [])) - set(own):
                        raise Unmodelled("allOf part whose required names a member of another part")
                    props.update(own)
                    req.extend(part.get("required", []))
                elif part.get("required"):
                    xreq.extend(part["required"])
                if "allOf" in part:
                    walk(part["allOf"])

        walk(s["allOf"])
        if not refs:
            raise Unmodelled("allOf without $ref part")
        ps = " ".join(f"({hx(k)} {schema_sx(v)})" for k, v in props.items())
        return f"(allOf ({' '.join(hx(r) for r in refs)}) ({ps}) ({' '.join(hx(k) for k in req)}) ({' '.join(hx(k) for k in xreq)}))"
    if "discriminator" in s:
        return disc_sx(s)
    if "anyOf" in s or "oneOf" in s:
        key = "anyOf" if "anyOf" in s else "oneOf"
        if set(s) - {key, "title", "definitions", "x-draft4"}:
            raise Unmodelled("union with sibling keywords")
        if any(isinstance(a, dict) and "discriminator" in a for a in s[key]):
            raise Unmodelled("discriminated union nested in a union")
        return f"({key}" + "".join(" " + schema_sx(a) for a in s[key]) + ")"
    if "const" in s:
        if set(s) - {"const", "title"}:
            raise Unmodelled("const with siblings")
        return f"(const {atom_sx(s['const'])})"
    if "enum" in s:
        if set(s) - {"enum", "type", "title"}:
            raise Unmodelled("enum with siblings")
        if not s["enum"]:
            raise Unmodelled("empty enum")
        return "(enum" + "".join(" " + atom_sx(a) for a in s["enum"]) + ")"
    t = s.get("type")
    nullable = False
    if isinstance(t, list):
        if len(t) == 2 and "null" in t:
            nullable = True
            t = [x for x in t if x != "null"][0]
        elif len(t) == 1:
            t = t[0]
        else:
            raise Unmodelled("type list")
    if t is None and "properties" in s:
        t = "object"
    if t is None:
        if set(s) - {"title", "definitions", "x-draft4"}:
            raise Unmodelled("untyped schema with keywords")
        return "any"
    if t == "null":
        return "null"
    if t in SCALARS:
        if set(s) & {"properties", "items", "additionalProperties", "minItems", "maxItems", "required"}:
            raise Unmodelled("scalar with container keywords")
        return f"(scalar {t} {1 if nullable else 0} {bounds_sx(s)})"
    if nullable and t == "object" and not s.get("properties"):
        # a free-form / map object behind a nullable type list: `Schema.ndict` (the place, document or not, is the
        # `ctx` of `tr`: no `top` distinction here — there is no class)
        if set(s) & {"items", "minimum", "maximum", "pattern", "minLength", "maxLength", "minItems", "maxItems"}:
            raise Unmodelled("object with foreign keywords")
        if s.get("required"):
            raise Unmodelled("required without properties")
        ap = s.get("additionalProperties")
        if ap is False:
            raise Unmodelled("nullable closed object without properties")
        return f"(ndict {schema_sx(ap) if isinstance(ap, dict) else 'any'})"
    if nullable:
        # the null of an array type list is dropped in nested places (known finding C03-nullable-array-nested); a
        # nullable object with members is a class marked `nullable` whose references are written Optional[...] by the
        # writer, after stage 1: both are outside the Lean model and covered by the family campaign end to end
        raise Unmodelled("nullable array" if t == "array" else "nullable object with members")
    if t == "array":
        if set(s) & {"properties", "additionalProperties", "minimum", "maximum", "pattern", "minLength", "maxLength", "required"}:
            raise Unmodelled("array with foreign keywords")
        items = s.get("items")
        if isinstance(items, list):
            raise Unmodelled("tuple items")
        it = schema_sx(items if items is not None else True)

        def on(k):
            return "none" if s.get(k) is None else str(int(s[k]))

        return f"(array {it} {on('minItems')} {on('maxItems')})"
    if t == "object":
        if set(s) & {"items", "minimum", "maximum", "pattern", "minLength", "maxLength", "minItems", "maxItems"}:
            raise Unmodelled("object with foreign keywords")
        props = s.get("properties")
        ap = s.get("additionalProperties")
        if not props:
            if s.get("required"):
                raise Unmodelled("required without properties")
            if isinstance(ap, dict):
                return f"(dict {schema_sx(ap)})"
            if top:
                addl0 = "absent" if ap is None else ("allow" if ap else "forbid")
                return f"(object () () {addl0})"
            if ap is None or ap is True:
                return "(dict any)"
            raise Unmodelled("closed object without properties")
        if isinstance(ap, dict):
            raise Unmodelled("additionalProperties schema next to properties")
        addl = "absent" if ap is None else ("allow" if ap else "forbid")
        ps = "".join(f" ({hx(k)} {schema_sx(v)})" for k, v in props.items())
        req = "".join(" " + hx(k) for k in s.get("required", []))
        return f"(object ({ps.strip()}) ({req.strip()}) {addl})"
    raise Unmodelled(f"type {t}")


def disc_parts(s: dict) -> tuple[str, str, list[str], list[tuple[str, str]]]:
    """(union keyword, property name, alternative definition names, mapping as (tag, definition name))
    of a discriminated union node; raises Unmodelled outside the modelled shape"""
    key = "oneOf" if "oneOf" in s else ("anyOf" if "anyOf" in s else None)
    if key is None or set(s) - {key, "discriminator", "title", "definitions", "x-draft4"}:
        raise Unmodelled("discriminator outside a plain oneOf/anyOf")
    d = s["discriminator"]
    if not isinstance(d, dict) or set(d) - {"propertyName", "mapping"} or not isinstance(d.get("propertyName"), str):
        raise Unmodelled("discriminator shape")
    refs = []
    for a in s[key]:
        if not isinstance(a, dict) or set(a) != {"$ref"} or not a["$ref"].startswith("#/definitions/"):
            raise Unmodelled("discriminated alternative that is not a local $ref")
        refs.append(a["$ref"].rsplit("/", 1)[1])
    mp = []
    for k, r in (d.get("mapping") or {}).items():
        if not isinstance(r, str) or not r.startswith("#/definitions/"):
            raise Unmodelled("discriminator mapping value that is not a local $ref")
        mp.append((k, r.rsplit("/", 1)[1]))
    if mp and (set(refs) - {r for _, r in mp}):
        raise Unmodelled("mapping that does not name every alternative (the generator raises)")
    return key, d["propertyName"], refs, mp


def disc_sx(s: dict) -> str:
    key, prop, refs, mp = disc_parts(s)
    return f"(disc {1 if key == 'oneOf' else 0} {hx(prop)} ({' '.join(hx(r) for r in refs)}) ({' '.join(f'({hx(k)} {hx(r)})' for k, r in mp)}))"


def check_disc_doc(doc: dict) -> None:
    """The Lean model rewrites the class of an alternative where the tagged union looks it up; the real
    pass rewrites the class itself. The two coincide when every definition that is the alternative of a
    discriminated union is an object class, is referenced only as such an alternative, and always gets
    the same tag literals; other documents are outside the model (Unmodelled)."""
    defs = doc.get("definitions") or {}
    targets: dict[str, set] = {}
    other_refs: set = set()

    def walk(s, in_disc_alt=False):
        if isinstance(s, list):
            for x in s:
                walk(x)
            return
        if not isinstance(s, dict):
            return
        if "discriminator" in s and ("oneOf" in s or "anyOf" in s):
            key, prop, refs, mp = disc_parts(s)
            eff = mp or [(r, r) for r in refs]
            for r in refs:
                targets.setdefault(r, set()).add((prop, tuple(k for k, rr in eff if rr == r)))
            for k, v in s.items():
                if k not in ("oneOf", "anyOf", "discriminator"):
                    walk(v)
            return
        if "$ref" in s and isinstance(s["$ref"], str):
            other_refs.add(s["$ref"].rsplit("/", 1)[1])
        for v in s.values():
            walk(v)

    walk(doc)
    for r, uses in targets.items():
        d = defs.get(r)
        if not (isinstance(d, dict) and d.get("type") == "object" and d.get("properties")):
            raise Unmodelled("discriminated alternative that is not an object definition")
        if r in other_refs:
            raise Unmodelled("discriminated alternative also referenced directly")
        if len(uses) != 1:
            raise Unmodelled("definition discriminated with different tags")


def defs_sx(doc: dict) -> str:
    check_disc_doc(doc)
    return "(" + " ".join(f"({hx(k)} {schema_sx(v, top=True)})" for k, v in (doc.get("definitions") or {}).items()) + ")"


def body_of(doc: dict) -> dict:
    return {k: v for k, v in doc.items() if k not in ("definitions", "title", "x-draft4")}


def _strings(v: Any, out: set) -> None:
    if isinstance(v, str):
        out.add(v)
    elif isinstance(v, list):
        for x in v:
            _strings(x, out)
    elif isinstance(v, dict):
        for x in v.values():
            _strings(x, out)


def _patterns(s: Any, out: set) -> None:
    if isinstance(s, dict):
        if isinstance(s.get("pattern"), str):
            out.add(s["pattern"])
        for v in s.values():
            _patterns(v, out)
    elif isinstance(s, list):
        for v in s:
            _patterns(v, out)


def regex_sx(doc: dict, instances: list) -> str:
    """the oracle restricted to the (pattern, string) pairs that can be asked"""
    pats: set = set()
    _patterns(doc, pats)
    strs: set = set()
    for i in instances:
        _strings(i, strs)
    rows = []
    for p in sorted(pats):
        for s in sorted(strs):
            rows.append(f"({hx(p)} {hx(s)} {1 if re.search(p, s) else 0})")
    return "(" + " ".join(rows) + ")"


# ------------------------------------------------------------------ reply parsing
def parse_sx(text: str):
    toks = text.replace("(", " ( ").replace(")", " ) ").split()
    pos = 0

    def rd():
        nonlocal pos
        t = toks[pos]
        pos += 1
        if t == "(":
            out = []
            while toks[pos] != ")":
                out.append(rd())
            pos += 1
            return out
        return t

    out = []
    while pos < len(toks):
        out.append(rd())
    return out


def json_of_sx(t) -> Any:
    """nested lists of a dumped `Json` (driver `showJson`) → Python value"""
    if t == "null":
        return None
    h = t[0]
    if h == "b":
        return t[1] == "1"
    if h == "n":
        return _num(t[1], t[2])
    if h == "s":
        return unhx(t[1])
    if h == "a":
        return [json_of_sx(x) for x in t[1:]]
    if h == "o":
        return {unhx(kv[0]): json_of_sx(kv[1]) for kv in t[1:]}
    raise ValueError(f"unknown Json dump {t!r}")


def _num(m: str, e: str):
    m, e = int(m), int(e)
    return m if e == 0 else m / (10**e)


def canon_cons(c) -> tuple:
    """('cons', (k v)...) → sorted tuple of (keyword, value)"""
    out = []
    for item in c[1:]:
        k = item[0]
        if k in ("ge", "gt", "le", "lt", "multiple_of"):
            out.append((k, float(_num(item[1], item[2]))))
        elif k in ("regex", "pattern"):
            out.append((k, unhx(item[1])))
        else:
            out.append((k, int(item[1])))
    return tuple(sorted(out))


def canon_atom(a):
    return ("s", unhx(a[1])) if a[0] == "s" else ("i", int(a[1]))


def canon_ty(t) -> Any:
    """nested lists of a `sem.tr` reply → canonical nested tuples (same shape as real_ir)"""
    if t == "any" or t == "null":
        return (t,)
    h = t[0]
    if h == "scalar":
        return ("scalar", t[1], canon_cons(t[2]))
    if h == "const":
        return ("const", canon_atom(t[1]))
    if h == "enum":
        return ("enum", tuple(canon_atom(a) for a in t[1:]))
    if h in ("list", "dict", "opt"):
        return (h, canon_ty(t[1]))
    if h == "model":
        return ("model", t[1], tuple(("field", unhx(f[1]), f[2] == "1", canon_cons(f[3]), canon_ty(f[4])) for f in t[2:]))
    if h == "root":
        return ("root", canon_cons(t[1]), canon_ty(t[2]))
    if h == "derived":
        return ("derived", tuple(unhx(b) for b in t[1]), t[2], tuple(("field", unhx(f[1]), f[2] == "1", canon_cons(f[3]), canon_ty(f[4])) for f in t[3:]))
    if h == "ref":
        return ("ref", unhx(t[1]))
    if h == "union":
        return ("union", tuple(canon_ty(x) for x in t[1:]))
    if h == "tagged":
        return ("tagged", unhx(t[1]), tuple((tuple(canon_atom(a) for a in b[0]), unhx(b[1])) for b in t[2:]))
    raise ValueError(f"unknown Ty dump {t!r}")


# ------------------------------------------------------------------ IR of the real parser
def _parser(doc: dict, style: str, routing: str, extra: dict | None = None):
    from datamodel_code_generator.model import pydantic as p1
    from datamodel_code_generator.model import pydantic_v2 as p2
    from datamodel_code_generator.parser.jsonschema import JsonSchemaParser

    mod = p1 if style == "v1" else p2
    opts = {"contype": {}, "field": {"field_constraints": True}, "annotated": {"field_constraints": True, "use_annotated": True}}[routing]
    opts = {**opts, **(extra or {})}
    with warnings.catch_warnings():
        warnings.simplefilter("ignore")
        p = JsonSchemaParser(
            json.dumps({k: v for k, v in doc.items() if k != "x-draft4"}),
            data_model_type=mod.BaseModel,
            data_model_root_type=mod.RootModel if style == "v2" else mod.CustomRootType,
            data_type_manager_type=mod.DataTypeManager,
            data_model_field_type=mod.DataModelField,
            **opts,
        )
        p.parse_raw()
    return p


def _openapi_parser(spec: dict, style: str, routing: str, extra: dict | None = None):
    """the real OpenAPI parser (scopes schemas + paths + parameters) after `parse_raw()`"""
    from datamodel_code_generator import OpenAPIScope
    from datamodel_code_generator.model import pydantic as p1
    from datamodel_code_generator.model import pydantic_v2 as p2
    from datamodel_code_generator.parser.openapi import OpenAPIParser

    mod = p1 if style == "v1" else p2
    opts = {"contype": {}, "field": {"field_constraints": True}, "annotated": {"field_constraints": True, "use_annotated": True}}[routing]
    opts = {**opts, **(extra or {})}
    with warnings.catch_warnings():
        warnings.simplefilter("ignore")
        p = OpenAPIParser(
            json.dumps(spec),
            data_model_type=mod.BaseModel,
            data_model_root_type=mod.RootModel if style == "v2" else mod.CustomRootType,
            data_type_manager_type=mod.DataTypeManager,
            data_model_field_type=mod.DataModelField,
            openapi_scopes=[OpenAPIScope.Schemas, OpenAPIScope.Paths, OpenAPIScope.Parameters],
            **opts,
        )
        p.parse_raw()
    return p


CON_TYPES = {"conint": "integer", "confloat": "number", "constr": "string"}
ALIAS_TYPES = {
    "PositiveInt": ("integer", ("gt", 0.0)),
    "NegativeInt": ("integer", ("lt", 0.0)),
    "NonNegativeInt": ("integer", ("ge", 0.0)),
    "NonPositiveInt": ("integer", ("le", 0.0)),
    "PositiveFloat": ("number", ("gt", 0.0)),
    "NegativeFloat": ("number", ("lt", 0.0)),
    "NonNegativeFloat": ("number", ("ge", 0.0)),
    "NonPositiveFloat": ("number", ("le", 0.0)),
}
PLAIN_TYPES = {"int": "integer", "float": "number", "str": "string", "bool": "boolean"}
CONS_KEYS = ("ge", "gt", "le", "lt", "multiple_of", "min_length", "max_length", "min_items", "max_items", "regex", "pattern")


def _cons_from(d: dict) -> tuple:
    out = []
    for k, v in d.items():
        if v is None or k not in CONS_KEYS:
            continue
        if k in ("ge", "gt", "le", "lt", "multiple_of"):
            out.append((k, float(v)))
        elif k in ("regex", "pattern"):
            s = str(v)
            if s.startswith("r'") and s.endswith("'"):
                s = s[2:-1]
            out.append((k, s))
        else:
            out.append((k, int(v)))
    return tuple(sorted(out))


class RealIR:
    def __init__(self, doc: dict, style: str, routing: str, extra: dict | None = None, openapi: bool = False) -> None:
        self.p = _openapi_parser(doc, style, routing, extra) if openapi else _parser(doc, style, routing, extra)
        # the discriminator pass of Parser.parse() (it rewrites the tag member of the alternatives' classes)
        from datamodel_code_generator.imports import Imports

        self.p._Parser__apply_discriminator_type(self.p.results, Imports())
        self.by_path = {r.reference.path: r for r in self.p.results}
        self.defs = set((doc.get("definitions") or {}).keys())

    def reuse_merges(self) -> list[tuple[str, str]]:
        """run the real `Parser.__reuse_model` on the parsed models and report which definition was turned into
        an alias (`class B(A): pass`) of which: [(B, A)] — only pairs of named definitions"""
        self.p.reuse_model = True
        models = list(self.p.results)
        self.p._Parser__reuse_model(models, [])
        out = []
        for m in models:
            path = m.reference.path
            if path.endswith("/reuse") and m.base_classes and m.base_classes[0].reference is not None:
                b = self.def_name(path[: -len("/reuse")])
                a = self.def_name(m.base_classes[0].reference.path)
                if a is not None and b is not None:
                    out.append((b, a))
        return out

    def def_name(self, path: str) -> str | None:
        if "#/definitions/" in path:
            tail = path.split("#/definitions/", 1)[1]
            if tail in self.defs:
                return tail
        return None

    def model_of_def(self, name: str):
        for path, r in self.by_path.items():
            if self.def_name(path) == name:
                return r
        return None

    def model_by_suffix(self, suffix: str):
        found = [r for r in self.p.results if r.class_name.endswith(suffix)]
        return found[0] if len(found) == 1 else None

    def root_model(self):
        for r in self.p.results:
            if r.class_name == "Model" and self.def_name(r.reference.path) is None:
                return r
        return None

    # -- dumps
    def dump_model(self, dm) -> Any:
        from datamodel_code_generator.model.enum import Enum

        if isinstance(dm, Enum):
            vals = []
            for f in dm.fields:
                v = f.default
                vals.append(canon_py_atom(ast.literal_eval(v) if isinstance(v, str) else v))
            return ("enum", tuple(vals))
        tname = type(dm).__name__
        if tname in ("CustomRootType", "RootModel"):
            f = dm.fields[0]
            return ("root", self.field_cons(f), self.dump_field_type(f))
        cfg = dm.extra_template_data.get("config")
        extra = getattr(cfg, "extra", None)
        extra = "unset" if extra is None else str(extra).strip("'\"").rsplit(".", 1)[-1]
        fields = []
        for f in dm.fields:
            fields.append(("field", f.original_name if f.original_name is not None else (f.alias or f.name), bool(f.required), self.field_cons(f), self.dump_field_type(f)))
        bases = [b.reference for b in dm.base_classes if b.reference]
        if bases:
            names = []
            for r in bases:
                nm = self.def_name(r.path)
                if nm is None:
                    raise Unmodelled("base class that is not a definition")
                names.append(nm)
            return ("derived", tuple(names), extra, tuple(fields))
        return ("model", extra, tuple(fields))

    def field_cons(self, f) -> tuple:
        c = f.constraints
        if c is None:
            return ()
        d = {k: f._get_strict_field_constraint_value(k, v) for k, v in c.dict(exclude_unset=True).items() if v is not None}
        return _cons_from(d)

    def dump_field_type(self, f) -> Any:
        if f.data_type.literals:  # a tag member rewritten by the discriminator pass (its `const` extra stays behind)
            return self.dump_type(f.data_type)
        if "const" in f.extras:
            return ("const", canon_py_atom(f.extras["const"]))
        disc = f.extras.get("discriminator")
        if isinstance(disc, dict) and disc.get("propertyName"):
            return self.dump_tagged(f, disc["propertyName"])
        return self.dump_type(f.data_type)

    def dump_tagged(self, f, py_prop: str) -> Any:
        """`Union[...] = Field(discriminator=…)`: the property by wire name and, per alternative, the tag
        literals found in its class after the discriminator pass"""
        dt = f.data_type
        branches = []
        wire = None
        for alt in dt.data_types:
            if alt.reference is None:
                raise Unmodelled("tagged union over a non-class")
            name = self.def_name(alt.reference.path)
            src = self.by_path.get(alt.reference.path)
            if name is None or src is None:
                raise Unmodelled("tagged alternative that is not a definition")
            tags = None
            for mf in src.fields:
                if mf.name == py_prop or mf.original_name == py_prop:
                    tags = tuple(canon_py_atom(x) for x in mf.data_type.literals)
                    w = mf.original_name if mf.original_name is not None else (mf.alias or mf.name)
                    wire = w if wire is None else wire
            if tags is None:
                raise Unmodelled("alternative without the tag member")
            branches.append((tags, name))
        inner = ("tagged", wire if wire is not None else py_prop, tuple(branches))
        return ("opt", inner) if dt.is_optional else inner

    def dump_type(self, dt) -> Any:
        inner = self._dump_core(dt)
        if dt.is_optional:
            return ("opt", inner)
        return inner

    def _dump_core(self, dt) -> Any:
        if dt.is_list or dt.is_dict:
            parts = [self.dump_type(x) for x in dt.data_types]
            inner = parts[0] if len(parts) == 1 else ("union", tuple(parts))
            if not parts:
                inner = ("any",)
            return ("list" if dt.is_list else "dict", inner)
        if dt.reference is not None:
            name = self.def_name(dt.reference.path)
            if name is not None:
                return ("ref", name)
            src = self.by_path.get(dt.reference.path)
            if src is None:
                raise Unmodelled(f"dangling reference {dt.reference.path}")
            return self.dump_model(src)
        if dt.literals:
            if len(dt.literals) == 1:
                return ("const", canon_py_atom(dt.literals[0]))
            return ("enum", tuple(canon_py_atom(x) for x in dt.literals))
        if dt.data_types:
            parts = [self.dump_type(x) for x in dt.data_types]
            return parts[0] if len(parts) == 1 else ("union", tuple(parts))
        t = dt.type
        if t in PLAIN_TYPES:
            return ("scalar", PLAIN_TYPES[t], ())
        if t in CON_TYPES:
            return ("scalar", CON_TYPES[t], _cons_from({k: v for k, v in (dt.kwargs or {}).items()}))
        if t in ALIAS_TYPES:
            ty, kv = ALIAS_TYPES[t]
            return ("scalar", ty, (kv,))
        if t == "Any":
            return ("any",)
        if t == "None":
            return ("null",)
        if t == "Dict[str, Any]":
            return ("dict", ("any",))
        raise Unmodelled(f"data type {t!r}")


def canon_py_atom(a):
    if isinstance(a, str):
        return ("s", a)
    if isinstance(a, int) and not isinstance(a, bool):
        return ("i", a)
    raise Unmodelled(f"atom {a!r}")
