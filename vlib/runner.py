"""The check protocol of DESIGN.md §2.4: translate → prove → correspond → verdict → evidence."""
from __future__ import annotations

import json
import sys
import time
import traceback
from dataclasses import dataclass, field
from pathlib import Path
from typing import Any, Callable

from . import lean
from .common import LEAN, VERIF, Rng, seed_from_env

TRUSTED_BASE = [
    "Lean 4.33.0 kernel; axioms allowed: propext, Classical.choice, Quot.sound (audited by #print axioms on every run)",
    "no sorry/admit/axiom/native_decide/bv_decide/implemented_by/unsafe (grepped on every run over the import closure)",
    "Dcg/Py/* : our statement of CPython semantics (lexer, identifiers, repr, import resolution); validated differentially against CPython 3.12 on every run, not verified",
    "Dcg/Gen/* : tables regenerated from /repo by vlib/translate (the translator is trusted)",
    "Dcg/Model/* : hand-written models; agreement with /repo is tested by the correspondence campaigns of this run",
]


@dataclass
class Failure:
    """A failure of the property's own oracle on the real code."""

    classification: dict[str, Any]
    input: Any
    observed: str
    expected: str = ""


@dataclass
class Disagreement:
    campaign: str
    input: Any
    model: Any
    impl: Any


@dataclass
class Campaign:
    name: str
    evaluations: int = 0
    distinct: set = field(default_factory=set)
    disagreements: int = 0
    unmodelled: int = 0
    distribution: dict[str, int] = field(default_factory=dict)
    samples: list = field(default_factory=list)
    wall_s: float = 0.0

    def hit(self, key: str, n: int = 1) -> None:
        self.distribution[key] = self.distribution.get(key, 0) + n


class Check:
    def __init__(self, prop: str, tier: str, level: str = "proof") -> None:
        self.prop = prop
        self.tier = tier
        self.seed = seed_from_env()
        self.rng = Rng(self.seed, prop)
        self.level = level
        self.t0 = time.time()
        self.theorems: list[lean.Theorem] = []
        self.broken: dict[str, str] = {}  # theorem -> reason
        self.axioms: dict[str, Any] = {}
        self.campaigns: list[Campaign] = []
        self.disagreements: list[Disagreement] = []
        self.failures: list[Failure] = []
        self.known_hits: dict[str, int] = {}
        self.known_lines: list[str] = []
        self.assumptions: list[str] = []
        self.notes: dict[str, Any] = {}
        self.gen_files: list[str] = []
        self.infra_errors: list[str] = []
        self.driver = lean.Driver()
        self.findings = load_findings(prop)
        self.search_hooks: list[Callable[["Check"], None]] = []
        self.build_wall = 0.0

    # ---- 1. translate -------------------------------------------------
    def translate(self, name: str, content: str) -> None:
        changed = lean.write_gen(name, content)
        self.gen_files.append(name + (" (changed)" if changed else ""))

    # ---- 2. prove -----------------------------------------------------
    def prove(self, extra_modules: list[str] | None = None) -> None:
        props_path = LEAN / "Dcg" / "Props" / f"{self.prop}.lean"
        self.theorems = lean.theorems_of(props_path)
        targets = [f"Dcg.Props.{self.prop}", *(extra_modules or [])]
        with lean.build_lock():
            res = lean.lake_build(targets + ["dcgdriver"])
            self.build_wall = res.wall_s
            if not res.ok:
                self._map_errors(res, props_path)
                # the driver must still build for the correspondence campaigns
                drv = lean.lake_build(["dcgdriver"])
                if not drv.ok:
                    self.infra_errors.append("model driver does not build: " + drv.log[-800:])
            closure = lean.imports_closure(f"Dcg.Props.{self.prop}")
            bad = lean.forbidden_tokens(closure)
            if bad:
                for t in self.theorems:
                    self.broken.setdefault(t.short, "forbidden token in import closure: " + "; ".join(bad[:5]))
            if res.ok:
                self.axioms = lean.audit_axioms(self.prop, self.theorems)
                for t in self.theorems:
                    ax = self.axioms.get(t.name)
                    if ax is None:
                        self.broken.setdefault(t.short, "#print axioms produced no line")
                    elif not set(ax) <= lean.ALLOWED_AXIOMS:
                        self.broken.setdefault(t.short, f"axioms outside the allowed set: {ax}")
        if self.tier == "thorough" and not self.broken:
            mods = [str(p.relative_to(LEAN)).removesuffix(".lean").replace("/", ".") for p in closure]
            ok, out = lean.leanchecker(mods)
            self.notes["leanchecker"] = "ok" if ok else out
            if not ok:
                for t in self.theorems:
                    self.broken.setdefault(t.short, "leanchecker rejected the compiled modules")

    def _map_errors(self, res: lean.BuildResult, props_path: Path) -> None:
        rel = str(props_path.relative_to(LEAN))
        in_props = [(f, ln, msg) for f, ln, msg in res.errors if f.endswith(rel)]
        other = [(f, ln, msg) for f, ln, msg in res.errors if not f.endswith(rel)]
        if other or not in_props:
            # a dependency (generated table, model, helper lemma) no longer compiles:
            # no theorem of this property is established
            why = "; ".join(f"{f}:{ln}: {msg}" for f, ln, msg in (other or res.errors)[:3]) or res.log[-400:]
            for t in self.theorems:
                self.broken.setdefault(t.short, "dependency failed to build: " + why)
            return
        for f, ln, msg in in_props:
            for t in self.theorems:
                if t.line <= ln <= t.end_line:
                    self.broken.setdefault(t.short, f"{rel}:{ln}: {msg}")
                    break
            else:
                for t in self.theorems:
                    self.broken.setdefault(t.short, f"{rel}:{ln}: {msg}")

    # ---- 3. correspond --------------------------------------------------
    def campaign(self, name: str) -> Campaign:
        c = Campaign(name)
        self.campaigns.append(c)
        return c

    def disagree(self, camp: Campaign, input_: Any, model: Any, impl: Any) -> None:
        camp.disagreements += 1
        self.disagreements.append(Disagreement(camp.name, input_, model, impl))

    def fail(self, classification: dict[str, Any], input_: Any, observed: str, expected: str = "") -> bool:
        """Record an oracle failure on the real code. Returns True when it is a *new* violation."""
        k = match_finding(self.findings, classification)
        if k is not None:
            self.known_hits[k["id"]] = self.known_hits.get(k["id"], 0) + 1
            return False
        self.failures.append(Failure(classification, input_, observed, expected))
        return True

    def known(self, finding_id: str, what: str) -> None:
        line = f"KNOWN-FINDING: property={self.prop} {finding_id} {what}"
        if line not in self.known_lines:
            self.known_lines.append(line)

    # ---- 4./5. verdict and evidence ---------------------------------------
    def finish(self) -> int:
        # a broken proof obligation or correspondence triggers the targeted search hooks
        if (self.broken or self.disagreements) and not self.failures:
            for hook in self.search_hooks:
                try:
                    hook(self)
                except Exception:  # search problems must not mask the verdict
                    self.infra_errors.append("search hook: " + traceback.format_exc()[-600:])
                if self.failures:
                    break
        violation_line = None
        replay_path = None
        if self.failures:
            f = self.failures[0]
            replay_path = self._write_replay(
                {
                    "property": self.prop,
                    "kind": "failing-input",
                    "broken": sorted(self.broken) + sorted({d.campaign for d in self.disagreements}),
                    "classification": f.classification,
                    "input": f.input,
                    "observed": f.observed,
                    "expected": f.expected,
                    "seed": self.seed,
                    "how_to_run": f"./check {self.prop} --replay <this file>",
                    "other_failures": len(self.failures) - 1,
                }
            )
            violation_line = f"VIOLATION property={self.prop} replay={replay_path}"
        elif self.broken or self.disagreements:
            d0 = self.disagreements[0] if self.disagreements else None
            replay_path = self._write_replay(
                {
                    "property": self.prop,
                    "kind": "no-failing-input-found",
                    "broken_theorems": self.broken,
                    "broken_correspondence": sorted({d.campaign for d in self.disagreements}),
                    "first_disagreement": None
                    if d0 is None
                    else {"campaign": d0.campaign, "input": d0.input, "model": d0.model, "impl": d0.impl},
                    "seed": self.seed,
                    "note": "the property is no longer shown to hold: the named theorem(s)/correspondence no longer "
                    "check and the search found no input on which the property's oracle fails on the real code",
                }
            )
            violation_line = f"VIOLATION property={self.prop} replay={replay_path} no-failing-input-found"
        self._write_evidence(violation_line)
        for line in self.known_lines:
            print(line)
        if self.infra_errors and violation_line is None:
            for e in self.infra_errors:
                print("INFRA-ERROR:", e, file=sys.stderr)
            return 2
        if violation_line:
            for name, why in list(self.broken.items())[:8]:
                print(f"BROKEN-OBLIGATION {self.prop}.{name}: {why[:300]}")
            for d in self.disagreements[:5]:
                print(f"DISAGREEMENT {d.campaign}: input={json.dumps(d.input, default=str)[:300]} model={str(d.model)[:200]} impl={str(d.impl)[:200]}")
            for f in self.failures[:5]:
                print(f"ORACLE-FAILURE {json.dumps(f.classification, default=str)}: {f.observed[:300]}")
            print(violation_line)
            return 1
        print(
            f"OK property={self.prop} tier={self.tier} obligations={len(self.theorems)} "
            f"evaluations={sum(c.evaluations for c in self.campaigns)} wall={time.time() - self.t0:.1f}s"
        )
        return 0

    def _write_replay(self, obj: dict) -> str:
        d = VERIF / "replays"
        d.mkdir(exist_ok=True)
        p = d / f"{self.prop}-{self.tier}-seed{self.seed}.json"
        p.write_text(json.dumps(obj, indent=1, default=str, ensure_ascii=True))
        return str(p)

    def _write_evidence(self, violation_line: str | None) -> None:
        obligations = len(self.theorems)
        discharged = sum(1 for t in self.theorems if t.short not in self.broken)
        evals = sum(c.evaluations for c in self.campaigns)
        distinct = sum(len(c.distinct) for c in self.campaigns)
        samples: list[Any] = [{"obligation": t.name, "axioms": self.axioms.get(t.name)} for t in self.theorems[:4]]
        for c in self.campaigns:
            for s in c.samples[:2]:
                samples.append({"campaign": c.name, "case": s})
        cov = {
            "obligations": obligations,
            "discharged": discharged,
            "checker_cmd": f"cd lean && lake build Dcg.Props.{self.prop} && lake env lean Dcg/Audit/{self.prop}.lean"
            + (" && lake env leanchecker <import closure>" if self.tier == "thorough" else ""),
            "trusted_base": TRUSTED_BASE,
            "theorems": {t.short: ("BROKEN: " + self.broken[t.short] if t.short in self.broken else "discharged") for t in self.theorems},
            "axioms": {t.short: self.axioms.get(t.name) for t in self.theorems},
            "generated_tables": self.gen_files,
            "evaluations": evals,
            "distinct_nontrivial": distinct,
            "rule": "per campaign: cases are generated from one SplitMix64 stream seeded by VERIF_SEED; a case counts as "
            "distinct+nontrivial when its canonical key (campaign-specific, see campaigns[].rule) has not been seen before in this run",
            "samples": samples,
            "campaigns": [
                {
                    "name": c.name,
                    "evaluations": c.evaluations,
                    "distinct_nontrivial": len(c.distinct),
                    "disagreements": c.disagreements,
                    "unmodelled": c.unmodelled,
                    "distribution": dict(sorted(c.distribution.items())),
                    "wall_s": round(c.wall_s, 2),
                }
                for c in self.campaigns
            ],
            "disagreements_checked": len(self.disagreements),
            "known_findings_reconfirmed": self.known_lines,
            "known_finding_hits_in_campaigns": self.known_hits,
            "model_driver_lines": self.driver.lines,
            "build_wall_s": round(self.build_wall, 1),
            "notes": self.notes,
        }
        ev = {
            "property_id": self.prop,
            "tier": self.tier,
            "seed": self.seed,
            "level": self.level,
            "coverage": cov,
            "assumptions": self.assumptions,
            "wall_s": round(time.time() - self.t0, 2),
            "violations": 0 if violation_line is None else max(1, len(self.failures)),
        }
        d = VERIF / "evidence"
        d.mkdir(exist_ok=True)
        (d / f"{self.prop}.json").write_text(json.dumps(ev, indent=1, default=str, ensure_ascii=True) + "\n")


# ---- known findings -------------------------------------------------------------

def load_findings(prop: str) -> list[dict]:
    p = VERIF / "known_findings.json"
    if not p.exists():
        return []
    data = json.loads(p.read_text())
    return [f for f in data.get("findings", []) if f.get("property") == prop and f.get("status") == "open"]


def match_finding(findings: list[dict], classification: dict[str, Any]) -> dict | None:
    """A finding matches when every key of its `match` agrees with the classified failure.
    A list in the matcher means 'one of'."""
    for f in findings:
        ok = True
        for k, want in f.get("match", {}).items():
            have = classification.get(k)
            if isinstance(want, list):
                if have not in want:
                    ok = False
                    break
            elif have != want:
                ok = False
                break
        if ok:
            return f
    return None
