"""Seeded generators for the semantic properties C03 / C04 / C14 (new shared file, used only by them).

* `gen_doc(rng)`      — a JSON-Schema document in the supported subset (DESIGN §9)
* `valid_instances`   — constructive instances (boundary values of every bound, absent optionals,
                        nulls where admitted, recursion bounded), each confirmed valid by jsonschema
* `mutations`         — one-step invalid mutations of a valid instance, each confirmed by jsonschema to be
                        invalid for exactly the intended reason

Only the *labels* come from jsonschema; the generators never decide validity on their own.
"""
from __future__ import annotations

import copy
import json
import re
from dataclasses import dataclass, field
from typing import Any

import jsonschema

from .common import Rng

# member names: plain ones and some that need an alias on the wire
PLAIN_NAMES = ["a", "b", "c", "d", "e", "f", "g", "h", "item", "count", "name", "value", "kind", "size", "tags", "meta"]
ALIAS_NAMES = ["kebab-name", "class", "with space", "CamelCase", "x.y", "1st"]
# (needs sanitising, plain identifier) pairs that collapse to ONE Python identifier
COLLIDING = [("user-id", "user_id"), ("x.rate", "x_rate"), ("a b", "a_b"), ("order id", "order_id"), ("k-v", "k_v")]
# integer bounds a double cannot represent / the edges of int64
BIG_INTS = [2**53 + 1, 2**53 + 3, 2**63 - 1, -(2**53) - 1, 2**62 + 1]
# names the field-name resolver changes: not an identifier, a keyword, (with --snake-case-field) camel case
RENAMED_NAMES = ["first-name", "class", "order id", "1st", "x.y", "import", "OrderId", "CamelCase", "kebab-name"]
DEF_NAMES = ["Pos", "Node", "Pet", "Cat", "Dog", "Color", "Amount", "Label", "Items", "Base", "Extra"]
# strings never look like numbers or booleans (no lax str→int / str→bool coercion can apply)
LETTERS = "qzkwv"
# (pattern, strings that match, strings that do not); no quotes / control characters (C10's rawSafe region)
PATTERNS_ANCHORED = [
    ("^q", ["q", "qz", "qzk"], ["z", "zq", "kq"]),
    ("^[qz]+$", ["q", "zq", "qqz"], ["k", "qk", "kq"]),
    ("^k\\w*$", ["k", "kq", "kzz"], ["q", "zk", "q-k"]),
    ("^z{2,}", ["zz", "zzz", "zzq"], ["z", "qzz", "kz"]),
]
PATTERNS_UNANCHORED = [
    ("z", ["z", "qz", "zq"], ["q", "k", "qk"]),
    ("k$", ["k", "qk", "zzk"], ["q", "kq", "kz"]),
    ("[qz]k", ["qk", "zk", "wqk"], ["k", "kq", "qq"]),
]

BOUND_KEYS = ("minimum", "maximum", "exclusiveMinimum", "exclusiveMaximum", "multipleOf")
STR_KEYS = ("minLength", "maxLength", "pattern")
ARR_KEYS = ("minItems", "maxItems")


@dataclass
class GenCfg:
    draft4: bool = False  # boolean exclusiveMinimum/Maximum (then no `const`, no numeric exclusive bounds)
    unanchored_patterns: bool = False
    nonintegral_int_bounds: bool = False  # D10 territory
    alias_names: bool = True
    unions: bool = True
    all_of: bool = True
    dict_values: bool = True
    max_depth: int = 3
    recursive_refs: bool = True
    ap_schema_with_props: bool = False
    roots: bool = True  # non-object roots (root models)
    boost: str = ""  # "allOf" / "union" / "disc": make that construct frequent
    discriminators: bool = False  # OpenAPI `discriminator` on oneOf/anyOf of object definitions
    allof_own_required: bool = True  # allOf-level `required` naming members declared inline (incl. renamed ones)
    colliding_names: bool = True  # two wire names that give the same Python identifier ("user-id", "user_id"), either order
    big_bounds: bool = True  # integer bounds at the edges of int64 / beyond 2**53 (not representable as a double)
    name_clashes: bool = True  # inline objects under the same property name in different parents (Address, Address1)
    twins: bool = True  # definitions that differ in ONE detail (additionalProperties, a constant, a bound, required) or in nothing
    chains: bool = True  # allOf inheritance chains of three or more classes, names in any alphabetical order


def validator_for(doc: dict):
    cls = jsonschema.Draft4Validator if doc.get("x-draft4") else jsonschema.Draft7Validator
    return cls(doc)


# ------------------------------------------------------------------ schema generation
class DocGen:
    def __init__(self, rng: Rng, cfg: GenCfg) -> None:
        self.rng = rng
        self.cfg = cfg
        self.defs: dict[str, dict] = {}
        self.features: set[str] = set()
        self._names = 0
        self.disc_targets: set[str] = set()  # definitions whose class the discriminator pass rewrites

    # -- scalars
    def integer(self, nullable: bool = False) -> dict:
        r = self.rng
        s: dict[str, Any] = {"type": ["integer", "null"] if nullable else "integer"}
        if self.cfg.big_bounds and not self.cfg.draft4 and r.chance(1, 12):
            # a bound that is exact as an integer and not as a double
            b = r.choice(BIG_INTS)
            # (exclusive bounds pass through `float` in JsonSchemaObject and lose the last digit: known finding D42;
            # they are in the focused corpus, not in the seeded stream)
            kw = r.choice(["minimum", "maximum"])
            s[kw] = b
            self.features.add("big_bound")
            if nullable:
                self.features.add("nullable")
            return s
        lo = r.range(-5, 5)
        if r.chance(2, 3):
            self._lower(s, lo, integer=True)
        if r.chance(1, 2):
            self._upper(s, lo + r.range(2, 8), integer=True)
        if r.chance(1, 5):
            s["multipleOf"] = r.choice([2, 3, 5])
            # keep the range wide enough to contain a multiple
            for k in ("maximum", "exclusiveMaximum"):
                if k in s and not isinstance(s[k], bool):
                    s[k] = s[k] + 6
        if nullable:
            self.features.add("nullable")
        return self._ensure_sat(s)

    def number(self, nullable: bool = False) -> dict:
        r = self.rng
        s: dict[str, Any] = {"type": ["number", "null"] if nullable else "number"}
        lo = r.choice([-2.5, -1, 0, 0.5, 1, 2.25])
        if r.chance(2, 3):
            self._lower(s, lo, integer=False)
        if r.chance(1, 2):
            self._upper(s, lo + r.choice([1.5, 3, 4.75, 10]), integer=False)
        if r.chance(1, 6):
            s["multipleOf"] = r.choice([0.5, 0.25, 2])
            for k in ("maximum", "exclusiveMaximum"):
                if k in s and not isinstance(s[k], bool):
                    s[k] = s[k] + 6
        if nullable:
            self.features.add("nullable")
        return self._ensure_sat(s)

    def _ensure_sat(self, s: dict) -> dict:
        """numeric schemas must admit at least two values (else drop multipleOf, then the upper bound)"""
        for drop in (None, "multipleOf", "maximum", "exclusiveMaximum"):
            if drop:
                s.pop(drop, None)
                if drop == "maximum" and isinstance(s.get("exclusiveMaximum"), bool):
                    s.pop("exclusiveMaximum")
            if len(_scan_numbers(s, self.cfg.draft4)) >= 2:
                return s
        return s

    def _lower(self, s: dict, lo, integer: bool) -> None:
        r = self.rng
        if integer and self.cfg.nonintegral_int_bounds and r.chance(1, 2):
            lo = lo + 0.5
            self.features.add("nonintegral_int_bound")
        mode = r.below(3)
        if mode == 0:
            s["minimum"] = lo
        elif self.cfg.draft4:
            s["minimum"] = lo
            s["exclusiveMinimum"] = r.chance(2, 3)
            self.features.add("draft4_exclusive")
        else:
            s["exclusiveMinimum"] = lo
            self.features.add("exclusive")

    def _upper(self, s: dict, hi, integer: bool) -> None:
        r = self.rng
        if integer and self.cfg.nonintegral_int_bounds and r.chance(1, 2):
            hi = hi + 0.5
            self.features.add("nonintegral_int_bound")
        mode = r.below(3)
        if mode == 0:
            s["maximum"] = hi
        elif self.cfg.draft4:
            s["maximum"] = hi
            s["exclusiveMaximum"] = r.chance(2, 3)
            self.features.add("draft4_exclusive")
        else:
            s["exclusiveMaximum"] = hi
            self.features.add("exclusive")

    def string(self, nullable: bool = False) -> dict:
        r = self.rng
        s: dict[str, Any] = {"type": ["string", "null"] if nullable else "string"}
        k = r.below(4)
        if k == 0:
            pool = PATTERNS_ANCHORED + (PATTERNS_UNANCHORED if self.cfg.unanchored_patterns else [])
            s["pattern"] = r.choice(pool)[0]
            self.features.add("pattern")
        elif k in (1, 2):
            lo = r.range(0, 3)
            if r.chance(2, 3):
                s["minLength"] = lo
            if r.chance(2, 3):
                s["maxLength"] = lo + r.range(0, 4)
        if nullable:
            self.features.add("nullable")
        return s

    def boolean(self) -> dict:
        return {"type": "boolean"}

    def scalar(self, nullable: bool = False) -> dict:
        k = self.rng.below(7)
        if k < 3:
            return self.integer(nullable)
        if k < 4:
            return self.number(nullable)
        if k < 6:
            return self.string(nullable)
        return self.boolean()

    def enum(self) -> dict:
        r = self.rng
        self.features.add("enum")
        if r.chance(2, 3):
            vals = r.sample(["qa", "zb", "kc", "wd", "ve"], r.range(1, 4))
            return {"type": "string", "enum": vals} if r.chance(1, 2) else {"enum": vals}
        vals = r.sample([1, 2, 3, 5, 8], r.range(2, 4))
        return {"type": "integer", "enum": vals}

    def const(self) -> dict:
        self.features.add("const")
        return {"const": self.rng.choice(["kq", "zz", 7, 12])}

    # -- composite
    def fresh_def(self, base: str) -> str:
        n = base
        i = 1
        while n in self.defs:
            i += 1
            n = f"{base}{i}"
        self.defs[n] = {}
        return n

    def object_(self, depth: int, props_min: int = 1) -> dict:
        r = self.rng
        n = r.range(props_min, 4)
        pool = PLAIN_NAMES + (ALIAS_NAMES if self.cfg.alias_names and r.chance(1, 3) else [])
        names = r.sample(pool, n)
        if any(x in ALIAS_NAMES for x in names):
            self.features.add("alias")
        if self.cfg.colliding_names and self.cfg.alias_names and r.chance(1, 10):
            a, b = r.choice(COLLIDING)
            pair = [a, b] if r.chance(1, 2) else [b, a]  # the one that needs sanitising first, or second
            names = [x for x in names if x not in pair] + pair
            self.features.add("colliding_names")
            self.features.add("alias")
        props = {nm: self.member(depth + 1) for nm in names}
        if self.cfg.name_clashes and depth <= 1 and r.chance(1, 10):
            # the same inline property name under two parents: both objects want the class name `Address`
            inner = r.choice(["address", "item", "detail"])
            for i, parent in enumerate(r.sample(["home", "work", "billing", "shipping"], 2)):
                sub = self.object_(depth + 2)
                sub.pop("additionalProperties", None)
                if i == r.below(2) or r.chance(1, 2):
                    sub["additionalProperties"] = False
                    self.features.add("ap_false")
                props[parent] = {"type": "object", "properties": {inner: sub, "n": {"type": "integer"}}, "required": [inner]}
                names = [*names, parent]
            self.features.add("name_clash")
        s: dict[str, Any] = {"type": "object", "properties": props}
        req = [nm for nm in names if r.chance(1, 2)]
        if req:
            s["required"] = req
        ap = r.below(5)
        if ap == 0:
            s["additionalProperties"] = False
            self.features.add("ap_false")
        elif ap == 1:
            s["additionalProperties"] = True
        elif ap == 2 and self.cfg.ap_schema_with_props:
            s["additionalProperties"] = self.scalar()
            self.features.add("ap_schema_with_props")
        return s

    def array(self, depth: int) -> dict:
        r = self.rng
        self.features.add("array")
        k = r.below(6)
        if k < 3 or depth >= self.cfg.max_depth:
            items = self.scalar()
        elif k == 3:
            items = self.ref(depth)
        elif k == 4:
            items = self.enum()
        else:
            items = self.object_(depth + 1)
        s: dict[str, Any] = {"type": "array", "items": items}
        lo = r.range(0, 2)
        if r.chance(1, 2):
            s["minItems"] = lo
        if r.chance(1, 2):
            s["maxItems"] = lo + r.range(1, 3)
        return s

    def dict_(self, depth: int) -> dict:
        self.features.add("dict")
        r = self.rng
        k = r.below(4)
        v = self.scalar() if k < 3 or depth >= self.cfg.max_depth else self.ref(depth)
        return {"type": "object", "additionalProperties": v}

    def ref(self, depth: int) -> dict:
        r = self.rng
        self.features.add("ref")
        existing = [k for k, v in self.defs.items() if v and k not in self.disc_targets]
        if existing and r.chance(1, 2):
            return {"$ref": f"#/definitions/{r.choice(existing)}"}
        name = self.fresh_def(r.choice(DEF_NAMES))
        k = r.below(6)
        if k < 3:
            body = self.object_(depth + 1)
            if self.cfg.recursive_refs and r.chance(1, 4):
                # recursive reference through a non-required member
                self.features.add("recursive_ref")
                nm = r.choice(["next", "child", "children"])
                if nm == "children":
                    body["properties"][nm] = {"type": "array", "items": {"$ref": f"#/definitions/{name}"}}
                else:
                    body["properties"][nm] = {"$ref": f"#/definitions/{name}"}
                body["required"] = [x for x in body.get("required", []) if x != nm]
        elif k == 3:
            body = self.integer() if r.chance(1, 2) else self.string()
            self.features.add("scalar_def")
        elif k == 4:
            body = self.enum()
        else:
            body = self.array(depth + 1)
        self.defs[name] = body
        return {"$ref": f"#/definitions/{name}"}

    def object_ref(self, depth: int) -> dict:
        """a $ref to a definition that is an object (used by allOf / unions)"""
        name = self.fresh_def(self.rng.choice(["Base", "Pet", "Cat", "Dog", "Node"]))
        self.defs[name] = self.object_(depth + 1)
        self.defs[name].pop("additionalProperties", None) if self.rng.chance(1, 2) else None
        self.features.add("ref")
        return {"$ref": f"#/definitions/{name}"}

    def union(self, depth: int) -> dict:
        r = self.rng
        key = r.choice(["anyOf", "oneOf"])
        self.features.add(key)
        shape = r.below(6)
        if shape == 5:
            # nullable reference to a scalar definition that carries constraints
            name = self.fresh_def(r.choice(["Amount", "Label", "Code", "Score"]))
            self.defs[name] = self.integer() if r.chance(1, 2) else self.string()
            self.features.add("scalar_def")
            self.features.add("nullable_ref")
            self.features.add("nullable")
            self.features.add("ref")
            alts = [{"$ref": f"#/definitions/{name}"}, {"type": "null"}]
            if r.chance(1, 3):
                alts.reverse()
            return {key: alts}
        if shape == 4 and depth < self.cfg.max_depth:
            # tagged records: definitions with the same members, told apart only by a constant that is the
            # name of the record type (`kind: const "Cat"` in Cat, `kind: const "Dog"` in Dog)
            self.features.add("tagged_records")
            proto = self.object_(depth + 1)
            proto["additionalProperties"] = False
            tag = r.choice(["kind", "type", "tag"])
            proto["properties"].pop(tag, None)
            names = [self.fresh_def(b) for b in r.sample(["Cat", "Dog", "Bird", "Fish"], r.range(2, 3))]
            alts = []
            for nm in names:
                body = copy.deepcopy(proto)
                lit = {"const": nm} if (r.chance(1, 2) and not self.cfg.draft4) else {"type": "string", "enum": [nm]}
                body["properties"] = {tag: lit, **body["properties"]}
                body["required"] = [tag] + [x for x in body.get("required", []) if x != tag]
                self.defs[nm] = body
                alts.append({"$ref": f"#/definitions/{nm}"})
            return {key: alts}
        if shape == 4:
            shape = 0
        if shape == 0:
            alts = [self.integer(), self.string()]
        elif shape == 1:
            # two closed objects that cannot be confused: distinct required members
            a = self.object_(depth + 1)
            b = self.object_(depth + 1)
            a.setdefault("properties", {})["ta"] = {"type": "string", "enum": ["qa"]}
            b.setdefault("properties", {})["tb"] = {"type": "integer"}
            a["required"] = sorted(set(a.get("required", [])) | {"ta"})
            b["required"] = sorted(set(b.get("required", [])) | {"tb"})
            a["additionalProperties"] = False
            b["additionalProperties"] = False
            for x in (a, b):
                x["properties"].pop("tb" if x is a else "ta", None)
            na, nb = self.fresh_def("Cat"), self.fresh_def("Dog")
            self.defs[na], self.defs[nb] = a, b
            alts = [{"$ref": f"#/definitions/{na}"}, {"$ref": f"#/definitions/{nb}"}]
        elif shape == 2:
            alts = [self.boolean(), {"type": "array", "items": self.integer()}]
        else:
            alts = [self.string(), {"type": "null"}]
            self.features.add("nullable")
        if r.chance(1, 2):
            alts.reverse()
        return {key: alts}

    def disc_union(self, depth: int) -> dict:
        """oneOf/anyOf over fresh object definitions + `discriminator`: explicit mapping (several keys may
        select the same definition) or none (each definition is selected by its own name)"""
        r = self.rng
        self.features.add("discriminator")
        prop = r.choice(["kind", "kind", "pet-type", "type", "class", "petType"])
        n = r.range(2, 3)
        names = [self.fresh_def(b) for b in r.sample(["Cat", "Dog", "Lizard", "Bird", "Fish"], n)]
        self.disc_targets.update(names)
        explicit = r.chance(2, 3)
        pool = ["cat", "dog", "puppy", "lizard", "gecko", "bird", "fish", "kq", "zw", "big-one"]
        keys = r.sample(pool, min(len(pool), 2 * n))
        mapping: dict[str, str] = {}
        tags: dict[str, list[str]] = {}
        for i, nm in enumerate(names):
            if explicit:
                ks = [keys[2 * i]] + ([keys[2 * i + 1]] if r.chance(1, 2) else [])
                if len(ks) > 1:
                    self.features.add("discriminator_multikey")
            else:
                ks = [nm]
            tags[nm] = ks
        if explicit:
            # mapping order is independent of the order of the alternatives
            items = [(k, nm) for nm in names for k in tags[nm]]
            if r.chance(1, 2):
                items.reverse()
            mapping = {k: f"#/definitions/{nm}" for k, nm in items}
        else:
            self.features.add("discriminator_implicit")
        for i, nm in enumerate(names):
            body = self.object_(depth + 1)
            body["properties"].pop(prop, None)
            mark = f"m{nm.lower()}"
            body["properties"][mark] = self.scalar() if r.chance(1, 2) else {"type": "integer"}
            how = r.below(6)
            if how < 3:
                tag_schema: dict | None = {"type": "string"}
            elif how == 3:
                tag_schema = {"type": "string", "enum": list(tags[nm])}
            elif how == 4 and len(tags[nm]) == 1 and not self.cfg.draft4:
                tag_schema = {"const": tags[nm][0]}
            elif how == 5 and body.get("additionalProperties") is not False:
                tag_schema = None  # not declared: the pass appends the member
                self.features.add("discriminator_undeclared_tag")
            else:
                tag_schema = {"type": "string"}
            if tag_schema is not None:
                body["properties"] = {prop: tag_schema, **body["properties"]}
            req = [x for x in body.get("required", []) if x in body["properties"] and x not in (prop, mark)]
            body["required"] = ([prop] if tag_schema is not None else []) + [mark] + req
            self.defs[nm] = body
        key = r.choice(["oneOf", "anyOf"])
        d: dict[str, Any] = {"propertyName": prop}
        if explicit:
            d["mapping"] = mapping
        alts = [{"$ref": f"#/definitions/{nm}"} for nm in names]
        if r.chance(1, 3):
            alts.reverse()
        return {key: alts, "discriminator": d}

    def twins(self, depth: int) -> dict:
        """two definitions with the same members that differ in ONE detail — or in nothing (what a
        de-duplicating pass must tell apart, resp. may merge)"""
        r = self.rng
        self.features.add("twins")
        proto = self.object_(depth + 1)
        proto.pop("additionalProperties", None)
        n1, n2 = self.fresh_def(r.choice(["Cat", "Pos", "Item", "Node"])), self.fresh_def(r.choice(["Dog", "Point", "Entry", "Leaf"]))
        a, b = copy.deepcopy(proto), copy.deepcopy(proto)
        how = r.below(6)
        if how == 0:
            a["additionalProperties"], b["additionalProperties"] = False, True
            self.features.add("twins_ap")
            self.features.add("ap_false")
        elif how == 1:
            a["additionalProperties"] = False
            self.features.add("twins_ap")
            self.features.add("ap_false")
        elif how == 2:
            nm = next((k for k, v in b["properties"].items() if isinstance(v, dict) and v.get("type") == "integer" and "minimum" in v), None)
            if nm:
                b["properties"][nm]["minimum"] += 1
                self.features.add("twins_bound")
        elif how == 3:
            names = list(b["properties"])
            if names:
                nm = r.choice(names)
                req = list(b.get("required", []))
                b["required"] = [x for x in req if x != nm] if nm in req else [*req, nm]
                if not b["required"]:
                    b.pop("required")
                self.features.add("twins_required")
        elif how == 4 and not self.cfg.draft4:
            a["properties"] = {"kind": {"const": n1}, **a["properties"]}
            b["properties"] = {"kind": {"const": n2}, **b["properties"]}
            self.features.add("twins_const")
        if r.chance(1, 2):
            a, b = b, a  # which of the two comes first
        self.defs[n1], self.defs[n2] = a, b
        self.features.add("ref")
        return {"type": "object", "properties": {"p": {"$ref": f"#/definitions/{n1}"}, "q": {"$ref": f"#/definitions/{n2}"}}, "required": ["p"]}

    def chain(self, depth: int) -> dict:
        """an allOf inheritance chain of three or four classes; the names are drawn without regard to
        the direction of inheritance (a subclass may sort before its base, on several levels)"""
        r = self.rng
        self.features.add("allOf")
        self.features.add("allOf_chain")
        self.features.add("ref")
        n = r.range(3, 4)
        pool = r.choice([["Vehicle", "Motorised", "Car", "Cabriolet"], ["Zebra", "Mammal", "Animal", "Being"], ["Alpha", "Beta", "Gamma", "Delta"]])
        if r.chance(1, 2):
            pool = r.sample(pool, len(pool))
        names = [self.fresh_def(b) for b in pool[:n]]
        members = r.sample(PLAIN_NAMES, min(len(PLAIN_NAMES), 2 * n))
        for i, nm in enumerate(names):
            own = members[2 * i : 2 * i + 2]
            body = {"type": "object", "properties": {m: self.scalar() for m in own}}
            if r.chance(1, 2):
                body["required"] = [own[0]]
            self.defs[nm] = body if i == 0 else {"allOf": [{"$ref": f"#/definitions/{names[i - 1]}"}, body]}
        return {"$ref": f"#/definitions/{names[-1]}"}

    def all_of(self, depth: int) -> dict:
        r = self.rng
        self.features.add("allOf")
        parts: list[dict] = [self.object_ref(depth)]
        if r.chance(1, 3):
            parts.append(self.object_ref(depth))
        inline = self.object_(depth + 1)
        inline.pop("additionalProperties", None)
        if self.cfg.allof_own_required and self.cfg.alias_names and r.chance(1, 2):
            # members whose JSON name is not their Python name
            for nm in r.sample(RENAMED_NAMES, r.range(1, 2)):
                inline["properties"].setdefault(nm, self.scalar() if r.chance(3, 4) else self.enum())
            self.features.add("alias")
        # members of the parts must not clash (a clash is an override, a different topic)
        used: set[str] = set()
        for p in parts:
            d = self.defs[p["$ref"].rsplit("/", 1)[1]]
            d.pop("additionalProperties", None)
            for nm in list(d["properties"]):
                if nm in used:
                    del d["properties"][nm]
                    d["required"] = [x for x in d.get("required", []) if x != nm]
                else:
                    used.add(nm)
            if not d.get("required"):
                d.pop("required", None)
        for nm in list(inline["properties"]):
            if nm in used:
                del inline["properties"][nm]
        inline["required"] = [x for x in inline.get("required", []) if x in inline["properties"]]
        if not inline["required"]:
            inline.pop("required")
        if inline["properties"]:
            parts.append(inline)
        out: dict[str, Any] = {"allOf": parts}
        own = list(inline["properties"])
        if self.cfg.allof_own_required and own and r.chance(1, 2):
            # allOf-level `required` naming members the class declares itself (renamed ones included)
            names = r.sample(own, r.range(1, min(3, len(own))))
            if r.chance(3, 4):
                parts.append({"required": names})
                self.features.add("allOf_required_own")
            else:
                out["required"] = names  # `required` next to `allOf`
                self.features.add("allOf_required_sibling")
            if any(x in RENAMED_NAMES for x in names):
                self.features.add("allOf_required_renamed")
        elif r.chance(1, 3) and used:
            # allOf-level `required` naming a member declared by a referenced part
            cand = sorted(used)
            parts.append({"required": [r.choice(cand)]})
            self.features.add("allOf_required")
        return out

    def member(self, depth: int) -> dict:
        r = self.rng
        deep = depth >= self.cfg.max_depth
        k = r.below(20)
        if self.cfg.boost == "allOf" and k < 4 and not deep and self.cfg.all_of:
            return self.chain(depth) if (self.cfg.chains and k == 0) else self.all_of(depth)
        if self.cfg.boost == "union" and k < 4 and not deep and self.cfg.unions:
            return self.union(depth)
        if self.cfg.discriminators and not deep and (k == 19 or (self.cfg.boost == "disc" and k < 5)):
            u = self.disc_union(depth)
            place = r.below(5)
            if place == 0:
                self.features.add("discriminator_in_array")
                return {"type": "array", "items": u}
            if place == 1:
                # a definition that is the discriminated union itself (root model)
                name = self.fresh_def("Pet")
                self.defs[name] = u
                self.features.add("discriminator_def")
                return {"$ref": f"#/definitions/{name}"}
            return u
        if k < 6:
            return self.scalar()
        if k < 8:
            return self.scalar(nullable=True) if not r.chance(1, 4) else self.boolean()
        if k < 10:
            return self.enum()
        if k == 10:
            return self.const() if not self.cfg.draft4 else self.enum()
        if k < 13:
            return self.array(depth)
        if k == 13 and not deep:
            return self.object_(depth + 1)
        if k == 14 and self.cfg.dict_values:
            return self.dict_(depth)
        if k == 16 and self.cfg.twins and not deep and r.chance(1, 2):
            return self.twins(depth)
        if k in (15, 16) and not deep:
            return self.ref(depth)
        if k == 17 and self.cfg.unions and not deep:
            return self.union(depth)
        if k == 18 and self.cfg.all_of and not deep:
            if self.cfg.chains and r.chance(1, 4):
                return self.chain(depth)
            return self.all_of(depth)
        return self.scalar()

    def doc(self) -> dict:
        r = self.rng
        if self.cfg.roots and r.chance(1, 8):
            k = r.below(3)
            body = self.array(1) if k == 0 else (self.integer() if k == 1 else self.string())
            self.features.add("root_model")
        else:
            body = self.object_(0, props_min=2)
        d = {"title": "Model", **body}
        defs = {k: v for k, v in self.defs.items() if v}
        if defs:
            d["definitions"] = defs
        if self.cfg.draft4:
            d["x-draft4"] = True
        return d


def gen_doc(rng: Rng, cfg: GenCfg | None = None) -> tuple[dict, set[str]]:
    g = DocGen(rng, cfg or GenCfg())
    d = g.doc()
    return d, g.features


# ------------------------------------------------------------------ schema walking helpers
def resolve(doc: dict, s: dict) -> dict:
    seen = 0
    while isinstance(s, dict) and "$ref" in s and seen < 20:
        name = s["$ref"].rsplit("/", 1)[1]
        s = doc.get("definitions", {}).get(name, {})
        seen += 1
    return s


def types_of(s: dict) -> list[str]:
    t = s.get("type")
    if t is None:
        return []
    return list(t) if isinstance(t, list) else [t]


def admits_null(doc: dict, s: dict) -> bool:
    try:
        return validator_for({**{k: v for k, v in doc.items() if k in ("definitions", "x-draft4")}, **s}).is_valid(None)
    except Exception:  # noqa: BLE001
        return False


def sub_validator(doc: dict, s: dict):
    return validator_for({**{k: v for k, v in doc.items() if k in ("definitions", "x-draft4")}, **s})


# ------------------------------------------------------------------ constructive valid values
def _num_candidates(s: dict, integer: bool) -> list:
    """boundary values of every bound, then filtered by the caller through jsonschema"""
    step = 1 if integer else 0.5
    pts: list = []
    lo = hi = None
    if "minimum" in s:
        lo = s["minimum"]
        pts += [lo, lo + step]
    if isinstance(s.get("exclusiveMinimum"), (int, float)) and not isinstance(s.get("exclusiveMinimum"), bool):
        lo = s["exclusiveMinimum"]
        pts += [lo + step, lo + (1 if integer else 0.25)]
    if "maximum" in s:
        hi = s["maximum"]
        pts += [hi, hi - step]
    if isinstance(s.get("exclusiveMaximum"), (int, float)) and not isinstance(s.get("exclusiveMaximum"), bool):
        hi = s["exclusiveMaximum"]
        pts += [hi - step, hi - (1 if integer else 0.25)]
    if lo is None and hi is None:
        pts += [0, 1, -3, 40]
    elif lo is None:
        pts += [hi - 10]
    elif hi is None:
        pts += [lo + 10]
    m = s.get("multipleOf")
    if m:
        base = lo if lo is not None else (hi - 8 * m if hi is not None else 0)
        k0 = int(base // m)
        pts += [m * (k0 + i) for i in range(0, 5)]
    if integer:
        out = []
        for p in pts:
            for q in (int(p), int(p) + 1, int(p) - 1) if p != int(p) else (int(p),):
                out.append(q)
        pts = out
    else:
        pts = pts + [2] if not pts else pts
    res = []
    for p in pts:
        if isinstance(p, float) and p == int(p) and integer:
            p = int(p)
        if p not in res:
            res.append(p)
    return res


def _scan_numbers(s: dict, draft4: bool) -> list:
    cls = jsonschema.Draft4Validator if draft4 else jsonschema.Draft7Validator
    v = cls({k: x for k, x in s.items() if k != "type"} | {"type": [t for t in types_of(s) if t != "null"][0]})
    integer = "integer" in types_of(s)
    grid = range(-30, 61) if integer else [x / 4 for x in range(-120, 241)]
    return [x for x in grid if v.is_valid(x)]


def _str_of_len(n: int, salt: int = 0) -> str:
    return "".join(LETTERS[(i + salt) % len(LETTERS)] for i in range(n))


def _str_candidates(s: dict) -> list[str]:
    if "pattern" in s:
        for pat, good, _bad in PATTERNS_ANCHORED + PATTERNS_UNANCHORED:
            if pat == s["pattern"]:
                return list(good)
    lo = s.get("minLength")
    hi = s.get("maxLength")
    ns = []
    if lo is not None:
        ns += [lo, lo + 1]
    if hi is not None:
        ns += [hi, max(hi - 1, 0)]
    if lo is None and hi is None:
        ns = [2, 0, 5]
    out = []
    for i, n in enumerate(ns):
        v = _str_of_len(n, i)
        if v not in out:
            out.append(v)
    return out


def disc_selection(s: dict) -> tuple[str, list[tuple[str, str]]]:
    """(property name, [(tag value, "$ref" it selects)]) of a discriminated union node: the mapping as
    written, or — without one — every alternative under its own schema name"""
    d = s["discriminator"]
    prop = d["propertyName"] if isinstance(d, dict) else d
    alts = [a["$ref"] for a in (s.get("oneOf") or s.get("anyOf") or []) if isinstance(a, dict) and "$ref" in a]
    mapping = d.get("mapping") if isinstance(d, dict) else None
    if mapping:
        tail = {a.rsplit("/", 1)[1]: a for a in alts}
        sel = []
        for k, r in mapping.items():
            r2 = r if "/" in r else tail.get(r, r)
            sel.append((k, tail.get(r2.rsplit("/", 1)[1], r2)))
        return prop, sel
    return prop, [(a.rsplit("/", 1)[1], a) for a in alts]


def disc_ok(doc: dict, s: Any, v: Any, depth: int = 0) -> bool:
    """What OpenAPI's `discriminator` adds to JSON-Schema validity (jsonschema ignores the keyword):
    wherever a discriminated union applies, the value carries the tag, the tag selects one of the
    alternatives and the value is valid under THAT alternative. Checked along the schema (members, items,
    additionalProperties values, $ref, allOf parts, the alternative(s) of a plain union that match)."""
    if depth > 12 or not isinstance(s, dict):
        return True
    if "$ref" in s:
        return disc_ok(doc, resolve(doc, s), v, depth + 1)
    if "discriminator" in s and ("oneOf" in s or "anyOf" in s):
        prop, sel = disc_selection(s)
        if not isinstance(v, dict) or not isinstance(v.get(prop), str):
            return False
        alts = {a["$ref"] for a in (s.get("oneOf") or s.get("anyOf")) if isinstance(a, dict) and "$ref" in a}
        hit = [r for k, r in sel if k == v[prop]]
        if not hit or hit[0] not in alts:
            return False
        return sub_validator(doc, {"$ref": hit[0]}).is_valid(v) and disc_ok(doc, {"$ref": hit[0]}, v, depth + 1)
    for key in ("anyOf", "oneOf"):
        if key in s:
            ok = [a for a in s[key] if sub_validator(doc, a).is_valid(v)]
            return any(disc_ok(doc, a, v, depth + 1) for a in ok) if ok else True
    for part in s.get("allOf", []):
        if not disc_ok(doc, part, v, depth + 1):
            return False
    if isinstance(v, dict):
        props = s.get("properties") or {}
        for k, x in v.items():
            if k in props:
                if not disc_ok(doc, props[k], x, depth + 1):
                    return False
            elif isinstance(s.get("additionalProperties"), dict) and not disc_ok(doc, s["additionalProperties"], x, depth + 1):
                return False
    if isinstance(v, list) and isinstance(s.get("items"), dict):
        return all(disc_ok(doc, s["items"], x, depth + 1) for x in v)
    return True


def disc_const_tag(doc: dict) -> bool:
    """a definition selected through a discriminator declares the tag property with `const`"""
    found = False

    def walk(s: Any) -> None:
        nonlocal found
        if isinstance(s, dict):
            if "discriminator" in s and ("oneOf" in s or "anyOf" in s):
                prop, sel = disc_selection(s)
                for _, ref in sel:
                    d = resolve(doc, {"$ref": ref})
                    if isinstance(d, dict) and "const" in ((d.get("properties") or {}).get(prop) or {}):
                        found = True
            for v in s.values():
                walk(v)
        elif isinstance(s, list):
            for v in s:
                walk(v)

    walk(doc)
    return found


def allof_required_const(doc: Any) -> bool:
    """an allOf-level `required` — a property-less member `{"required": [...]}`, or `required` next to `allOf` —
    names a `const` member declared inline"""
    if isinstance(doc, list):
        return any(allof_required_const(x) for x in doc)
    if not isinstance(doc, dict):
        return False
    parts = doc.get("allOf")
    if isinstance(parts, list):
        bare = [n for p in parts if isinstance(p, dict) and set(p) == {"required"} for n in p["required"]]
        bare += list(doc.get("required") or [])  # `required` next to `allOf` marks the finished fields as well
        for p in parts:
            if isinstance(p, dict) and isinstance(p.get("properties"), dict):
                if any(isinstance(ps, dict) and "const" in ps and n in bare for n, ps in p["properties"].items()):
                    return True
    return any(allof_required_const(v) for v in doc.values())


def undeclared_members(doc: dict, s: Any, v: Any, depth: int = 0) -> set:
    """how `additionalProperties` is written ("absent" / "true") at the objects of `v` that carry a member
    their schema does not declare"""
    out: set = set()
    if depth > 10 or not isinstance(s, dict):
        return out
    s = resolve(doc, s)
    alts = s.get("anyOf") or s.get("oneOf")
    if alts:
        for a in alts:
            if sub_validator(doc, a).is_valid(v):
                return undeclared_members(doc, a, v, depth + 1)
        return out
    if "allOf" in s:
        s = merge_all_of(doc, s, v)
    if isinstance(v, dict) and isinstance(s.get("properties"), dict):
        ap = s.get("additionalProperties")
        for k, x in v.items():
            if k in s["properties"]:
                out |= undeclared_members(doc, s["properties"][k], x, depth + 1)
            elif ap is None or ap is True:
                out.add("true" if ap is True else "absent")
    elif isinstance(v, dict) and isinstance(s.get("additionalProperties"), dict):
        for x in v.values():
            out |= undeclared_members(doc, s["additionalProperties"], x, depth + 1)
    if isinstance(v, list) and isinstance(s.get("items"), dict):
        for x in v:
            out |= undeclared_members(doc, s["items"], x, depth + 1)
    return out


def has_discriminator(doc: Any) -> bool:
    if isinstance(doc, dict):
        return "discriminator" in doc or any(has_discriminator(v) for v in doc.values())
    if isinstance(doc, list):
        return any(has_discriminator(v) for v in doc)
    return False


def is_valid(doc: dict, inst: Any) -> bool:
    """validity under the document: jsonschema + the discriminator reading of OpenAPI"""
    if not validator_for(doc).is_valid(inst):
        return False
    return disc_ok(doc, {k: x for k, x in doc.items() if k not in ("definitions", "title", "x-draft4")}, inst) if has_discriminator(doc) else True


def disc_invalid_variants(doc: dict, inst: Any, limit: int = 4) -> list:
    """instances that jsonschema accepts but the discriminator does not: an object standing in a
    discriminated union with its tag replaced by a value outside the mapping, or by another branch's tag"""
    out: list = []
    body = {k: x for k, x in doc.items() if k not in ("definitions", "title", "x-draft4")}

    def walk(s: Any, v: Any, path: list, depth: int = 0) -> None:
        if depth > 8 or not isinstance(s, dict) or len(out) >= limit:
            return
        s = resolve(doc, s)
        if "discriminator" in s and ("oneOf" in s or "anyOf" in s):
            prop, sel = disc_selection(s)
            if isinstance(v, dict) and isinstance(v.get(prop), str):
                others = [k for k, _ in sel if k != v[prop]]
                for t in ["zz_no_such_tag", *others[:1]]:
                    out.append(_set_path(inst, [*path, prop], t))
            return
        if isinstance(v, dict):
            for k, x in v.items():
                ps = (s.get("properties") or {}).get(k)
                if ps is not None:
                    walk(ps, x, [*path, k], depth + 1)
        if isinstance(v, list) and isinstance(s.get("items"), dict):
            for i, x in enumerate(v[:1]):
                walk(s["items"], x, [*path, i], depth + 1)

    walk(body, inst, [])
    return [x for x in out if not is_valid(doc, x)]


def candidates(doc: dict, s: Any, depth: int = 0, budget: int = 3) -> list:
    """A few candidate values for schema `s` (first = the plainest), each valid under `s` according
    to jsonschema (and to the discriminators below `s`)."""
    if s is True or s == {}:
        return [1, "q"]
    cs = _candidates(doc, s, depth, budget)
    v = sub_validator(doc, s)
    hd = has_discriminator(s) or has_discriminator(doc.get("definitions"))
    out = []
    for c in cs:
        if v.is_valid(c) and (not hd or disc_ok(doc, s, c)) and not any(c == o and type(c) is type(o) for o in out):
            out.append(c)
    return out


def _candidates(doc: dict, s: Any, depth: int = 0, budget: int = 3) -> list:
    if s is True or s == {}:
        return [1, "q"]
    if "$ref" in s:
        if depth > 4:
            return []
        return candidates(doc, resolve(doc, s), depth + 1, budget)
    if "const" in s:
        return [s["const"]]
    if "enum" in s:
        return list(s["enum"])
    if "discriminator" in s and ("anyOf" in s or "oneOf" in s):
        # every mapping key (or implicit name) with an instance of the definition it selects
        prop, sel = disc_selection(s)
        per_ref = {ref: [c for c in candidates(doc, {"$ref": ref}, depth + 1, budget) if isinstance(c, dict)] for _, ref in sel}
        out = []
        for rank in (0, 1):  # first one instance per tag (EVERY tag), then a second one
            for tag, ref in sel:
                if len(per_ref[ref]) > rank:
                    out.append({**per_ref[ref][rank], prop: tag})
        return out
    if "anyOf" in s or "oneOf" in s:
        out = []
        for alt in s.get("anyOf") or s.get("oneOf"):
            out += candidates(doc, alt, depth + 1, budget)[:2]
        return out
    if "allOf" in s:
        base: dict = {}
        variants: list[dict] = []
        merged = merge_all_of(doc, s)
        return candidates(doc, merged, depth + 1, budget)
    ts = types_of(s)
    out: list = []
    for t in ts or (["object"] if "properties" in s else []):
        if t == "null":
            continue
        if t in ("integer", "number"):
            d4 = bool(doc.get("x-draft4"))
            ok = set(map(float, _scan_numbers(s, d4)))
            cs = [c for c in _num_candidates(s, t == "integer") if float(c) in ok or sub_validator(doc, s).is_valid(c)]
            if not cs:
                sc = _scan_numbers(s, d4)
                cs = sc[:1] + sc[-1:]
            out += cs
        elif t == "string":
            out += _str_candidates(s)
        elif t == "boolean":
            out += [True, False]
        elif t == "array":
            out += _array_candidates(doc, s, depth, budget)
        elif t == "object":
            out += _object_candidates(doc, s, depth, budget)
    if "null" in ts:
        out.append(None)
    return out


def _array_candidates(doc: dict, s: dict, depth: int, budget: int) -> list:
    items = s.get("items", {})
    iv = candidates(doc, items, depth + 1, budget) if depth < 5 else []
    lo = s.get("minItems", 0)
    hi = s.get("maxItems")
    # the plainest candidate is non-empty (so that item mutations exist), then the boundaries
    lens = [max(lo, 1), lo] + ([hi] if hi is not None else [lo + 2])
    out = []
    for n in lens:
        if n == 0:
            arr: list = []
        elif not iv:
            continue
        else:
            arr = [copy.deepcopy(iv[i % len(iv)]) for i in range(n)]
        if arr not in out:
            out.append(arr)
    if isinstance(items, dict) and has_discriminator(resolve(doc, items)):
        # every tag of a discriminated item schema occurs in some array
        n = max(lo, 1)
        for j in range(1, len(iv)):
            arr = [copy.deepcopy(iv[(j + i) % len(iv)]) for i in range(n)]
            if arr not in out:
                out.append(arr)
    return out


def merge_all_of(doc: dict, s: dict, value: Any = None) -> dict:
    """flatten allOf of object parts (refs resolved) into one object schema — used for instance
    construction and by the normal form. With `value`: a `oneOf` / `anyOf` standing in the schema or in one of
    its parts contributes the first alternative under which `value` is valid (which members are declared then
    depends on the instance)."""
    props: dict = {}
    req: list = []
    ap = None
    from_ref: dict[str, bool] = {}  # member -> declared by a $ref part
    own_req: dict[str, bool] = {}  # member -> required by the part that declares it
    bare_req: list = []  # names listed by a property-less part `{"required": [...]}`
    for idx, part in enumerate([{k: v for k, v in s.items() if k != "allOf"}, *s.get("allOf", [])]):
        if idx > 0 and isinstance(part, dict) and set(part) == {"required"}:
            bare_req += list(part["required"])
        p = resolve(doc, part)
        if "allOf" in p:
            p = merge_all_of(doc, p, value)
        if value is not None:
            for key in ("oneOf", "anyOf"):
                for alt in p.get(key) or []:
                    if isinstance(alt, dict) and sub_validator(doc, alt).is_valid(value):
                        pa = resolve(doc, alt)
                        if "allOf" in pa or "oneOf" in pa or "anyOf" in pa:
                            pa = merge_all_of(doc, pa, value)
                        p = {**p, "properties": {**(p.get("properties") or {}), **(pa.get("properties") or {})}}
                        break
        for nm in p.get("properties", {}):
            from_ref[nm] = "$ref" in part
            own_req[nm] = nm in p.get("required", [])
        props.update(p.get("properties", {}))
        req += [x for x in p.get("required", []) if x not in req]
        if "additionalProperties" in p:
            ap = p["additionalProperties"]
    out: dict = {"type": "object", "properties": props}
    inherited = [nm for nm in bare_req if from_ref.get(nm) and not own_req.get(nm)]
    if inherited:
        # required only by an allOf-level `required`, declared by a referenced part
        out["x-allof-inherited-required"] = inherited
    if req:
        out["required"] = req
    if ap is not None:
        out["additionalProperties"] = ap
    return out


def _object_candidates(doc: dict, s: dict, depth: int, budget: int) -> list:
    props = s.get("properties", {})
    req = s.get("required", [])
    if not props:
        ap = s.get("additionalProperties")
        if isinstance(ap, dict):
            vs = candidates(doc, ap, depth + 1, budget) if depth < 5 else []
            out = [{}]
            if vs:
                out.insert(0, {"kq": copy.deepcopy(vs[0])})
                if len(vs) > 1:
                    out.append({"kq": copy.deepcopy(vs[0]), "zw": copy.deepcopy(vs[-1])})
            return out
        return [{}]
    per: dict[str, list] = {}
    for nm, ps in props.items():
        per[nm] = candidates(doc, ps, depth + 1, budget) if depth < 5 else []
    full = {nm: copy.deepcopy(vs[0]) for nm, vs in per.items() if vs}
    minimal = {nm: copy.deepcopy(per[nm][0]) for nm in req if per.get(nm)}
    out = [full]
    if minimal != full:
        out.append(minimal)
    if s.get("additionalProperties") is True and "zz_extra" not in props:
        # an open object that says so: a member it does not declare is part of a valid instance
        out.append({**copy.deepcopy(full), "zz_extra": 1})
    # one member at a time through its other candidates (boundaries, nulls)
    for nm, vs in per.items():
        wide = has_discriminator(resolve(doc, props[nm])) if isinstance(props[nm], dict) else False
        for v in vs[1 : 1 + (max(budget, 8) if wide else budget)]:
            inst = copy.deepcopy(full)
            inst[nm] = copy.deepcopy(v)
            if inst not in out:
                out.append(inst)
    return out


def valid_instances(doc: dict, limit: int = 40) -> list:
    out = []
    for c in candidates(doc, {k: x for k, x in doc.items() if k not in ("definitions", "title", "x-draft4")}):
        if is_valid(doc, c) and c not in out:
            out.append(c)
        if len(out) >= limit:
            break
    return out


# ------------------------------------------------------------------ one-step invalid mutations
@dataclass
class Mutation:
    instance: Any
    keyword: str  # violated keyword: type | required | enum | const | additionalProperties | <constraint keyword>
    location: str  # member | array_item | ap_value | root
    path: list  # instance path of the mutated value
    leaf: dict  # the schema node whose keyword is violated
    cause: str = "none"  # trigger class used by known-finding matchers
    in_union: bool = False
    value: Any = None
    siblings: list = field(default_factory=list)  # other union alternatives when the mutated value stands directly in a union


WRONG_TYPE = {
    "integer": ["zq", [], {}],
    "number": ["zq", [], {}],
    "string": [[], {}],
    "boolean": ["zq", [], 2],
    "array": [{}, 5, "zq"],
    "object": [5, "zq"],
}


def _outside(s: dict, t: str) -> list[tuple[str, Any]]:
    """(keyword, value just outside that bound) for scalar schema s of type t"""
    out: list[tuple[str, Any]] = []
    integer = t == "integer"
    step = 1 if integer else 0.5

    if t in ("integer", "number"):
        import math

        def isnum(x):
            return isinstance(x, (int, float)) and not isinstance(x, bool)

        def below(m, exclusive):  # largest candidate violating a lower bound m
            if integer:
                return math.floor(m) if m != math.floor(m) else (int(m) if exclusive else int(m) - 1)
            return m if exclusive else m - step

        def above(m, exclusive):
            if integer:
                return math.ceil(m) if m != math.floor(m) else (int(m) if exclusive else int(m) + 1)
            return m if exclusive else m + step

        if "minimum" in s:
            # a draft-4 `exclusiveMinimum: true` is reported by jsonschema under the keyword `minimum`
            out.append(("minimum", below(s["minimum"], s.get("exclusiveMinimum") is True)))
        if isnum(s.get("exclusiveMinimum")):
            out.append(("exclusiveMinimum", below(s["exclusiveMinimum"], True)))
        if "maximum" in s:
            out.append(("maximum", above(s["maximum"], s.get("exclusiveMaximum") is True)))
        if isnum(s.get("exclusiveMaximum")):
            out.append(("exclusiveMaximum", above(s["exclusiveMaximum"], True)))
        if "multipleOf" in s:
            m = s["multipleOf"]
            lo = s.get("minimum", s.get("exclusiveMinimum") if not isinstance(s.get("exclusiveMinimum"), bool) else None)
            base = lo if isinstance(lo, (int, float)) else 0
            k0 = int(base // m) + 1
            for k in range(k0, k0 + 4):
                cand = m * k + (1 if integer and m > 1 else m / 2)
                if integer and cand != int(cand):
                    continue
                out.append(("multipleOf", int(cand) if integer else cand))
    if t == "string":
        if "minLength" in s and s["minLength"] > 0:
            out.append(("minLength", _str_of_len(s["minLength"] - 1)))
        if "maxLength" in s:
            out.append(("maxLength", _str_of_len(s["maxLength"] + 1)))
        if "pattern" in s:
            for pat, _good, bad in PATTERNS_ANCHORED + PATTERNS_UNANCHORED:
                if pat == s["pattern"]:
                    out += [("pattern", b) for b in bad[:2]]
    return out


def _cause(keyword: str, leaf: dict) -> str:
    ts = types_of(leaf)
    if keyword in ("exclusiveMinimum", "exclusiveMaximum"):
        v = leaf.get(keyword)
        if isinstance(v, int) and not isinstance(v, bool) and abs(v) > 2**53:
            return "big_exclusive_bound_through_float"
    if keyword in BOUND_KEYS and "integer" in ts:
        v = leaf.get(keyword)
        if keyword in ("minimum", "maximum") and isinstance(v, float) and v != int(v):
            return "nonintegral_bound_on_integer"
        if isinstance(v, float) and not isinstance(v, bool) and v != int(v):
            return "nonintegral_bound_on_integer"
    return "none"


def _leaf_mutations(doc: dict, s: dict, value: Any, loc: str) -> list[tuple[str, Any, dict]]:
    """replacement values for `value` (valid under `s`) that break exactly one keyword of s itself"""
    s0 = s
    s = resolve(doc, s)
    out: list[tuple[str, Any, dict]] = []
    if "const" in s:
        c = s["const"]
        out.append(("const", "not-" + c if isinstance(c, str) else c + 1000, s))
        return out
    if "enum" in s:
        vals = s["enum"]
        if all(isinstance(x, str) for x in vals):
            out.append(("enum", "zz_not_member", s))
        else:
            out.append(("enum", max(x for x in vals if isinstance(x, int)) + 1000, s))
        return out
    ts = [t for t in types_of(s) if t != "null"]
    if len(ts) != 1:
        return out
    t = ts[0]
    if value is None:
        return out
    for w in WRONG_TYPE.get(t, []):
        out.append(("type", w, s))
    for kw, v in _outside(s, t):
        out.append((kw, v, s))
    if t == "array" and isinstance(value, list):
        if "minItems" in s and s["minItems"] > 0 and len(value) >= 1:
            out.append(("minItems", value[: s["minItems"] - 1], s))
        if "maxItems" in s:
            n = s["maxItems"] + 1
            pool = value or candidates(doc, s.get("items", True))[:2]
            if pool:
                out.append(("maxItems", [copy.deepcopy(pool[i % len(pool)]) for i in range(n)], s))
    return out


def _set_path(inst: Any, path: list, v: Any) -> Any:
    if not path:
        return v
    new = copy.deepcopy(inst)
    cur = new
    for p in path[:-1]:
        cur = cur[p]
    cur[path[-1]] = v
    return new


def _del_path(inst: Any, path: list) -> Any:
    new = copy.deepcopy(inst)
    cur = new
    for p in path[:-1]:
        cur = cur[p]
    del cur[path[-1]]
    return new


def _walk(doc: dict, s: dict, value: Any, path: list, loc: str, in_union: bool, out: list, root: Any, depth: int = 0, ctx_cause: str = "none") -> None:
    """collect raw mutations (not yet confirmed) below schema s / value; `ctx_cause`: trigger class inherited from
    an enclosing construct (the value schema of a map object behind a nullable type list)"""
    if depth > 6 or not isinstance(s, dict):
        return
    sr = resolve(doc, s)
    if "anyOf" in sr or "oneOf" in sr:
        alts = sr.get("anyOf") or sr.get("oneOf")
        for i, alt in enumerate(alts):
            if sub_validator(doc, alt).is_valid(value):
                n0 = len(out)
                _walk(doc, alt, value, path, loc, True, out, root, depth + 1, ctx_cause)
                others = [resolve(doc, a) for j, a in enumerate(alts) if j != i]
                for m in out[n0:]:
                    if m.path == path:
                        m.siblings = m.siblings + others
                break
        return
    if "allOf" in sr:
        sr = merge_all_of(doc, sr)
    for kw, v, leaf in _leaf_mutations(doc, sr, value, loc):
        c0 = _cause(kw, leaf)
        out.append(Mutation(_set_path(root, path, v), kw, loc, path, leaf, c0 if c0 != "none" else ctx_cause, in_union, v))
    if isinstance(value, dict) and ("properties" in sr or "object" in types_of(sr)):
        props = sr.get("properties", {})
        for nm in sr.get("required", []):
            if nm in value:
                psch = props.get(nm, {})
                cause = "required_nullable_member" if admits_null(doc, psch) else "none"
                if nm in sr.get("x-allof-inherited-required", []):
                    cause = "allOf_required_inherited_member"
                out.append(Mutation(_del_path(root, [*path, nm]), "required", "member", [*path, nm], sr, cause, in_union, None))
        if sr.get("additionalProperties") is False:
            out.append(
                Mutation(_set_path(root, [*path, "zz_undeclared"], 1), "additionalProperties", "member", [*path, "zz_undeclared"], sr, "none", in_union, 1)
            )
        for nm, psch in props.items():
            if nm in value:
                if value[nm] is None:
                    continue
                _walk(doc, psch, value[nm], [*path, nm], "member", in_union, out, root, depth + 1, ctx_cause)
                # null for a required, non-nullable member is a type violation
                if nm in sr.get("required", []) and not admits_null(doc, psch):
                    pr = resolve(doc, psch)
                    cause = "allOf_required_inherited_member" if nm in sr.get("x-allof-inherited-required", []) else "null_for_required"
                    out.append(Mutation(_set_path(root, [*path, nm], None), "type", "member", [*path, nm], pr, cause, in_union, None))
        ap = sr.get("additionalProperties")
        if isinstance(ap, dict) and not props:
            nmap = "nullable_map_value" if isinstance(sr.get("type"), list) and "null" in sr["type"] else ctx_cause
            for k, v in value.items():
                _walk(doc, ap, v, [*path, k], "ap_value", in_union, out, root, depth + 1, nmap)
                break
    if isinstance(value, list) and isinstance(sr.get("items"), dict):
        for i, v in enumerate(value[:1]):
            _walk(doc, sr["items"], v, [*path, i], "array_item", in_union, out, root, depth + 1, ctx_cause)


def mutations(doc: dict, instance: Any) -> list[Mutation]:
    """One-step mutations of `instance` (valid under doc), each confirmed by jsonschema to be invalid
    with exactly one error, raised by the intended keyword at the intended place."""
    v = validator_for(doc)
    body = {k: x for k, x in doc.items() if k not in ("definitions", "title", "x-draft4")}
    raw: list[Mutation] = []
    _walk(doc, body, instance, [], "root", False, raw, instance)
    out = []
    for m in raw:
        errs = list(v.iter_errors(m.instance))
        if len(errs) > 1 and m.keyword == "required" and all(
            e.validator == "required" and list(e.absolute_path) == m.path[:-1] and e.message.startswith(repr(m.path[-1]) + " is a required")
            for e in errs
        ):
            # the same member required by several parts of an allOf (the class and one of its bases): one violation
            errs = errs[:1]
        if len(errs) != 1:
            continue
        e = errs[0]
        if e.validator in ("anyOf", "oneOf"):
            # invalid for every alternative; the intended keyword must be among the reasons and no
            # alternative may accept it
            subs = [c.validator for c in e.context or []]
            if m.keyword not in subs and not (m.keyword == "minimum" and "exclusiveMinimum" in subs):
                continue
            # one-step means ONE violated constraint: a value that another alternative refuses only because of a
            # bound of its own (a wrong-typed `[]` next to an array alternative with minItems) violates two
            same = {m.keyword, *({"exclusiveMinimum", "exclusiveMaximum"} if m.keyword in ("minimum", "maximum") else ())}
            if any(c in (*BOUND_KEYS, *STR_KEYS, *ARR_KEYS) and c not in same for c in subs):
                continue
            m.in_union = True
        else:
            want = {m.keyword}
            if m.keyword in ("minimum", "maximum"):
                want |= {"exclusiveMinimum", "exclusiveMaximum"}  # draft-4 flags are reported under `minimum`
            if e.validator not in want:
                continue
            # the error must sit where the mutation was made (for `required`/additionalProperties: the parent)
            epath = list(e.absolute_path)
            mpath = m.path[:-1] if m.keyword in ("required", "additionalProperties") else m.path
            if m.keyword in ("minItems", "maxItems"):
                mpath = m.path
            if epath != mpath:
                continue
        out.append(m)
    return out


def lax_coercible(style: str, value: Any, alt: dict) -> bool:
    """Could pydantic's documented lax-mode conversion turn `value` into the type of union
    alternative `alt`? (conservative table; v1 = pydantic.v1, v2 = pydantic 2 lax mode)"""
    ts = [t for t in types_of(alt) if t != "null"]
    if "enum" in alt or "const" in alt:
        return False
    is_num = isinstance(value, (int, float)) and not isinstance(value, bool)
    for t in ts:
        if t == "string" and style == "v1" and (is_num or isinstance(value, bool)):
            return True  # v1: int/float/bool -> str
        if t in ("integer", "number") and (isinstance(value, bool) or (isinstance(value, str) and re.fullmatch(r"\s*-?\d+(\.\d+)?\s*", value))):
            return True
        if t == "integer" and style == "v1" and isinstance(value, float):
            return True  # v1: int(1.5)
        if t == "object" and style == "v1" and isinstance(value, (list, tuple)):
            return True  # v1: dict([]) / a sequence of pairs -> dict
        if t == "boolean" and (value in (0, 1) or (isinstance(value, str) and value.lower() in ("0", "1", "on", "off", "t", "f", "true", "false", "y", "n", "yes", "no"))):
            return True
    return False


def canon(v: Any) -> str:
    """canonical JSON text with JSON number equality (1.0 == 1)"""

    def fix(x):
        if isinstance(x, bool) or x is None or isinstance(x, str):
            return x
        if isinstance(x, float) and x == int(x):
            return int(x)
        if isinstance(x, list):
            return [fix(i) for i in x]
        if isinstance(x, tuple):
            return [fix(i) for i in x]
        if isinstance(x, dict):
            return {str(k): fix(i) for k, i in x.items()}
        return x

    return json.dumps(fix(v), sort_keys=True, default=str)
