"""Family generators for the semantic properties C03 / C04 (new shared file, used only by them).

Three families of documents that the general generator of `semgen` does not reach, each built so that EVERY
document exercises the family (the general stream would meet them once in a few hundred documents):

* `nullable_doc`      — nullable type lists (`"type": [T, "null"]`, either order) for EVERY type T — free-form
                        object, map object (`additionalProperties: S`), object with members, array, each scalar —
                        in EVERY position: member (required or not), array item (one and two levels), map value,
                        union alternative (anyOf / oneOf), behind a `$ref`, the document root, the items of a root
                        array; with instances that carry `null` at exactly that position.
* `nested_allof_doc`  — combinations nested inside the members of an `allOf`: a member with `properties` AND a
                        sibling `allOf` / `oneOf` / `anyOf`, the same without sibling properties, two levels deep;
                        with instances that carry the members contributed by the nested combination.
* `lattice_doc`       — multiple inheritance: `allOf` with several `$ref` bases over an inheritance lattice of
                        depth >= 2 (diamonds included), with `required` NEXT TO `allOf` naming members declared at
                        every position of the lattice (own, direct base, ancestor of the first / of a later base).

* `openapi_params_doc` — OpenAPI documents with an operation whose query parameters are generated as a model
                        (`openapi_scopes` schemas + paths + parameters): parameters declared with `schema:` and with
                        `content: {<media type>: {schema: …}}`, arrays / strings / numbers with constraints, required
                        or not, next to a component schema; per generated class the JSON-Schema document that says
                        what the class must accept (the instance corpus is derived from it).

Only the documents and candidate instances are made here; validity labels come from jsonschema
(`semgen.is_valid`, `semgen.mutations`).
"""
from __future__ import annotations

import copy
from typing import Any

from . import semgen
from .common import Rng
from .semgen import ALIAS_NAMES, PLAIN_NAMES, DocGen, GenCfg

# ------------------------------------------------------------------ nullable type lists
NULLABLE_KINDS = ("object_free", "object_map", "object_props", "array", "integer", "number", "string", "boolean")
NULLABLE_POSITIONS = ("member", "member_required", "array_item", "array_item2", "map_value", "union_alt", "def_ref", "def_item")
ROOT_POSITIONS = ("root", "root_item")


def _tl(r: Rng, t: str) -> list[str]:
    return [t, "null"] if r.chance(2, 3) else ["null", t]


def nullable_schema(g: DocGen, kind: str) -> dict:
    """a schema of the given kind whose `type` is the list [T, "null"] (either order)"""
    r = g.rng
    if kind == "object_free":
        s: dict[str, Any] = {"type": _tl(r, "object")}
        if r.chance(1, 4):
            s["additionalProperties"] = True
        return s
    if kind == "object_map":
        return {"type": _tl(r, "object"), "additionalProperties": g.scalar(nullable=r.chance(1, 4))}
    if kind == "object_props":
        names = r.sample(PLAIN_NAMES + (ALIAS_NAMES if r.chance(1, 4) and g.cfg.alias_names else []), r.range(1, 3))
        s = {"type": _tl(r, "object"), "properties": {n: g.scalar() for n in names}}
        req = [n for n in names if r.chance(1, 2)]
        if req:
            s["required"] = req
        return s
    if kind == "array":
        s = {"type": _tl(r, "array"), "items": g.scalar(nullable=r.chance(1, 4))}
        if r.chance(1, 4):
            s["minItems"] = r.range(0, 1)
        if r.chance(1, 4):
            s["maxItems"] = r.range(2, 3)
        return s
    if kind == "boolean":
        return {"type": _tl(r, "boolean")}
    s = {"integer": g.integer, "number": g.number, "string": g.string}[kind](True)
    s["type"] = _tl(r, kind)
    return s


def _other_alt(kind: str) -> dict:
    """a union alternative that shares no value with the nullable schema and that no lax conversion reaches"""
    return {"type": "boolean"} if kind in ("array", "object_free", "object_map", "object_props") else {"type": "array", "items": {"type": "string"}}


def _place(g: DocGen, s: dict, kind: str, pos: str) -> tuple[dict, Any]:
    """(schema of the member, wrap) — wrap(v) is the member value that has `v` at the place of `s`"""
    r = g.rng
    if pos in ("member", "member_required"):
        return s, lambda v: v
    if pos == "array_item":
        return {"type": "array", "items": s}, lambda v: [v]
    if pos == "array_item2":
        return {"type": "array", "items": {"type": "array", "items": s}}, lambda v: [[v]]
    if pos == "map_value":
        return {"type": "object", "additionalProperties": s}, lambda v: {"kq": v}
    if pos == "union_alt":
        alts = [_other_alt(kind), s]
        if r.chance(1, 2):
            alts.reverse()
        return {r.choice(["anyOf", "oneOf"]): alts}, lambda v: v
    name = g.fresh_def(r.choice(["Maybe", "Slot", "Cell", "Entry", "Opt"]))
    g.defs[name] = s
    ref = {"$ref": f"#/definitions/{name}"}
    if pos == "def_ref":
        return ref, lambda v: v
    return {"type": "array", "items": ref}, lambda v: [v]


MODELLED_NULLABLE_KINDS = ("object_free", "object_map", "integer", "number", "string", "boolean")


def nullable_doc(rng: Rng, i: int, plain_names: bool = False, kinds: tuple = NULLABLE_KINDS) -> tuple[dict, set[str], list]:
    """document i of the family, its features and the instances that carry `null` at one place each
    (candidates: the caller keeps those that jsonschema confirms). The (kind, position) pairs are enumerated
    systematically: 13 consecutive documents cover all 64 of them; every sixth document is a root position.
    `kinds`: the types to draw from (`MODELLED_NULLABLE_KINDS`: those the Lean model covers)."""
    g = DocGen(rng, GenCfg(max_depth=1, alias_names=not plain_names))
    r = g.rng
    feats: set[str] = set()
    if i % 6 == 5:
        # the nullable schema is the whole document, or the item schema of a document that is an array
        kind = kinds[(i // 6) % len(kinds)]
        pos = ROOT_POSITIONS[(i // 48) % 2] if i >= 48 else r.choice(list(ROOT_POSITIONS))
        s = nullable_schema(g, kind)
        feats.add(f"nullable:{kind}@{pos}")
        doc = {"title": "Model", **s} if pos == "root" else {"title": "Model", "type": "array", "items": s}
        plain = [c for c in semgen.candidates(doc, s) if c is not None][:2]
        if pos == "root":
            return doc, feats, [None, *plain]
        return doc, feats, [[None], *([[plain[0], None]] if plain else []), *([[p] for p in plain])]
    n = 5
    names = r.sample(PLAIN_NAMES + ([] if plain_names else ALIAS_NAMES[:2]), n)
    props: dict[str, dict] = {}
    req: list[str] = []
    wraps: dict[str, Any] = {}
    leaf: dict[str, dict] = {}
    for j, nm in enumerate(names):
        c = (((i - i // 6) * n + j) * 37) % (8 * len(kinds))
        kind, pos = kinds[c % len(kinds)], NULLABLE_POSITIONS[c // len(kinds)]
        s = nullable_schema(g, kind)
        props[nm], wraps[nm] = _place(g, s, kind, pos)
        leaf[nm] = s
        if pos == "member_required" or (pos != "member" and r.chance(1, 3)):
            req.append(nm)
        feats.add(f"nullable:{kind}@{pos}")
    doc: dict[str, Any] = {"title": "Model", "type": "object", "properties": props}
    if req:
        doc["required"] = req
    defs = {k: v for k, v in g.defs.items() if v}
    if defs:
        doc["definitions"] = defs
    base = (semgen.valid_instances(doc, limit=1) or [None])[0]
    insts: list = []
    if isinstance(base, dict):
        for nm in names:
            insts.append({**copy.deepcopy(base), nm: wraps[nm](None)})
            plain = [c for c in semgen.candidates(doc, leaf[nm]) if c is not None]
            if plain and isinstance(props[nm].get("items"), dict) and "items" not in props[nm]["items"]:
                insts.append({**copy.deepcopy(base), nm: [copy.deepcopy(plain[0]), None, copy.deepcopy(plain[-1])]})
            if plain and "additionalProperties" in props[nm] and "properties" not in props[nm] and props[nm].get("type") == "object":
                insts.append({**copy.deepcopy(base), nm: {"kq": copy.deepcopy(plain[0]), "zw": None}})
            if "object" in semgen.types_of(leaf[nm]) and "properties" not in leaf[nm] and not isinstance(leaf[nm].get("additionalProperties"), dict):
                # a free-form object with something in it (nested containers, a null)
                insts.append({**copy.deepcopy(base), nm: wraps[nm]({"kq": 1, "zw": ["q", None], "v": {"w": 1.5}})})
    return doc, feats, insts


def null_places(doc: dict, s: Any, v: Any, pos: str = "root", depth: int = 0) -> set:
    """{(kind, position)} of the places where the instance carries `null` under a nullable type list
    (`"type": [T, "null"]`); position = where that schema node stands: root / member / member_required / array_item / map_value /
    def (the root of a definition, reached through `$ref`) / union_alt/<position of the union>"""
    out: set = set()
    if depth > 10 or not isinstance(s, dict):
        return out
    if "$ref" in s:
        return null_places(doc, semgen.resolve(doc, s), v, "def", depth + 1)
    alts = s.get("anyOf") or s.get("oneOf")
    if isinstance(alts, list):
        for a in alts:
            if isinstance(a, dict) and semgen.sub_validator(doc, a).is_valid(v):
                out |= null_places(doc, a, v, f"union_alt/{pos}", depth + 1)
        return out
    if "allOf" in s:
        s = semgen.merge_all_of(doc, s)
    ts = s.get("type")
    if v is None:
        if isinstance(ts, list) and "null" in ts and len(ts) == 2:
            t = [x for x in ts if x != "null"][0]
            if t == "object":
                t = "object_props" if "properties" in s else ("object_map" if isinstance(s.get("additionalProperties"), dict) else "object_free")
            out.add((t, pos))
        return out
    if isinstance(v, dict):
        props = s.get("properties") or {}
        for k, x in v.items():
            if k in props:
                out |= null_places(doc, props[k], x, "member_required" if k in (s.get("required") or []) else "member", depth + 1)
            elif isinstance(s.get("additionalProperties"), dict):
                out |= null_places(doc, s["additionalProperties"], x, "map_value", depth + 1)
    if isinstance(v, list) and isinstance(s.get("items"), dict):
        for x in v:
            out |= null_places(doc, s["items"], x, "array_item", depth + 1)
    return out


# ------------------------------------------------------------------ combinations nested in allOf members
def _plain_object(g: DocGen, names: list[str], required_first: bool = False) -> dict:
    r = g.rng
    s: dict[str, Any] = {"type": "object", "properties": {n: g.scalar() for n in names}}
    req = [n for k, n in enumerate(names) if (required_first and k == 0) or r.chance(1, 3)]
    if req:
        s["required"] = req
    return s


class _Names:
    def __init__(self, r: Rng, plain: bool = False) -> None:
        self.pool = r.shuffle(PLAIN_NAMES + ([] if plain else ["kebab-name", "x.y"]))
        self.k = 0

    def take(self, n: int) -> list[str]:
        out = self.pool[self.k : self.k + n]
        self.k += n
        return out


def nested_allof_doc(rng: Rng, i: int, plain_names: bool = False) -> tuple[dict, set[str], list]:
    """a definition `T = allOf[...]` one member of which carries a nested combination, referenced from the
    document (as a member, as array items) or being the document; candidate instances that carry the members
    the nested combination contributes"""
    g = DocGen(rng, GenCfg(max_depth=1, big_bounds=False))
    r = g.rng
    nm = _Names(r, plain_names)
    feats: set[str] = set()

    def define(base: str, body: dict) -> dict:
        name = g.fresh_def(base)
        g.defs[name] = body
        return {"$ref": f"#/definitions/{name}"}

    def nested(level: int) -> tuple[dict, list[list[str]]]:
        """(keywords of the nested combination, the alternatives' distinguishing members)"""
        how = ("allOf", "oneOf", "anyOf", "allOf")[(i + level) % 4] if level == 0 else "allOf"
        if how == "allOf":
            parts: list[dict] = []
            if r.chance(3, 4):
                parts.append(define(r.choice(["Stamped", "Owned", "Tracked"]), _plain_object(g, nm.take(r.range(1, 2)))))
            inner: dict[str, Any] = {"properties": {n: g.scalar() for n in nm.take(r.range(1, 2))}}
            if r.chance(1, 2):
                inner["type"] = "object"
            if level == 0 and i % 3 == 2:
                # a second level: the inner member again has members of its own next to a nested allOf
                inner["allOf"] = [define("Deep", _plain_object(g, nm.take(1))), {"properties": {n: g.scalar() for n in nm.take(1)}}]
                feats.add("nested:allOf_in_allOf_in_allOf")
            parts.append(inner)
            if r.chance(1, 2):
                parts.reverse()
            feats.add("nested:allOf")
            return {"allOf": parts}, []
        tags = nm.take(2)
        alts = [define(b, _plain_object(g, [t, *nm.take(r.range(0, 1))], required_first=True)) for b, t in zip(r.sample(["Circle", "Square", "Line", "Arc"], 2), tags)]
        feats.add(f"nested:{how}")
        return {how: alts}, [[t] for t in tags]

    parts: list[dict] = []
    for _ in range(r.range(0, 2)):
        parts.append(define(r.choice(["Entity", "Base", "Thing"]), _plain_object(g, nm.take(r.range(1, 2)))))
    combo, _tags = nested(0)
    shape = (i // 4 + i) % 4
    if shape == 3:
        member = dict(combo)  # nested combination WITHOUT sibling properties
        feats.add("sibling_properties:no")
    else:
        own = nm.take(r.range(1, 2))
        member = {"properties": {n: g.scalar() for n in own}, **combo}
        if shape != 2:
            member = {"type": "object", **member}
        if r.chance(1, 2):
            member["required"] = own[:1]
        feats.add("sibling_properties:yes")
    parts.insert(r.range(0, len(parts)), member)
    if r.chance(1, 3):
        parts.append({"type": "object", "properties": {n: g.scalar() for n in nm.take(1)}})
    target = {"allOf": parts}
    place = (i // 2) % 3
    if place == 0:
        ref = define("Target", target)
        doc: dict[str, Any] = {"title": "Model", "type": "object", "properties": {"t": ref, "ts": {"type": "array", "items": ref}}}
        feats.add("place:member+array_item")
    elif place == 1:
        doc = {"title": "Model", **target}
        feats.add("place:document")
    else:
        doc = {"title": "Model", "type": "object", "properties": {"t": target}, "required": ["t"]}
        feats.add("place:inline_member")
    defs = {k: v for k, v in g.defs.items() if v}
    if defs:
        doc["definitions"] = defs
    objs = _composed_instances(doc, target)
    if place == 0:
        insts = [{"t": o} for o in objs] + ([{"ts": objs[:3]}] if objs else [])
    elif place == 1:
        insts = objs
    else:
        insts = [{"t": o} for o in objs]
    return doc, feats, insts


def _composed_instances(doc: dict, s: dict, depth: int = 0) -> list[dict]:
    """objects for a schema made of allOf / oneOf / anyOf / properties / $ref: per union alternative, the object
    with every member (first candidate each), the one with the required members only, and one that leaves out
    each optional member in turn (candidates; the caller confirms them with jsonschema)"""
    variants = _collect(doc, s, 0)
    out: list[dict] = []
    for props, req in variants[:4]:
        per = {n: semgen.candidates(doc, ps)[:2] for n, ps in props.items()}
        full = {n: copy.deepcopy(vs[0]) for n, vs in per.items() if vs}
        out.append(full)
        out.append({n: v for n, v in full.items() if n in req})
        for n in props:
            if n not in req:
                out.append({k: v for k, v in full.items() if k != n})
            elif len(per.get(n, [])) > 1:
                out.append({**full, n: copy.deepcopy(per[n][1])})
    uniq: list[dict] = []
    for o in out:
        if o not in uniq:
            uniq.append(o)
    return uniq


def _collect(doc: dict, s: Any, depth: int) -> list[tuple[dict, set]]:
    """[(members, required names)] — one entry per way of choosing a union alternative"""
    if not isinstance(s, dict) or depth > 8:
        return [({}, set())]
    s = semgen.resolve(doc, s)
    acc: list[tuple[dict, set]] = [(dict(s.get("properties") or {}), set(s.get("required") or []))]
    for part in s.get("allOf") or []:
        sub = _collect(doc, part, depth + 1)
        acc = [({**p1, **p2}, r1 | r2) for p1, r1 in acc for p2, r2 in sub]
    for key in ("oneOf", "anyOf"):
        if isinstance(s.get(key), list):
            sub = [x for a in s[key] for x in _collect(doc, a, depth + 1)]
            acc = [({**p1, **p2}, r1 | r2) for p1, r1 in acc for p2, r2 in sub]
    return acc


# ------------------------------------------------------------------ inheritance lattices
CLASS_POOLS = (
    ["Named", "Identified", "Stamped", "Tagged", "Vehicle", "Tracked", "Car", "Van", "Bike"],
    ["Zed", "Yak", "Xeno", "Wolf", "Vole", "Urchin", "Tapir", "Swan", "Rat"],
    ["Alpha", "Beta", "Gamma", "Delta", "Eps", "Zeta", "Eta", "Theta", "Iota"],
)


def lattice_doc(rng: Rng, i: int, undeclared_required: bool = False) -> tuple[dict, set[str], dict]:
    """Definitions forming an inheritance lattice: roots (level 0), classes with one or two root parents
    (level 1), sometimes a level 2 on top of level 1, and leaves `allOf [>= 2 $ref bases (, inline members)]`
    with `required` NEXT TO `allOf` naming inherited members. Returns the document, its features and, per
    member of the document that holds a leaf ("" = the document is the leaf), where each name of the leaf's
    `required` is declared: {member: {name: (index of the base it is reached through, levels up)}}.
    Every third document also has an INTERMEDIATE class with `required` next to its `allOf` naming a member of its
    own parent (the leaf then finds the re-declared copy first). `undeclared_required` (used by the model
    correspondence only — such a document has no valid instance to build mutations from): a leaf also lists a
    name that is declared nowhere in the lattice."""
    g = DocGen(rng, GenCfg(max_depth=1, big_bounds=False))
    r = g.rng
    feats: set[str] = set()
    pool = list(CLASS_POOLS[i % len(CLASS_POOLS)])
    if r.chance(1, 2):
        pool = r.shuffle(pool)  # a subclass may sort before its bases
    names = iter(pool)
    members = iter(r.shuffle(PLAIN_NAMES + ["kebab-name", "serial-no", "x.y", "OrderId"]))
    R = "#/definitions/"
    defs: dict[str, dict] = {}
    parents: dict[str, list[str]] = {}
    own: dict[str, list[str]] = {}

    def scalar() -> dict:
        s = g.scalar()
        return s if r.chance(3, 4) else g.enum()

    def body(k: int) -> dict:
        ms = [next(members) for _ in range(k)]
        b: dict[str, Any] = {"type": "object", "properties": {m: scalar() for m in ms}}
        if r.chance(1, 4):
            b["required"] = ms[:1]
        return b

    level0 = [next(names) for _ in range(r.range(2, 3))]
    for c in level0:
        defs[c] = body(r.range(1, 2))
        parents[c], own[c] = [], list(defs[c]["properties"])
    level1 = [next(names) for _ in range(r.range(2, 3))]
    for k, c in enumerate(level1):
        # parents in the order of level0 (a global order keeps every method resolution order consistent);
        # every root gets a child before one gets two
        ps = [level0[k % len(level0)]]
        if r.chance(1, 3):
            extra = [x for x in level0 if level0.index(x) > level0.index(ps[0])]
            if extra:
                ps.append(r.choice(extra))
                feats.add("two_parents")
        b = body(r.range(1, 2))
        defs[c] = {"allOf": [*({"$ref": R + p} for p in ps), b]}
        if i % 3 == 2 and k == 0:
            defs[c]["required"] = [own[ps[-1]][0]]
            feats.add("intermediate_required")
        parents[c], own[c] = ps, list(b["properties"])
    level2: list[str] = []
    if i % 3 == 1:
        c = next(names)
        p = r.choice(level1)
        b = body(1)
        defs[c] = {"allOf": [{"$ref": R + p}, b]}
        parents[c], own[c] = [p], list(b["properties"])
        level2.append(c)
        feats.add("depth3")

    def ancestors(c: str) -> list[str]:
        out: list[str] = []
        for p in parents[c]:
            out += [p, *ancestors(p)]
        return out

    def distance(c: str, name: str, d: int = 0) -> int | None:
        if name in own[c]:
            return d
        best = None
        for p in parents[c]:
            x = distance(p, name, d + 1)
            if x is not None and (best is None or x < best):
                best = x
        return best

    where: dict[str, dict] = {}
    leaves: list[str] = []
    upper = level2 + level1
    for _ in range(r.range(1, 2)):
        c = next(names)
        k = r.range(2, min(3, len(upper)))
        # bases: pairwise unrelated (neither an ancestor of the other)
        bases: list[str] = []
        for cand in r.shuffle(upper):
            if len(bases) < k and all(cand not in ancestors(b) and b not in ancestors(cand) for b in bases):
                bases.append(cand)
        if len(bases) < 2:
            continue
        parts: list[dict] = [{"$ref": R + b} for b in bases]
        mine: list[str] = []
        if r.chance(1, 2):
            b = body(1)
            parts.append(b)
            mine = list(b["properties"])
            feats.add("leaf_own_members")
        inherited: list[str] = []
        for b in bases:
            for a in [b, *ancestors(b)]:
                inherited += [m for m in own[a] if m not in inherited]
        # name members of EVERY base's furthest ancestor, then a sample of the rest
        must = []
        for b in bases:
            far = ([b, *ancestors(b)])[-1]
            must.append(own[far][0])
        rest = [m for m in inherited + mine if m not in must]
        req = must + r.sample(rest, r.range(0, min(3, len(rest))))
        req = r.shuffle(req)
        if undeclared_required and not leaves:
            req.insert(r.range(0, len(req)), "zz-nowhere")
            feats.add("required_name_declared_nowhere")
        defs[c] = {"allOf": parts, "required": req}
        parents[c], own[c] = bases, mine
        leaves.append(c)
        where[c] = {}
        for name in req:
            if name == "zz-nowhere":
                continue
            for bi, b in enumerate(bases):
                d = distance(b, name)
                if d is not None:
                    where[c][name] = (bi, d + 1)
                    feats.add(f"required@base{min(bi, 2)}_up{min(d + 1, 3)}")
                    break
            else:
                where[c][name] = (-1, 0)
                feats.add("required@own")
        if len({a for b in bases for a in ancestors(b)}) < sum(len(ancestors(b)) for b in bases):
            feats.add("diamond")
    if not leaves:
        return lattice_doc(rng.fork("again"), i, undeclared_required)
    if i % 4 == 3 and len(leaves) == 1:
        # the leaf is the document itself
        leaf = leaves[0]
        doc: dict[str, Any] = {"title": "Model", **defs.pop(leaf), "definitions": defs}
        feats.add("place:document")
        where = {"": where[leaf]}
    else:
        props = {c.lower(): {"$ref": R + c} for c in leaves}
        if r.chance(1, 2):
            props["all"] = {"type": "array", "items": {"$ref": R + leaves[0]}}
        doc = {"title": "Model", "type": "object", "properties": props, "definitions": defs}
        feats.add("place:member")
        where = {**{c.lower(): where[c] for c in leaves}, **({"all": where[leaves[0]]} if "all" in props else {})}
    return doc, feats, where


def lattice_classes(doc: dict) -> dict[str, tuple[list[str], list[str]]]:
    """{definition: (base definitions in order, own member names)} of the allOf/object definitions of a lattice
    document (the document itself under the name "Model" when it is an allOf)"""
    out: dict[str, tuple[list[str], list[str]]] = {}
    items = list((doc.get("definitions") or {}).items())
    if "allOf" in doc:
        items.append(("Model", {k: v for k, v in doc.items() if k in ("allOf", "required", "properties")}))
    for name, d in items:
        bases, own = [], []
        for p in d.get("allOf") or []:
            if "$ref" in p:
                bases.append(p["$ref"].rsplit("/", 1)[1])
            else:
                own += list(p.get("properties") or {})
        own += list(d.get("properties") or {})
        out[name] = (bases, own)
    return out


# ------------------------------------------------------------------ OpenAPI: query parameters as a model
PARAM_NAMES = ["tags", "ids", "q", "limit", "page", "sort", "size", "since", "ratio", "flag", "page-size", "x.filter", "order by"]
PATH_POOL = [("/pets", "get"), ("/things", "post"), ("/orders/items", "get"), ("/v1/users", "put"), ("/reports", "delete")]


def _param_schema(g: DocGen, k: int) -> dict:
    r = g.rng
    if k % 3 == 0:
        # an array with item counts (no constrained-type spelling: they are Field arguments under every option)
        s: dict[str, Any] = {"type": "array", "items": g.scalar()}
        lo = r.range(0, 2)
        if r.chance(3, 4):
            s["minItems"] = lo
        if r.chance(3, 4) or "minItems" not in s:
            s["maxItems"] = lo + r.range(1, 3)
        return s
    if k % 3 == 1:
        return g.string() if r.chance(1, 2) else g.integer()
    return r.choice([g.number, g.enum, g.boolean, g.integer, g.string])()


def openapi_params_doc(rng: Rng, i: int) -> tuple[dict, set[str], list]:
    """an OpenAPI 3 document, its features and [(class, JSON-Schema document of what that class accepts)]:
    the query-parameter model of the operation ("*ParametersQuery": found by its suffix) and a component schema"""
    g = DocGen(rng, GenCfg(max_depth=1, big_bounds=False))
    r = g.rng
    feats: set[str] = set()
    n = r.range(2, 5)
    names = r.sample(PARAM_NAMES, n)
    params: list[dict] = []
    props: dict[str, dict] = {}
    req: list[str] = []
    for j, nm in enumerate(names):
        schema = _param_schema(g, i + j)
        how = ("content", "schema")[(i + j) % 2] if j < 2 else r.choice(["content", "schema"])
        p: dict[str, Any] = {"name": nm, "in": "query"}
        if r.chance(1, 2):
            p["required"] = True
            req.append(nm)
        if how == "schema":
            p["schema"] = schema
        else:
            p["content"] = {r.choice(["application/json", "application/json; charset=utf-8"]): {"schema": schema}}
        kind = "array" if schema.get("type") == "array" else ("enum" if "enum" in schema else str(schema.get("type")))
        feats.add(f"param:{how}:{kind}")
        params.append(p)
        props[nm] = schema
    # parameters that are not part of the query model
    if r.chance(1, 2):
        params.insert(r.range(0, len(params)), {"name": "id", "in": "path", "required": True, "schema": {"type": "integer", "minimum": 1}})
        feats.add("param:path")
    path, method = PATH_POOL[i % len(PATH_POOL)]
    if any(pp.get("in") == "path" for pp in params):
        path = path + "/{id}"
    comp = g.object_(1, props_min=2)
    comp["properties"]["aliases"] = {"type": "array", "items": {"type": "string"}, "maxItems": r.range(1, 3)}
    cname = r.choice(["Pet", "Thing", "Order", "Report"])
    schemas = {cname: comp, **{k: v for k, v in g.defs.items() if v}}
    rw = lambda x: (  # noqa: E731
        {k: (v.replace("#/definitions/", "#/components/schemas/") if k == "$ref" and isinstance(v, str) else rw(v)) for k, v in x.items()}
        if isinstance(x, dict)
        else ([rw(v) for v in x] if isinstance(x, list) else x)
    )
    op: dict[str, Any] = {"parameters": params, "responses": {"200": {"description": "ok"}}}
    if r.chance(1, 3):
        # a parameter declared at the path level is inherited by every operation of the path
        shared = op["parameters"].pop()
        spec_path: dict[str, Any] = {"parameters": [shared], method: op}
        feats.add("param:path_level")
    else:
        spec_path = {method: op}
    spec = {"openapi": "3.0.3", "info": {"title": "t", "version": "1"}, "paths": {path: spec_path}, "components": {"schemas": rw(schemas)}}
    qdoc: dict[str, Any] = {"title": "Model", "type": "object", "properties": props}
    if req:
        qdoc["required"] = req
    cdoc = {"title": "Model", **comp}
    defs = {k: v for k, v in g.defs.items() if v}
    if defs:
        cdoc["definitions"] = defs
    return spec, feats, [("*ParametersQuery", qdoc), (cname, cdoc)]
