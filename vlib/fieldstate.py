"""C02: Model.FieldStr against the real field classes of the five output kinds.

For a real `DataModelField` object the abstract state of `Model.FieldStr` is computed from the
field's INPUTS (required, nullable, default, alias, extras, constraints, options; the key tables
`_EXCLUDE_FIELD_KEYS` / `_FIELD_KEYS` / `_META_FIELD_KEYS` and `_process_data_in_str` of the real
class decide which keyword arguments exist), the Lean functions are run through the driver
(`fieldstr.pyd|dc|ms|td`), and compared with what the real object says: the shape of `str(field)`,
the names that text reads, the library names among `field.imports`, the names of `field.annotated`
around the hint, and the names the rendered class statement of the member reads besides its hint."""
from __future__ import annotations

import ast
import re

LIB = {"pydantic": {"Field", "Annotated"}, "dataclass": {"field"}, "msgspec": {"Annotated", "field", "convert", "Meta", "ClassVar"}, "typed": {"NotRequired"}}


def enc(s: str | None) -> str:
    return "x" + ",".join(format(ord(c), "x") for c in (s or ""))


def b(x) -> str:
    return "1" if x else "0"


def ident(x) -> bool:
    return isinstance(x, str) and x.isascii() and x.isidentifier()


def expr_names(text: str) -> set[str]:
    """names an expression reads (lambda parameters and comprehension targets are bound by the expression itself)"""
    tree = ast.parse(text, mode="eval")
    bound: set[str] = set()
    for n in ast.walk(tree):
        if isinstance(n, ast.Lambda):
            bound.update(a.arg for a in n.args.args)
        elif isinstance(n, ast.comprehension):
            bound.update(t.id for t in ast.walk(n.target) if isinstance(t, ast.Name))
    return {n.id for n in ast.walk(tree) if isinstance(n, ast.Name) and isinstance(n.ctx, ast.Load)} - bound


def shape_of(text: str) -> str:
    if text == "":
        return "empty"
    if text == "Field(...)":
        return "ellipsis_only"
    if not (text.startswith("Field(") or text.startswith("field(")):
        return "bare"
    call = ast.parse(text, mode="eval").body
    if not isinstance(call, ast.Call):
        return "bare"
    if call.args:
        a = call.args[0]
        return "call_ellipsis" if isinstance(a, ast.Constant) and a.value is Ellipsis else "call_default"
    if call.keywords and call.keywords[0].arg == "default_factory":
        return "call_factory"
    return "call_args"


WRAPPERS = {"Optional", "ClassVar", "NotRequired", "Annotated"}


def wrapper_names(node: ast.AST) -> set[str]:
    """names an annotation reads AROUND its type hint: the path of `Optional[` / `ClassVar[` / `NotRequired[`
    subscriptions (or `… | None`) down to `Annotated[<hint>, <metadata>]` plus the names of the metadata;
    `NotRequired` alone when there is no `Annotated`"""
    path: list[str] = []
    n = node
    while True:
        if isinstance(n, ast.BinOp) and isinstance(n.op, ast.BitOr):
            n = n.left
            continue
        if isinstance(n, ast.Subscript) and isinstance(n.value, ast.Name) and n.value.id in WRAPPERS:
            path.append(n.value.id)
            if n.value.id == "Annotated":
                elts = n.slice.elts if isinstance(n.slice, ast.Tuple) else [n.slice]
                out = set(path)
                for e in elts[1:]:
                    out |= expr_names(ast.unparse(e))
                return out
            n = n.slice
            continue
        break
    return {"NotRequired"} if path[:1] == ["NotRequired"] else set()


def member_names(class_text: str, member: str) -> set[str] | None:
    for s in ast.parse(class_text).body:
        if not isinstance(s, ast.ClassDef):
            continue
        for st in s.body:
            if isinstance(st, ast.AnnAssign) and isinstance(st.target, ast.Name) and st.target.id == member:
                out = wrapper_names(st.annotation)
                if st.value is not None:
                    out |= expr_names(ast.unparse(st.value))
                return out
    return None


def family(kind: str) -> str:
    return {"pydantic.BaseModel": "pydantic", "pydantic_v2.BaseModel": "pydantic", "dataclasses.dataclass": "dataclass", "msgspec.Struct": "msgspec", "typing.TypedDict": "typed"}[kind]


class Unmodelled(Exception):
    pass


def opt_name(x) -> str:
    if x is None or x == "":
        return enc(None)
    if not ident(x):
        raise Unmodelled("default_factory is not a name")
    return enc(x)


def state_request(kind: str, f) -> str:
    """the driver request line carrying the abstract state of the real field `f`"""
    fam = family(kind)
    if fam == "pydantic":
        from datamodel_code_generator.model.pydantic.imports import IMPORT_ANYURL

        data = {k: v for k, v in f.extras.items() if k not in f._EXCLUDE_FIELD_KEYS}
        if f.alias is not None:
            data["alias"] = f.alias
        if f.constraints is not None and not f.self_reference() and not f.data_type.strict:
            if not any(d.import_ == IMPORT_ANYURL for d in f.data_type.all_data_types):
                data.update({k: f._get_strict_field_constraint_value(k, v) for k, v in f.constraints.dict(exclude_unset=True).items()})
        if f.use_field_description:
            data.pop("description", None)
        f._process_data_in_str(data)
        disc = data.pop("discriminator", None)
        if disc:
            data["discriminator"] = disc
        ef = data.get("default_factory")
        other = any(v is not None for k, v in data.items() if k != "default_factory")
        before = any(v is not None and k < "default_factory" for k, v in data.items() if k != "default_factory")
        mf = None
        if not f.required and f.default is not None and "default_factory" not in data:
            lam = f._get_default_as_pydantic_model()
            if lam is not None:
                m = re.match(r"lambda :\[?(\w+)\.", lam)
                if not m:
                    raise Unmodelled("lambda shape")
                mf = m.group(1)
        return " ".join(["fieldstr.pyd", b(f.required), b(f.nullable), b(f.use_annotated), b(f.use_default_kwarg), b(other), b(before), b(f.default is not None), opt_name(ef), opt_name(mf)])
    if fam == "dataclass":
        from datamodel_code_generator.model.base import UNDEFINED

        dset = f.default != UNDEFINED and f.default is not None
        other = any(k in f._FIELD_KEYS and k != "default_factory" for k in f.extras)
        return " ".join(["fieldstr.dc", b(f.required), b(dset), b(isinstance(f.default, (list, dict))), opt_name(f.extras.get("default_factory")), b(other)])
    if fam == "msgspec":
        from datamodel_code_generator.model.base import UNDEFINED

        dset = f.default != UNDEFINED and f.default is not None
        ef = f.extras.get("default_factory")
        sf, sl = None, False
        if not f.required and f.default and ef is None:
            lam = f._get_default_as_struct_model()
            if lam is not None:
                m = re.search(r"type=(list\[)?(\w+)\]?\)$", lam)
                if not m:
                    raise Unmodelled("lambda shape")
                sf, sl = m.group(2), bool(m.group(1))
        meta = {k: v for k, v in f.extras.items() if k in f._META_FIELD_KEYS}
        if f.constraints is not None and not f.self_reference() and not f.data_type.strict:
            meta.update({k: f._get_strict_field_constraint_value(k, v) for k, v in f.constraints.dict().items() if k in f._META_FIELD_KEYS})
        has_meta = any(v is not None for v in meta.values())
        nu = "n" if f.nullable is None else "t" if f.nullable else "f"
        return " ".join(["fieldstr.ms", b(f.required), b(f.alias is not None), b(dset), b(bool(f.default) and dset), opt_name(ef), opt_name(sf), b(sl), b(f.use_annotated), b(has_meta),
                         b(f.extras.get("is_classvar")), nu, b(f.type_has_null), b(f.data_type.use_union_operator)])
    from datamodel_code_generator.model.typed_dict import TypedDict

    return " ".join(["fieldstr.td", b(f.required), b(isinstance(f.parent, TypedDict))])


def names_of(part: str) -> set[str]:
    return set() if part == "-" else set(part.split(","))


def canon_shape(fam: str, sh: str) -> str:
    return sh if fam == "pydantic" else ("call" if sh.startswith("call") or sh == "ellipsis_only" else sh)


def real_view(kind: str, f, class_text: str) -> dict:
    fam = family(kind)
    imports = {i.alias or i.import_ for i in f.imports}
    if fam == "typed":
        hint = ast.parse(f.type_hint, mode="eval").body
        w = wrapper_names(hint)
        return {"shape": "not_required" if w else "plain", "str_names": sorted(w), "imports": sorted(imports & LIB[fam]), "member": sorted(member_names(class_text, f.name) or set())}
    text = str(f)
    v = {"shape": canon_shape(fam, shape_of(text)), "str_names": sorted(expr_names(text)) if text else [], "imports": sorted(imports & LIB[fam]),
         "member": sorted(member_names(class_text, f.name) or set())}
    if fam == "msgspec":
        ann = f.annotated
        v["annotated"] = sorted(wrapper_names(ast.parse(ann, mode="eval").body)) if ann else []
        v["optional_imported"] = "Optional" in imports
    return v


def model_view(kind: str, reply: str) -> dict | None:
    fam = family(kind)
    p = reply.split()
    if p[0] != "ok":
        return None
    v = {"shape": canon_shape(fam, p[1]), "str_names": sorted(names_of(p[2])), "imports": sorted(names_of(p[3]) & LIB[fam]), "member": sorted(names_of(p[4]))}
    if fam == "msgspec":
        v["annotated"] = sorted(names_of(p[5]))
        v["optional_imported"] = "Optional" in names_of(p[3])
    return v


def agree(kind: str, m: dict, r: dict) -> bool:
    """equal, except that the real field may import `Optional` for its data type where the field-level rule
    of the model does not (the model's `Optional` implies the real one)"""
    if family(kind) == "msgspec":
        if m["optional_imported"] and not r["optional_imported"]:
            return False
        m = {k: v for k, v in m.items() if k != "optional_imported"}
        r = {k: v for k, v in r.items() if k != "optional_imported"}
    return m == r


def tie(ck, camp, cases) -> list:
    """cases: (spec, field spec, real field, rendered class text). Returns the disagreeing cases."""
    todo = []
    for spec, fs, f, text in cases:
        camp.evaluations += 1
        try:
            todo.append((spec, fs, f, text, state_request(spec["kind"], f), real_view(spec["kind"], f, text)))
        except Unmodelled as e:
            camp.unmodelled += 1
            camp.hit("fieldstr:unmodelled:" + str(e))
        except SyntaxError:
            camp.hit("fieldstr:unparsable(C01)")
    reps = ck.driver.run([t[4] for t in todo]) if todo else []
    bad = []
    for (spec, fs, f, text, req, real), rep in zip(todo, reps):
        m = model_view(spec["kind"], rep)
        if m is None:
            ck.infra_errors.append(f"driver reply {rep[:80]!r} for {req[:60]}")
            continue
        fam = family(spec["kind"])
        camp.hit(f"fieldstr:{fam}:{real['shape']}")
        camp.distinct.add(req)
        for n in real["member"]:
            camp.hit(f"fieldstr:{fam}:reads:{n}" if n in LIB[fam] | {"Optional"} else f"fieldstr:{fam}:reads:<factory name>")
        if not agree(spec["kind"], m, real):
            bad.append((spec, fs))
            # the same members as a complete document: search_after_break runs the documents of the disagreements under every
            # output kind and the neighbouring option vectors through the module oracle
            doc, opts = spec_document(spec)
            ck.disagree(camp, {"field": fs, "field_opts": spec["opts"], "kind": spec["kind"], "str": "" if fam == "typed" else str(f), "rendered": text, "state": req,
                               "document": doc, "opts": opts, "model": spec["kind"]}, m, real)
    return bad


# ---------------------------------------------------------------- a disagreeing field as a complete document (for the search hook)
FORMATS = {"date": ("string", "date"), "date_time": ("string", "date-time"), "time": ("string", "time"), "uuid": ("string", "uuid"), "uri": ("string", "uri"), "decimal": ("number", None),
           "email": ("string", "email"), "ipv4": ("string", "ipv4"), "byte": ("string", "byte"), "binary": ("string", "binary"), "password": ("string", "password"),
           "path": ("string", "path"), "timedelta": ("string", "duration"), "hostname": ("string", "hostname")}


def type_schema(ty: dict) -> dict:
    t = ty["t"]
    if t == "scalar":
        k = ty["type"]
        if k in ("any",):
            return {}
        if k in FORMATS:
            base, fmt = FORMATS[k]
            s = {"type": base}
            if fmt:
                s["format"] = fmt
        else:
            s = {"type": k}
        s.update(ty.get("kw") or {})
        return s
    if t == "ref":
        return {"$ref": "#/definitions/" + ty["name"]}
    if t == "literal":
        return {"enum": list(ty["values"])}
    if t == "list":
        s = {"type": "array", "items": type_schema(ty["item"])}
        s.update(ty.get("kw") or {})
        if ty.get("set"):
            s["uniqueItems"] = True
        return s
    if t == "dict":
        return {"type": "object", "additionalProperties": type_schema(ty["value"])}
    if t == "union":
        return {"anyOf": [type_schema(a) for a in ty["alts"]]}
    return {"anyOf": [type_schema(ty["inner"]), {"type": "null"}]}


def spec_document(spec: dict) -> tuple[dict, dict]:
    """(JSON-Schema document with the spec's members, generate() options) — what the parser would build the
    same field objects from, as far as JSON Schema can say it (an alias comes from a non-identifier name)"""
    props, req = {}, []
    if not spec["fields"]:  # a directed default-factory case
        props = {"m": {"$ref": "#/definitions/Pet", "default": {"name": "n"}, "description": "d"}, "l": {"type": "array", "items": {"$ref": "#/definitions/Pet"}, "default": [{"name": "n"}]},
                 "s": {"type": "array", "items": {"type": "string"}, "default": ["a"]}, "x-y": {"type": "string", "default": "x", "description": "d"}}
    for f in spec["fields"]:
        s = type_schema(f["type"])
        for k, v in f["extras"].items():
            if k not in ("default_factory",):
                s[k] = v
        if f["default"] is not None:
            s["default"] = f["default"]
        if f["nullable"]:
            s = {"anyOf": [s, {"type": "null"}]} if "$ref" in s else {**s, "nullable": True}
        name = f["alias"] or f["name"]
        props[name] = s
        if f["required"]:
            req.append(name)
    doc = {"title": "M", "type": "object", "properties": props, "required": req,
           "definitions": {"Pet": {"type": "object", "properties": {"name": {"type": "string"}}}, "Kind": {"type": "string", "enum": ["a", "b"]}}}
    o = spec["opts"]
    opts = {k: True for k, src in (("use_standard_collections", "std"), ("use_generic_container_types", "generic"), ("use_union_operator", "union_op"), ("field_constraints", "field_constraints"),
                                     ("use_annotated", "use_annotated"), ("use_default_kwarg", "use_default_kwarg"), ("use_field_description", "use_field_description"),
                                     ("strip_default_none", "strip_default_none")) if o.get(src)}
    if o.get("strict"):
        opts["strict_types"] = list(o["strict"])
    if any(f["nullable"] is False for f in spec["fields"]):
        opts["strict_nullable"] = True
    return doc, opts
