"""Load-independent "does not terminate" verdicts.

`common.watchdog` interrupts after WALL-CLOCK seconds. A slow but terminating run on a heavily loaded
machine (sort_data_models is cubic on a 1 000-model member chain: ~9 s of CPU, several times that in
wall time when 16 other jobs compete) then looks like a hang — a false alarm of the machinery. A hang
verdict must depend on the WORK the code did, not on the machine:

* `cpu_watchdog(s)` interrupts after `s` seconds of CPU time consumed by THIS process
  (ITIMER_PROF / SIGPROF: user + system time, all threads) — waiting for a CPU does not count;
* `run_bounded(fn, budget)` runs `fn()` under that limit and, when it expires, runs it ONCE MORE with
  `retry_factor` times the budget; only the second expiry is reported as `Hang`. `fn` must be
  re-runnable (no mutation of its inputs before the interruption point that changes the result);
* `Calibration` turns "n models" into a budget: it times a small reference run of the same family in
  this process, on this machine, now (so the unit already contains the current slow-down from cache
  and SMT contention) and scales it with the known worst-case growth of the callee.

A wall-clock cap is still kept (very generous, default 40 x the CPU budget) so that a process that
sleeps forever inside the callee cannot block the check; it raises `Stalled`, which callers report as
an infrastructure problem / unmodelled case, never as a hang of the code.
"""
from __future__ import annotations

import contextlib
import signal
import time
from typing import Any, Callable, Iterator

from .common import Hang


class Stalled(Exception):
    """the wall-clock cap expired although the CPU budget was not used up (starved or sleeping)"""


@contextlib.contextmanager
def cpu_watchdog(cpu_seconds: float, wall_cap: float | None = None) -> Iterator[None]:
    """Raise `Hang` in the main thread once this process used `cpu_seconds` of CPU inside the block."""

    def on_prof(signum, frame):
        raise Hang(f"no result after {cpu_seconds:.1f} s of CPU time")

    def on_alarm(signum, frame):
        raise Stalled(f"no result after {wall_cap:.0f} s of wall time, CPU budget {cpu_seconds:.1f} s not used up")

    wall_cap = max(60.0, 40.0 * cpu_seconds) if wall_cap is None else wall_cap
    old_prof = signal.signal(signal.SIGPROF, on_prof)
    old_alrm = signal.signal(signal.SIGALRM, on_alarm)
    t0 = time.time()
    signal.setitimer(signal.ITIMER_PROF, cpu_seconds)
    outer_left, _ = signal.setitimer(signal.ITIMER_REAL, wall_cap)  # an enclosing wall-clock watchdog, if any
    try:
        yield
    finally:
        signal.setitimer(signal.ITIMER_PROF, 0)
        signal.setitimer(signal.ITIMER_REAL, 0)
        signal.signal(signal.SIGPROF, old_prof)
        signal.signal(signal.SIGALRM, old_alrm)
        if outer_left:  # re-arm it with what is left of its time
            signal.setitimer(signal.ITIMER_REAL, max(0.001, outer_left - (time.time() - t0)))


def run_bounded(fn: Callable[[], Any], cpu_budget: float, retry_factor: float = 4.0, on_retry: Callable[[float], None] | None = None) -> Any:
    """`fn()` under a CPU budget; an expiry is confirmed by one more run with `retry_factor` x the budget.
    Raises `Hang` only when both expire."""
    try:
        with cpu_watchdog(cpu_budget):
            return fn()
    except Hang:
        if on_retry is not None:
            on_retry(cpu_budget)
    with cpu_watchdog(cpu_budget * retry_factor):
        return fn()


class Calibration:
    """CPU budget for a callee whose worst-case cost grows like n**degree.

    `reference(n0)` must run the callee on a worst-case input of size n0 (it is run once, lazily, the
    first time a budget above the floor could be needed). budget(n) = max(floor, margin * t(n0) * (n/n0)**degree).
    """

    def __init__(self, reference: Callable[[int], Any], n0: int, degree: float, margin: float = 8.0, floor: float = 10.0) -> None:
        self.reference, self.n0, self.degree, self.margin, self.floor = reference, n0, degree, margin, floor
        self.unit: float | None = None

    def measure(self) -> float:
        if self.unit is None:
            best = None
            for _ in range(2):  # the better of two: the first run pays for imports and cold caches
                c0 = time.process_time()
                self.reference(self.n0)
                dt = time.process_time() - c0
                best = dt if best is None else min(best, dt)
            self.unit = max(best, 1e-4)
        return self.unit

    def budget(self, n: int) -> float:
        if n <= self.n0:
            return self.floor
        return max(self.floor, self.margin * self.measure() * (n / self.n0) ** self.degree)


def confirm_hang(rerun: Callable[[float], Any], wall: float, cpu_needed: float) -> tuple[Any, str]:
    """For callees that run under a WALL-clock watchdog we cannot replace (e2e.run_generate): a first
    expiry is only a suspicion. `rerun(wall)` runs the same case again with a much larger wall limit and
    must return an object with `.hang`. Verdict: "ok" (it terminated: slow machine, no hang), "hang"
    (expired again AND this process burned at least `cpu_needed` CPU seconds meanwhile, i.e. the code was
    really running all that time), "stalled" (expired again without getting the CPU: no verdict)."""
    c0 = time.process_time()
    res = rerun(wall)
    used = time.process_time() - c0
    if not getattr(res, "hang", False):
        return res, "ok"
    return res, ("hang" if used >= cpu_needed else "stalled")


CONFIRM_WALL_S = 120.0  # second look at a run that expired under a wall-clock watchdog of a few seconds
CONFIRM_CPU_S = 18.0    # ... it is a hang only if the code was really running that long meanwhile
_confirmed = {"n": 0}


def settle_hang(camp: Any, res: Any, rerun: Callable[[float], Any], wall: float = CONFIRM_WALL_S, cpu_needed: float = CONFIRM_CPU_S) -> Any:
    """`res` may have expired under e2e's wall-clock watchdog (`res.hang`): then run the case once more with a
    much larger limit. Returns the result to go on with (`.hang` still set = confirmed hang), or None when
    there is no verdict (the machine is starved: counted as unmodelled on `camp`)."""
    if not getattr(res, "hang", False):
        return res
    if _confirmed["n"] >= 2:  # the verdict of the run is decided: no further two-minute confirmations, and no unconfirmed verdicts
        camp.hit("watchdog expired (not re-run: two hangs are already confirmed in this run) - case skipped")
        camp.unmodelled += 1
        return None
    camp.hit("watchdog expired once: confirming run with %d s" % wall)
    res2, verdict = confirm_hang(rerun, wall, cpu_needed)
    if verdict == "hang":
        _confirmed["n"] += 1
    if verdict == "stalled":
        camp.hit("stalled: confirming run expired without the CPU budget being used (machine starved) - case skipped")
        camp.unmodelled += 1
        return None
    if verdict == "ok":
        camp.hit("slow, not hanging: the confirming run terminated")
    return res2
