"""Seeded JSON-Schema documents for the end-to-end oracles (DESIGN §2.6): nested objects, arrays
(list and tuple style), $ref (also recursive and mutual), allOf inheritance, anyOf/oneOf, enums, const,
nullable type lists, required/optional, defaults, formats, constraints. `collide=True` additionally
draws member and definition names from the names the emitted module itself needs (`date`, `Any`,
`str`, `Optional`, `Field`, …): the shadowing part of C02."""
from __future__ import annotations

from typing import Any

from .common import Rng

DEF_NAMES = ["Pet", "Owner", "Tag", "Node", "Item", "Address", "Order", "Kind", "Leaf", "Tree"]
PROP_NAMES = ["name", "id", "tags", "owner", "kind", "count", "price", "created", "items", "parent", "children", "meta", "value", "code", "flag", "ref", "data"]
COLLIDE_PROPS = ["date", "datetime", "Any", "str", "int", "float", "bool", "List", "Optional", "Dict", "Union", "Field", "BaseModel", "UUID", "Literal",
                 "Enum", "dataclass", "field", "TypedDict", "NotRequired", "Annotated", "constr", "conint", "AnyUrl", "Decimal", "Set", "Sequence", "time", "bytes"]
COLLIDE_DEFS = ["Date", "Optional", "List", "Field", "Any", "Model", "Enum", "BaseModel", "Union", "Dict", "Literal", "UUID", "Str"]
FORMATS = ["date-time", "date", "time", "uuid", "uri", "ipv4", "ipv6", "hostname", "byte", "binary", "password", "decimal", "email", "duration", "uuid4", "path"]


class Gen:
    def __init__(self, rng: Rng, collide: bool = False, max_depth: int = 3) -> None:
        self.rng = rng
        self.collide = collide
        self.max_depth = max_depth
        self.defs: list[str] = []
        self.features: set[str] = set()
        self.current_def: str | None = None  # allOf must not inherit from the definition it stands in

    def pick_defs(self) -> None:
        r = self.rng
        n = r.choice([0, 1, 2, 2, 3, 3, 4, 5])
        pool = list(DEF_NAMES)
        if self.collide:
            pool = pool + COLLIDE_DEFS * 2
        self.defs = list(dict.fromkeys(r.sample(pool, n)))

    def prop_name(self, used: set[str]) -> str:
        r = self.rng
        pool = PROP_NAMES + (COLLIDE_PROPS * 2 if self.collide else [])
        if self.collide and self.defs and r.chance(1, 5):
            pool = pool + self.defs + [d.lower() for d in self.defs]
        for _ in range(20):
            n = r.choice(pool)
            if n not in used:
                used.add(n)
                return n
        n = f"p{len(used)}"
        used.add(n)
        return n

    def ref(self) -> dict:
        self.features.add("ref")
        return {"$ref": f"#/definitions/{self.rng.choice(self.defs)}"}

    def scalar(self) -> dict:
        r = self.rng
        k = r.below(12)
        if k < 3:
            s: dict[str, Any] = {"type": "string"}
            if r.chance(1, 3):
                s["format"] = r.choice(FORMATS)
                self.features.add("format:" + s["format"])
            elif r.chance(1, 3):
                s.update(r.choice([{"minLength": 1}, {"maxLength": 8}, {"pattern": "^[a-z]+$"}, {"minLength": 2, "maxLength": 5}]))
                self.features.add("constraint")
            return s
        if k < 5:
            s = {"type": "integer"}
            if r.chance(1, 3):
                s.update(r.choice([{"minimum": 0}, {"maximum": 10}, {"exclusiveMinimum": 0}, {"multipleOf": 2}, {"minimum": 1, "maximum": 5}]))
                self.features.add("constraint")
            return s
        if k == 5:
            s = {"type": "number"}
            if r.chance(1, 3):
                s.update(r.choice([{"minimum": 0.5}, {"exclusiveMaximum": 10}]))
                self.features.add("constraint")
            return s
        if k == 6:
            return {"type": "boolean"}
        if k == 7:
            self.features.add("enum")
            return r.choice([{"type": "string", "enum": ["a", "b"]}, {"enum": ["x", "y", "z"]}, {"type": "integer", "enum": [1, 2]}, {"enum": ["only"]}, {"type": "string", "enum": ["a", None]}])
        if k == 8:
            self.features.add("const")
            return {"const": r.choice(["k", 1, "v w"])}
        if k == 9:
            self.features.add("nullable_type_list")
            return {"type": r.choice([["string", "null"], ["integer", "null"], ["null", "number"], ["string", "integer"], ["string", "integer", "null"], ["null"]])}
        if k == 10:
            return r.choice([{}, {"type": "null"}, {"type": "object"}, {"type": "array"}])
        return {"type": "string"}

    def schema(self, depth: int) -> dict:
        r = self.rng
        if depth >= self.max_depth:
            return self.ref() if self.defs and r.chance(1, 3) else self.scalar()
        k = r.below(16)
        if k < 5:
            return self.scalar()
        if k < 8 and self.defs:
            return self.ref()
        if k == 8:
            self.features.add("array")
            s: dict[str, Any] = {"type": "array", "items": self.schema(depth + 1)}
            if r.chance(1, 4):
                s["uniqueItems"] = True
                self.features.add("uniqueItems")
            if r.chance(1, 4):
                s["minItems"] = 1
                self.features.add("constraint")
            return s
        if k == 9:
            self.features.add("tuple_items")
            return {"type": "array", "items": [self.schema(depth + 1) for _ in range(r.range(1, 3))]}
        if k == 10:
            self.features.add("nested_object")
            return self.obj(depth + 1)
        if k == 11:
            self.features.add("additionalProperties")
            return {"type": "object", "additionalProperties": r.choice([True, False, self.schema(depth + 1), self.schema(depth + 1)])}
        if k == 12:
            self.features.add("anyOf")
            return {r.choice(["anyOf", "oneOf"]): [self.schema(depth + 1) for _ in range(r.range(2, 3))]}
        if k == 13 and [d for d in self.defs if d != self.current_def]:
            self.features.add("allOf")
            base = r.choice([d for d in self.defs if d != self.current_def])
            return {"allOf": [{"$ref": f"#/definitions/{base}"}] + ([self.obj(depth + 1)] if r.chance(1, 2) else [])}
        if k == 14:
            self.features.add("nullable_type_list")
            s = self.schema(depth + 1)
            if isinstance(s.get("type"), str):
                s = dict(s, type=[s["type"], "null"])
            return s
        return self.scalar()

    def default_for(self, s: dict):
        t = s.get("type")
        if "enum" in s:
            return s["enum"][0]
        if t == "string" and "format" not in s:
            return "d"
        if t == "integer":
            return 1
        if t == "number":
            return 1.5
        if t == "boolean":
            return True
        if t == "array":
            return []
        if t == "object":
            return {}
        return None

    def obj(self, depth: int) -> dict:
        r = self.rng
        used: set[str] = set()
        props = {}
        for _ in range(r.range(1, 4)):
            n = self.prop_name(used)
            s = self.schema(depth)
            if r.chance(1, 5):
                dv = self.default_for(s)
                if dv is not None:
                    s = dict(s, default=dv)
                    self.features.add("default")
            if r.chance(1, 8):
                s = dict(s, description="text")
            props[n] = s
        o: dict[str, Any] = {"type": "object", "properties": props}
        req = [n for n in props if r.chance(1, 2)]
        if req:
            o["required"] = req
            self.features.add("required")
        return o

    def document(self) -> dict:
        r = self.rng
        self.pick_defs()
        doc = self.obj(1)
        doc["title"] = r.choice(["Model", "Root", "Doc"] + (COLLIDE_DEFS if self.collide else []))
        defs = {}
        for d in self.defs:
            self.current_def = d
            k = r.below(8)
            if k == 0:
                self.features.add("enum")
                defs[d] = {"type": "string", "enum": ["red", "green"]}
            elif k == 1 and len(set(self.defs)) > 1:
                self.features.add("allOf")
                other = r.choice([x for x in self.defs if x != d])
                defs[d] = {"allOf": [{"$ref": f"#/definitions/{other}"}, self.obj(2)]}
            elif k == 2:
                self.features.add("root_model")
                defs[d] = r.choice([{"type": "array", "items": self.schema(2)}, {"type": "string", "minLength": 1}, self.schema(2), {"type": ["string", "null"]}])
            else:
                defs[d] = self.obj(2)
                if r.chance(1, 3):  # recursion
                    self.features.add("recursive_ref")
                    tgt = r.choice(self.defs)
                    defs[d]["properties"][self.prop_name(set(defs[d]["properties"]))] = r.choice(
                        [{"$ref": f"#/definitions/{tgt}"}, {"type": "array", "items": {"$ref": f"#/definitions/{tgt}"}}, {"anyOf": [{"$ref": f"#/definitions/{tgt}"}, {"type": "null"}]}]
                    )
        if defs:
            doc["definitions"] = defs
        return doc


def random_document(rng: Rng, collide: bool = False) -> tuple[dict, list[str]]:
    g = Gen(rng, collide=collide, max_depth=rng.choice([2, 3, 3]))
    d = g.document()
    return d, sorted(g.features)


TYPING_OPTIONS = [
    ("use_union_operator", [True]),
    ("use_standard_collections", [True]),
    ("use_generic_container_types", [True]),
    ("use_annotated", [True]),
    ("field_constraints", [True]),
    ("strict_types", [["str"], ["int", "bool"], ["str", "bytes", "int", "float", "bool"]]),
    ("use_unique_items_as_set", [True]),
    ("enum_field_as_literal", ["all", "one"]),
    ("use_one_literal_as_default", [True]),
    ("collapse_root_models", [True]),
    ("reuse_model", [True]),
    ("keep_model_order", [True]),
    ("set_default_enum_member", [True]),
    ("use_subclass_enum", [True]),
    ("use_default_kwarg", [True]),
    ("use_schema_description", [True]),
    ("use_field_description", [True]),
    ("snake_case_field", [True]),
    ("force_optional_for_required_fields", [True]),
    ("strip_default_none", [True]),
    ("allow_extra_fields", [True]),
    ("use_title_as_name", [True]),
    ("allow_population_by_field_name", [True]),
    ("output_datetime_class", ["AwareDatetime", "NaiveDatetime"]),
    ("strict_nullable", [True]),
]
TARGETS = ["3.9", "3.10", "3.11", "3.12"]  # 3.13: generate() raises KeyError(PythonVersion.PY_313) with the black of this environment


def random_options(rng: Rng) -> tuple[dict, str | None]:
    n = rng.choice([0, 1, 1, 2, 2, 3, 4])
    opts: dict[str, Any] = {}
    for name, vals in rng.sample(TYPING_OPTIONS, n):
        opts[name] = rng.choice(vals)
    if opts.get("use_annotated"):
        opts["field_constraints"] = True  # the CLI couples them
    target = rng.choice(TARGETS) if rng.chance(1, 2) else None
    return opts, target


def materialise_options(opts: dict) -> dict:
    """JSON-able option values → what generate() takes"""
    from datamodel_code_generator.format import DatetimeClassType
    from datamodel_code_generator.types import StrictTypes
    from datamodel_code_generator.parser import LiteralType

    out = dict(opts)
    if "strict_types" in out:
        out["strict_types"] = [StrictTypes(x) for x in out["strict_types"]]
    if "enum_field_as_literal" in out:
        out["enum_field_as_literal"] = LiteralType(out["enum_field_as_literal"])
    if "output_datetime_class" in out:
        out["output_datetime_class"] = DatetimeClassType(out["output_datetime_class"])
    return out


# ---------------------------------------------------------------- members named exactly like a class their type refers to
HIDE_DEFS = {
    "Address": ({"type": "object", "properties": {"street": {"type": "string"}}, "required": ["street"]}, {"street": "x"}),
    "Pet": ({"type": "object", "properties": {"name": {"type": "string"}, "age": {"type": "integer"}}, "required": ["name"]}, {"name": "n", "age": 3}),
    "Item": ({"type": "object", "properties": {"sku": {"type": "integer"}}}, {"sku": 1}),
}


def _ref(d: str) -> dict:
    return {"$ref": f"#/definitions/{d}"}


def hide_shapes(d: str, inst) -> list[tuple[str, dict, Any]]:
    """(shape name, schema, conforming value): the $ref to definition `d` sits 1, 2 or 3 levels
    inside the member's type"""
    return [
        ("depth1_ref", _ref(d), inst),
        ("depth2_union_null", {"anyOf": [_ref(d), {"type": "null"}]}, inst),
        ("depth2_list", {"type": "array", "items": _ref(d)}, [inst]),
        ("depth2_nullable_list", {"type": ["array", "null"], "items": _ref(d)}, [inst, inst]),
        ("depth2_dict", {"type": "object", "additionalProperties": _ref(d)}, {"k": inst}),
        ("depth3_dict_of_list", {"type": "object", "additionalProperties": {"type": "array", "items": _ref(d)}}, {"k": [inst]}),
        ("depth3_list_of_union", {"type": "array", "items": {"anyOf": [_ref(d), {"type": "string"}]}}, [inst, "s"]),
        ("depth3_list_of_list", {"type": "array", "items": {"type": "array", "items": _ref(d)}}, [[inst]]),
        ("depth3_list_of_dict", {"type": "array", "items": {"type": "object", "additionalProperties": _ref(d)}}, [{"k": inst}]),
    ]


def hiding_document(rng: Rng) -> tuple[dict, dict, list[str]]:
    """A document whose members are named exactly like the class their type refers to, with one
    conforming instance. Returns (document, instance, features)."""
    names = rng.sample(list(HIDE_DEFS), rng.range(1, 3))
    props: dict[str, Any] = {}
    inst: dict[str, Any] = {}
    required = []
    feats = []
    for d in names:
        schema, value = HIDE_DEFS[d]
        shape, s, v = rng.choice(hide_shapes(d, value))
        props[d] = s
        inst[d] = v
        feats.append("hide:" + shape)
        if rng.chance(1, 2):
            required.append(d)
    if rng.chance(1, 2):
        props["note"] = {"type": "string"}
        inst["note"] = "t"
    doc: dict[str, Any] = {"title": "Model", "type": "object", "properties": props, "definitions": {d: HIDE_DEFS[d][0] for d in names}}
    if required:
        doc["required"] = required
    # a definition with a member named like another definition
    if len(names) > 1 and rng.chance(1, 2):
        a, b = names[0], names[1]
        shape, s, v = rng.choice(hide_shapes(b, HIDE_DEFS[b][1]))
        da = json_copy(HIDE_DEFS[a][0])
        da["properties"][b] = s
        doc["definitions"][a] = da
        feats.append("hide_in_definition:" + shape)
    return doc, inst, feats


def json_copy(x):
    import json

    return json.loads(json.dumps(x))


# ---------------------------------------------------------------- members named like a name the emitted module needs
# (C02, "no generated field hides a name the file needs"): the names each output kind's module text
# reads — typing constructs, builtins used as types, the model library's names, the class's own name
# and the classes its siblings refer to.
SHADOW_POOLS = {
    "typing": ["Optional", "List", "Dict", "Union", "Literal", "Any", "Set", "Sequence", "Mapping", "FrozenSet", "Annotated", "NotRequired", "TypedDict"],
    "builtin": ["str", "int", "float", "bool", "bytes", "list", "dict", "set", "type", "object"],
    "library": ["Field", "BaseModel", "RootModel", "ConfigDict", "constr", "conint", "confloat", "conlist", "AnyUrl", "Extra", "dataclass", "field", "Struct", "Meta", "UNSET",
                "UnsetType", "Enum", "date", "datetime", "UUID", "Decimal"],
}
SHADOW_MODES = ["required", "optional", "default", "optional_described"]
SHADOW_DEFS = {
    "Address": {"type": "object", "properties": {"street": {"type": "string"}}},
    "Pet": {"type": "object", "properties": {"name": {"type": "string"}, "tag": {"type": "string", "minLength": 1}}, "required": ["name"]},
    "Kind": {"type": "string", "enum": ["a", "b"]},
}


def shadow_users() -> dict[str, dict]:
    """sibling members whose rendered type / value uses the names in question"""
    return {
        "xs": {"type": "array", "items": {"type": "string"}},  # List / list / Sequence
        "m": {"type": "object", "additionalProperties": {"type": "integer"}},  # Dict / dict / Mapping
        "u": {"anyOf": [{"type": "integer"}, {"type": "string"}]},  # Union / |
        "k": {"enum": ["only"]},  # Literal (literal mode) or Enum class
        "c": {"const": "v"},  # Literal
        "s": {"type": "string", "minLength": 1, "maxLength": 5},  # constr / Field / Meta / Annotated
        "n": {"type": "integer", "minimum": 0},  # conint / Field
        "x-y": {"type": "integer"},  # Field(alias=…) / field(name=…)
        "dl": {"type": "array", "items": {"type": "string"}, "default": ["a"]},  # default_factory: Field / field
        "uq": {"type": "array", "uniqueItems": True, "items": {"type": "integer"}},  # Set / FrozenSet
        "d": {"type": "string", "format": "date"},
        "w": {"type": "string", "format": "date-time"},
        "uid": {"type": "string", "format": "uuid"},
        "url": {"type": "string", "format": "uri"},
        "dec": {"type": "number", "format": "decimal"},
        "any": {},
        "home": {"$ref": "#/definitions/Address"},
        "pets": {"type": "array", "items": {"$ref": "#/definitions/Pet"}},
        "kind": {"$ref": "#/definitions/Kind"},
        "kd": {"$ref": "#/definitions/Kind", "default": "a"},  # enum member as default (set_default_enum_member)
        "self": {"$ref": "#"},
    }


def shadow_member(mode: str, schema: dict) -> tuple[dict, bool]:
    """(schema of the hiding member, required?)"""
    s = json_copy(schema)
    if mode == "required":
        return s, True
    if mode == "default":
        g = Gen(Rng(0))
        dv = g.default_for(s)
        if dv is None:
            dv = "d" if "type" not in s else None
        if dv is not None:
            s["default"] = dv
        return s, False
    if mode == "optional_described":
        s["description"] = "text"  # forces a Field(...)/field(...) call as the member's value
    return s, False


SHADOW_MEMBER_SCHEMAS = [{"type": "string"}, {"type": "integer"}, {"type": "array", "items": {"type": "string"}}, {"type": "boolean"}, {"type": "string", "minLength": 1}]


def shadow_grid_document(name: str, mode: str, position: str = "first") -> dict:
    """one hiding member `name` (mode: required / optional / default / optional_described) next to
    the standard sibling members; `position`: the hiding member first or last in the class"""
    users = shadow_users()
    hid, req = shadow_member(mode, {"type": "string"})
    props: dict[str, Any] = {}
    if position == "first":
        props[name] = hid
    for k in ("xs", "m", "u", "c", "s", "x-y", "dl", "d", "home", "kd"):
        if k != name:
            props[k] = users[k]
    if position != "first":
        props[name] = hid
    doc: dict[str, Any] = {"title": "Model", "type": "object", "properties": props, "definitions": json_copy(SHADOW_DEFS)}
    if req:
        doc["required"] = [name]
    return doc


def shadow_document(rng: Rng) -> tuple[dict, list[str]]:
    """random: 1–3 hiding members (typing names, builtins, library names, the class's own name, a
    sibling's class, in every mode) among 2–5 sibling members that use such names; sometimes the
    hiding member sits in a definition instead of the root class"""
    users = shadow_users()
    title = rng.choice(["Model", "Model", "Root", "Doc"])
    feats = []
    props: dict[str, Any] = {}
    required = []
    pool_names = list(SHADOW_POOLS)
    entries = []
    for _ in range(rng.range(1, 3)):
        k = rng.below(8)
        if k == 0:
            name, cat = title, "own_class"
        elif k == 1:
            name, cat = rng.choice(list(SHADOW_DEFS)), "sibling_class"
        else:
            cat = rng.choice(pool_names)
            name = rng.choice(SHADOW_POOLS[cat])
        mode = rng.choice(SHADOW_MODES)
        schema = rng.choice(SHADOW_MEMBER_SCHEMAS + ([{"$ref": f"#/definitions/{name}"}] if cat == "sibling_class" else []))
        s, req = shadow_member(mode, schema)
        entries.append((name, s, req))
        feats.append(f"shadow:{cat}:{mode}")
    user_keys = rng.sample(list(users), rng.range(2, 5))
    order = [("h", e) for e in entries] + [("u", k) for k in user_keys]
    order = rng.shuffle(order)
    for tag, x in order:
        if tag == "h":
            name, s, req = x
            if name in props:
                continue
            props[name] = s
            if req:
                required.append(name)
        elif x not in props:
            props[x] = users[x]
            if rng.chance(1, 4):
                required.append(x)
    doc: dict[str, Any] = {"title": title, "type": "object", "properties": props, "definitions": json_copy(SHADOW_DEFS)}
    if required:
        doc["required"] = required
    if rng.chance(1, 4):  # the same members inside a definition (a class that is not the root)
        d = rng.choice(["Address", "Pet"])
        doc["definitions"][d] = {"type": "object", "properties": {k: v for k, v in props.items() if v != {"$ref": "#"}}}
        doc["properties"] = {"a": {"$ref": f"#/definitions/{d}"}, "note": {"type": "string"}}
        doc.pop("required", None)
        feats.append("shadow_in_definition")
    return doc, feats


# ---------------------------------------------------------------- chains of root models (named non-object schemas referring to each other)
# The innermost schema of a chain is a type whose rendering needs an import of its own; every further
# level is a named schema that is nothing but a reference to the level below, directly or inside a
# container / union.  Without --collapse-root-models every level is a RootModel / type alias; with it
# the levels disappear and the members that referred to the chain's top are typed with the innermost
# type directly — the import that type needs must then come from the surviving models.
CHAIN_LEAVES: dict[str, dict] = {
    "pattern": {"type": "string", "pattern": "^[A-Z]{3}$"},  # constr / Field(pattern=…)
    "length": {"type": "string", "minLength": 1, "maxLength": 8},
    "int_range": {"type": "integer", "minimum": 0, "maximum": 9},  # conint
    "float_bound": {"type": "number", "exclusiveMaximum": 10},  # confloat
    "date": {"type": "string", "format": "date"},
    "date-time": {"type": "string", "format": "date-time"},
    "time": {"type": "string", "format": "time"},
    "duration": {"type": "string", "format": "duration"},  # timedelta
    "uuid": {"type": "string", "format": "uuid"},
    "decimal": {"type": "number", "format": "decimal"},
    "uri": {"type": "string", "format": "uri"},  # AnyUrl
    "path": {"type": "string", "format": "path"},  # pathlib.Path
    "ipv4": {"type": "string", "format": "ipv4"},
    "ipv6-network": {"type": "string", "format": "ipv6-network"},
    "password": {"type": "string", "format": "password"},  # SecretStr
    "custom_path": {"type": "string", "customTypePath": "pathlib.PurePosixPath"},
    "custom_fraction": {"type": "string", "customTypePath": "fractions.Fraction"},
    "any": {},  # typing.Any
    "literal": {"const": "k"},  # typing.Literal
    "list_of_date": {"type": "array", "items": {"type": "string", "format": "date"}},
    "dict_of_uuid": {"type": "object", "additionalProperties": {"type": "string", "format": "uuid"}},
    "unique_ints": {"type": "array", "uniqueItems": True, "items": {"type": "integer"}},
    "union": {"anyOf": [{"type": "integer"}, {"type": "string", "format": "date"}]},
}
CHAIN_LINKS = ["alias", "alias", "array", "nullable", "dict", "union", "allOf"]
CHAIN_USES = ["direct", "direct", "array", "nullable", "dict", "union", "tuple", "unique_array"]
CHAIN_NAMES = ["Code", "Key", "Stamp", "Amount", "Label", "Slot", "Mark", "Unit", "Span", "Token", "Price", "Rank"]
CHAIN_OPTION_AXES = [("collapse_root_models", 5, 6), ("field_constraints", 1, 2), ("use_annotated", 1, 3), ("reuse_model", 1, 3), ("use_standard_collections", 1, 4),
                     ("use_union_operator", 1, 4), ("use_generic_container_types", 1, 6), ("strict_nullable", 1, 6), ("use_unique_items_as_set", 1, 4),
                     ("keep_model_order", 1, 8), ("use_field_description", 1, 8), ("use_title_as_name", 1, 8)]


def _wrap(kind: str, ref: dict) -> dict:
    if kind in ("alias", "direct"):
        return dict(ref)
    if kind == "array":
        return {"type": "array", "items": ref}
    if kind == "unique_array":
        return {"type": "array", "uniqueItems": True, "items": ref}
    if kind == "nullable":
        return {"anyOf": [ref, {"type": "null"}]}
    if kind == "dict":
        return {"type": "object", "additionalProperties": ref}
    if kind == "union":
        return {"anyOf": [ref, {"type": "boolean"}]}
    if kind == "allOf":
        return {"allOf": [ref]}
    if kind == "tuple":
        return {"type": "array", "items": [ref, {"type": "integer"}]}
    raise ValueError(kind)


def chain_options(rng: Rng) -> dict:
    opts: dict[str, Any] = {}
    for name, num, den in CHAIN_OPTION_AXES:
        if rng.chance(num, den):
            opts[name] = True
    if opts.get("use_annotated"):
        opts["field_constraints"] = True  # the CLI couples them
    return opts


def chain_document(rng: Rng, modular: bool = False) -> tuple[dict, list[str]]:
    """1–2 chains of named non-object schemas (depth 1–4, mostly ≥ 2) over the leaf types of
    CHAIN_LEAVES, used by the members of the root object and (sometimes) of a second object; sometimes
    another surviving member uses the same leaf type directly, so that the import is — or is not —
    provided independently of the chain.  `modular`: the chain levels live in dotted definitions
    (`pkg.Code`), i.e. in another module of a package output."""
    names = rng.shuffle(CHAIN_NAMES)
    feats: list[str] = []
    defs: dict[str, Any] = {}
    props: dict[str, Any] = {}
    required: list[str] = []
    tops: list[tuple[str, str]] = []

    def dname(n: str, level: int) -> str:
        return (rng.choice(["pkg.", "pkg.sub.", "lib."]) + n) if modular and (level > 0 or rng.chance(1, 2)) else n

    for c in range(rng.choice([1, 1, 2])):
        leaf = rng.choice(list(CHAIN_LEAVES))
        depth = rng.choice([1, 2, 2, 2, 3, 3, 4])
        feats += [f"chain_leaf:{leaf}", f"chain_depth:{depth}"]
        prev = dname(names.pop(), 0)
        defs[prev] = json_copy(CHAIN_LEAVES[leaf])
        if rng.chance(1, 6):
            defs[prev]["description"] = "text"
        for level in range(1, depth):
            link = rng.choice(CHAIN_LINKS)
            feats.append("chain_link:" + link)
            cur = dname(names.pop(), level)
            defs[cur] = _wrap(link, _ref(prev))
            if rng.chance(1, 6):
                defs[cur]["title"] = cur.split(".")[-1] + "Title"
            prev = cur
        tops.append((prev, leaf))
        for u in range(rng.choice([1, 1, 2])):
            use = rng.choice(CHAIN_USES)
            feats.append("chain_use:" + use)
            member = f"{'abcd'[c]}{u}"
            # a member may also enter the chain below its top
            target = prev if rng.chance(3, 4) else rng.choice([d for d in defs])
            props[member] = _wrap(use, _ref(target))
            if rng.chance(1, 2):
                required.append(member)
        if rng.chance(1, 4):  # the same leaf type once more, directly: the import has another provider
            feats.append("chain_leaf_also_direct")
            props[f"direct{c}"] = json_copy(CHAIN_LEAVES[leaf])
    props["count"] = {"type": "integer"}
    if rng.chance(1, 3):  # a second surviving class that uses a chain
        feats.append("chain_second_object")
        other = names.pop()
        t, _ = rng.choice(tops)
        defs[other] = {"type": "object", "properties": {"v": _wrap(rng.choice(CHAIN_USES), _ref(t)), "n": {"type": "string"}}}
        props["other"] = _ref(other)
    if rng.chance(1, 6):  # two chains that end in the same schema text (reuse_model merges them)
        feats.append("chain_twin")
        t, leaf = tops[0]
        twin = names.pop()
        defs[twin] = json_copy(defs[t])
        props["twin"] = _ref(twin)
    doc: dict[str, Any] = {"title": rng.choice(["Model", "Root", "Doc"]), "type": "object", "properties": props, "definitions": defs}
    if required:
        doc["required"] = required
    return doc, feats
