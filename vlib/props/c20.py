"""C20 — a failed run leaves existing output untouched and the process where it was."""
from __future__ import annotations

import contextlib
import hashlib
import io
import json
import os
import shutil
import tempfile
import time
import warnings
from pathlib import Path

from .. import e2e
from ..common import Hang, hx, unhx, watchdog
from ..runner import Check
from ..translate import generate_steps


# ---------------------------------------------------------------- observation: file tree + cwd
def snapshot(root: Path) -> dict[str, str]:
    """every entry below `root`: directories as 'dir', files by content hash (O-fs of DESIGN §2.3.3)"""
    out: dict[str, str] = {}
    for p in sorted(root.rglob("*")):
        rel = str(p.relative_to(root))
        if p.is_symlink():
            out[rel] = "link:" + os.readlink(p)
        elif p.is_dir():
            out[rel] = "dir"
        else:
            out[rel] = hashlib.sha256(p.read_bytes()).hexdigest()[:16]
    return out


def tree_diff(a: dict[str, str], b: dict[str, str]) -> list[str]:
    out = []
    for k in sorted(set(a) | set(b)):
        if a.get(k) != b.get(k):
            out.append(f"{k}: {'absent' if k not in a else ('dir' if a[k] == 'dir' else 'file')} -> "
                       f"{'absent' if k not in b else ('dir' if b[k] == 'dir' else ('empty file' if b[k] == EMPTY else 'other content'))}")
    return out


EMPTY = hashlib.sha256(b"").hexdigest()[:16]


# ---------------------------------------------------------------- documents
def obj(props: dict) -> dict:
    return {"type": "object", "properties": props}


DOCS = {
    # name -> (text, input_file_type, modular?)
    "single": (json.dumps({"title": "Pet", **obj({"id": {"type": "integer"}, "tag": {"type": "string", "enum": ["a", "b"]}})}), "jsonschema", False),
    "single_refs": (json.dumps({"definitions": {"A": obj({"b": {"$ref": "#/definitions/B"}}), "B": obj({"n": {"type": "number"}})}}), "jsonschema", False),
    "modular": (json.dumps({"definitions": {"a.A": obj({"b": {"$ref": "#/definitions/b.B"}}), "b.B": obj({"n": {"type": "number"}}), "b.c.C": obj({"a": {"$ref": "#/definitions/b.B"}})}}), "jsonschema", True),
    "openapi": (json.dumps({"openapi": "3.0.0", "info": {"title": "t", "version": "1"}, "paths": {}, "components": {"schemas": {"Pet": obj({"id": {"type": "integer"}})}}}), "openapi", False),
    "yaml_data": ("name: x\nage: 3\ntags: [a, b]\n", "yaml", False),
    "auto": (json.dumps({"$schema": "http://json-schema.org/draft-07/schema#", "title": "Auto", **obj({"x": {"type": "boolean"}})}), "auto", False),
}


def seeded_doc(rng, i: int) -> tuple[str, str, bool]:
    """a random small document: single- or multi-module"""
    n = rng.range(1, 4)
    modular = rng.chance(1, 2)
    names = []
    for k in range(n):
        prefix = ".".join(rng.choice(["a", "b", "c"]) for _ in range(rng.range(1, 2))) + "." if modular else ""
        names.append(f"{prefix}M{i}x{k}")
    defs = {}
    for k, nm in enumerate(names):
        props = {"id": {"type": rng.choice(["integer", "string", "number"])}}
        if k:
            props["r"] = {"$ref": f"#/definitions/{names[rng.below(k)]}"}
        defs[nm] = obj(props)
    return json.dumps({"definitions": defs}), "jsonschema", modular


# ---------------------------------------------------------------- fault injection
class Injected(Exception):
    pass


def _all_subclasses(cls: type) -> list[type]:
    out = []
    for sub in cls.__subclasses__():
        out.append(sub)
        out += _all_subclasses(sub)
    return out


class Inject:
    """make the n-th call of `owner.attr` raise (before or after running the original). For a class
    the attribute is patched on the class and on every subclass that carries its own copy (the
    `snooper_to_methods` decorator copies inherited methods into the parser subclasses)."""

    def __init__(self, owner, attr: str, n: int, exc: BaseException, after: bool = False) -> None:
        self.owner, self.attr, self.n, self.exc, self.after = owner, attr, n, exc, after
        self.calls = 0
        self.fired = False
        self.saved: list[tuple[object, object]] = []

    def _wrap(self, orig):
        inj = self
        target = orig.__func__ if isinstance(orig, (classmethod, staticmethod)) else orig

        def wrapper(*a, **k):
            inj.calls += 1
            if inj.calls == inj.n and not inj.after:
                inj.fired = True
                raise inj.exc
            r = target(*a, **k)
            if inj.calls == inj.n and inj.after:
                inj.fired = True
                raise inj.exc
            return r

        if isinstance(orig, classmethod):
            return classmethod(wrapper)
        if isinstance(orig, staticmethod):
            return staticmethod(wrapper)
        return wrapper

    def __enter__(self):
        if isinstance(self.owner, type):
            holders = [c for c in [self.owner, *_all_subclasses(self.owner)] if self.attr in c.__dict__]
            for c in holders:
                self.saved.append((c, c.__dict__[self.attr]))
        else:
            self.saved.append((self.owner, getattr(self.owner, self.attr)))
        for holder, orig in self.saved:
            setattr(holder, self.attr, self._wrap(orig))
        return self

    def __exit__(self, *exc):
        for holder, orig in self.saved:
            setattr(holder, self.attr, orig)
        return False


def stages():
    """(stage name, owner, attribute, step of the Lean table it belongs to)"""
    import datamodel_code_generator as d
    import datamodel_code_generator.format as fmt
    import datamodel_code_generator.model.base as mb
    import datamodel_code_generator.parser.base as pb
    import datamodel_code_generator.parser.jsonschema as pj
    import datamodel_code_generator.parser.openapi as po

    return [
        ("generate.load_yaml", d, "load_yaml", "load_yaml"),
        ("generate.infer_input_type", d, "infer_input_type", "infer_input_type"),
        ("generate.get_data_model_types", __import__("datamodel_code_generator.model", fromlist=["x"]), "get_data_model_types", "get_data_model_types"),
        ("parser.__init__", pb.Parser, "__init__", "parser_class"),
        ("parser.load_yaml(source)", pj, "load_yaml", "parser.parse"),
        ("parser.parse_raw", pj.JsonSchemaParser, "parse_raw", "parser.parse"),
        ("parser.parse_raw(openapi)", po.OpenAPIParser, "parse_raw", "parser.parse"),
        ("parser.parse_raw_obj", pj.JsonSchemaParser, "parse_raw_obj", "parser.parse"),
        ("sort_data_models", pb, "sort_data_models", "parser.parse"),
        ("Parser.__change_from_import", pb.Parser, "_Parser__change_from_import", "parser.parse"),
        ("Parser.__sort_models", pb.Parser, "_Parser__sort_models", "parser.parse"),
        ("DataModel.render", mb.DataModel, "render", "parser.parse"),
        ("dump_templates", pb, "dump_templates", "parser.parse"),
        ("CodeFormatter.__init__", fmt.CodeFormatter, "__init__", "parser.parse"),
        ("CodeFormatter.format_code", fmt.CodeFormatter, "format_code", "parser.parse"),
        ("get_version", d, "get_version", "get_version"),
    ]


OUTPUT_STATES = ["missing", "existing_file", "directory_with_results"]


def prepare(work: Path, state: str, modular: bool) -> Path:
    """the scratch parent with the output in the requested state; returns the output path"""
    (work / "unrelated.txt").write_text("do not touch\n")
    (work / "elsewhere").mkdir()
    (work / "elsewhere" / "keep.py").write_text("KEEP = 1\n")
    out = work / ("pkg" if modular else "out.py")
    if state == "existing_file":
        if modular:
            out = work / "pkg.py"  # a file where a directory is needed: the refusal path of generate()
        out.write_text("# previous content\nPREVIOUS = 1\n")
    elif state == "directory_with_results":
        if modular:
            (out / "b").mkdir(parents=True)
            (out / "__init__.py").write_text("# earlier result\nOLD_ROOT = 1\n")
            (out / "b" / "__init__.py").write_text("# earlier result\nOLD_B = 1\n")
            (out / "stale.py").write_text("# earlier result\n")
        else:
            out = work / "outdir"  # a directory where a single module goes
            out.mkdir()
            (out / "earlier.py").write_text("# earlier result\n")
    return out


def call_generate(text: str, ftype: str, out: Path | None, opts: dict, cwd: Path):
    """real generate() under a watchdog, from working directory `cwd`; returns (error | None, cwd after)"""
    import datamodel_code_generator as d
    from datamodel_code_generator.format import Formatter

    kw = dict(opts)
    fm = kw.pop("formatters", None)
    kw["formatters"] = [Formatter(f) for f in fm] if fm is not None else []
    kw.setdefault("disable_timestamp", True)
    here = os.getcwd()
    os.chdir(cwd)
    err = None
    try:
        with watchdog(30), warnings.catch_warnings(), contextlib.redirect_stderr(io.StringIO()), contextlib.redirect_stdout(io.StringIO()):
            warnings.simplefilter("ignore")
            d.generate(text, input_file_type=d.InputFileType(ftype), output=out, output_model_type=d.DataModelType.PydanticV2BaseModel, **kw)
    except Hang:
        raise
    except BaseException as e:  # noqa: BLE001
        if isinstance(e, SystemExit):
            raise
        err = e
    after = os.getcwd()
    os.chdir(here)
    return err, after


OUT_FORMS = ["absolute", "relative", "relative_nested", "relative_dotdot"]


def output_argument(root: Path, work: Path, out: Path, form: str) -> tuple[Path, Path]:
    """(the `output=` argument, the working directory of the call) for the way the output path is written:
    absolute; relative to the cwd with one component (cwd = its parent); relative with a parent component
    (`parent/pkg`, cwd = scratch root); relative through `..` (cwd = a sibling of the parent)"""
    if form == "relative":
        return Path(out.name), work
    if form == "relative_nested":
        return Path(work.name) / out.name, root
    if form == "relative_dotdot":
        return Path("..") / work.name / out.name, root / "cwd"
    return out, root / "cwd"


def one_run(ck: Check, camp, *, doc: str, text: str, ftype: str, modular: bool, state: str, opts: dict,
            inject: tuple | None, base_cls: dict, out_form: str = "absolute", history: list[dict] | None = None) -> dict | None:
    """one real run in a fresh scratch parent; evaluates the property's oracle. Returns the observation.
    `history`: earlier REAL runs into the same output (each {"text", "input_file_type", "opts"}), made before the snapshot: the
    observed run then meets the results of runs made with other options (another encoding, another version of the schema)."""
    root = Path(tempfile.mkdtemp(dir=e2e.scratch_root())).resolve()
    work = root / "parent"
    work.mkdir()
    (root / "cwd").mkdir()
    out = prepare(work, state, modular)
    out_arg, cwd = output_argument(root, work, out, out_form)
    for h in history or []:
        herr, _ = call_generate(h["text"], h["input_file_type"], out_arg, dict(h.get("opts", {})), cwd)
        if herr is not None:   # the earlier run itself failed: there is no history to speak of
            camp.hit("history_run_failed:" + type(herr).__name__)
            shutil.rmtree(root, ignore_errors=True)
            return None
    header_file = None
    if isinstance(opts.get("custom_file_header_path"), str) and opts["custom_file_header_path"].startswith("<text>:"):
        header_file = root / "header.txt"  # beside the scratch parent: an input, part of the snapshot
        header_file.write_text(opts["custom_file_header_path"][len("<text>:"):], encoding="utf-8")
    before = snapshot(root)
    inp = {"doc": doc, "text": text if doc.startswith(("seeded", "genuine", "header", "history")) else None, "history": history, "input_file_type": ftype, "modular": modular,
           "output_state": state, "out_form": out_form, "opts": {k: (str(v) if isinstance(v, Path) else v) for k, v in opts.items()},
           "inject": None if inject is None else {"stage": inject[0], "nth": inject[3], "after": inject[4], "exc": inject[5]}}
    run_opts = dict(opts)
    if run_opts.get("custom_file_header_path") == "<missing>":
        run_opts["custom_file_header_path"] = work / "no-such-header.txt"
    if header_file is not None:
        run_opts["custom_file_header_path"] = header_file
    fired = True
    try:
        if inject is None:
            err, cwd_after = call_generate(text, ftype, out_arg, run_opts, cwd)
        else:
            _, owner, attr, nth, after, excname = inject
            exc = {"Injected": Injected("injected fault"), "KeyboardInterrupt": KeyboardInterrupt(), "MemoryError": MemoryError()}[excname]
            with Inject(owner, attr, nth, exc, after) as inj:
                err, cwd_after = call_generate(text, ftype, out_arg, run_opts, cwd)
            fired = inj.fired
    finally:
        after_snap = snapshot(root)
        shutil.rmtree(root, ignore_errors=True)
    camp.evaluations += 1
    if inject is not None and not fired:
        camp.hit("fault_not_reached")
        return None
    out_rel = str(out.relative_to(root))
    diff = tree_diff(before, after_snap)
    obs = {"failed": err is not None, "error": None if err is None else type(err).__name__, "diff": diff, "cwd_moved": Path(cwd_after) != cwd}
    cls = {**base_cls, "output_state": state, "stage": inject[0] if inject else base_cls.get("stage", "none"), "out_form": out_form}
    camp.hit(f"state:{state}")
    camp.hit(f"output-path:{out_form}")
    camp.hit(("failed:" + type(err).__name__) if err else "succeeded")
    # --- the property's own oracle -------------------------------------------------------------
    if obs["cwd_moved"]:
        ck.fail({**cls, "oracle": "cwd_restored", "mechanism": "cwd_changed"}, inp, f"os.getcwd() was {cwd} before the call and {cwd_after} after it ({'failed' if err else 'successful'} run)")
    if err is not None:
        if diff:
            mech = "encode_error_after_open" if isinstance(err, UnicodeEncodeError) else ("os_error_after_open" if isinstance(err, OSError) else "changed_before_raise")
            ck.fail({**cls, "oracle": "failed_run_tree_unchanged", "mechanism": mech}, inp,
                    f"generate() raised {type(err).__name__} and the file tree changed: {diff[:4]}")
    else:
        outside = [d for d in diff if not (d.split(":")[0] == out_rel or d.split(":")[0].startswith(out_rel + "/"))]
        if outside:
            ck.fail({**cls, "oracle": "success_writes_inside_output", "mechanism": "write_outside_output"}, inp,
                    f"a successful run (output={str(out_arg)!r}, cwd={'<scratch>/' + str(cwd.relative_to(root)) if cwd != root else '<scratch>'}) changed entries outside {out_rel}: {outside[:4]}")
        if not diff:
            camp.hit("success_without_change")
    camp.distinct.add(json.dumps(inp, sort_keys=True, default=str))
    if len(camp.samples) < 3 and err is not None:
        camp.samples.append({"doc": doc, "stage": cls["stage"], "output_state": state, "error": obs["error"], "tree_changed": bool(diff)})
    obs["out_rel"] = out_rel
    obs["after"] = after_snap
    obs["before"] = before
    return obs


# ---------------------------------------------------------------- campaigns
def campaign_tables(ck: Check) -> None:
    """what the translator extracted, seen through the model (refuters of the decidable side conditions)"""
    camp = ck.campaign("GenerateSteps table: side conditions evaluated by the model driver")
    rep = ck.driver.run(["write.tables"])[0]
    camp.evaluations += 1
    ck.notes["generate_steps"] = rep
    vals = dict(t.split("=", 1) for t in rep.split(" ")[1:])
    for k in ("raisesBeforeWrites", "restoresSome", "restoresNone", "writesOnlyInLoop", "tableMeetsContract"):
        camp.hit(f"{k}={vals.get(k)}")
    ck.notes["table_refuter"] = vals.get("refuter")
    camp.hit(f"effectsAfterRaises={vals.get('effectsAfterRaises')}")
    ck.notes["context_refuter"] = vals.get("ctxRefuter")   # the effect step before a may-raise step, context manager / helpers included
    ck.notes["refusal_contract_refuter"] = vals.get("contractRefuter")
    ck.notes["refusals_extracted"] = [{"fn": r[0], "exc": r[1], "msg": r[2], "conds": r[3], "after_parse": r[4], "before_first_write": r[5]} for r in generate_steps.refusals()]
    pre, loop, post, *_ = generate_steps.tables()
    ck.notes["table_sizes"] = {"pre": len(pre), "loopBody": len(loop), "post": len(post)}
    camp.distinct.add(rep)


def campaign_faults(ck: Check, n_seeded: int, nths: list[int]) -> None:
    camp = ck.campaign("fault enumeration on the real generate(): every pipeline stage raises in turn x output states; tree + cwd before/after; model run vs observation")
    t0 = time.time()
    rng = ck.rng.fork("faults")
    docs = dict(DOCS)
    for i in range(n_seeded):
        docs[f"seeded{i}"] = seeded_doc(rng, i)
    st = stages()
    n_rel = [0]
    model_reqs, model_obs = [], []
    for doc, (text, ftype, modular) in docs.items():
        for state in OUTPUT_STATES:
            opts_pool = [{}, {"formatters": ["black", "isort"]}] if doc in ("single", "modular") else [{}]
            if doc == "single":
                opts_pool.append({"enable_version_header": True})
            for opts in opts_pool:
                for name, owner, attr, table_step in st:
                    if "format" in name.lower() and "formatters" not in opts:
                        continue
                    for nth in nths:
                        for after in ((False, True) if name in ("parser.parse_raw", "DataModel.render") and nth == 1 else (False,)):
                            excname = "Injected" if not (name == "DataModel.render" and nth == 2) else rng.choice(["KeyboardInterrupt", "MemoryError", "Injected"])
                            obs = one_run(ck, camp, doc=doc, text=text, ftype=ftype, modular=modular, state=state, opts=opts,
                                          inject=(name, owner, attr, nth, after, excname), base_cls={"kind": "injected"})
                            if nth == 1 and not after and not opts and name in ("parser.parse_raw", "DataModel.render", "get_version"):
                                n_rel[0] += 1   # the same fault with the output path written relative to the working directory
                                one_run(ck, camp, doc=doc, text=text, ftype=ftype, modular=modular, state=state, opts=opts,
                                        inject=(name, owner, attr, nth, after, excname), base_cls={"kind": "injected"}, out_form=OUT_FORMS[1 + n_rel[0] % 3])
                            if obs is None:
                                continue
                            camp.hit(f"stage:{name}")
                            if len(model_reqs) < 400 and state != "existing_file" and not opts:
                                model_reqs.append(model_request(obs, modular, table_step))
                                model_obs.append((obs, {"doc": doc, "stage": name, "state": state}))
    # model correspondence: the Lean run with the fault at the corresponding table step predicts
    # failed / unchanged tree / cwd restored
    for (obs, what), rep in zip(model_obs, ck.driver.run(model_reqs)):
        toks = rep.split(" ")
        statuses = dict(t.rsplit("=", 1) for t in toks[2:])
        model = {"failed": toks[0] == "failed", "cwd_moved": toks[1] != "cwd=orig", "changed": sorted(k for k, v in statuses.items() if v != "unchanged" and v != "absent")}
        impl = {"failed": obs["failed"], "cwd_moved": obs["cwd_moved"], "changed": sorted(d.split(":")[0] for d in obs["diff"] if "dir ->" not in d and "-> dir" not in d)}
        if model != impl:
            ck.disagree(camp, what, model, impl)
    camp.wall_s = time.time() - t0


def model_request(obs: dict, modular: bool, table_step: str, seg: str = "pre", enc_ok: bool = True) -> str:
    """`write.run` request mirroring one observed run: existing files below the output, modules = files present afterwards
    (for a failed run: none are needed, the fault comes first)"""
    out_rel = obs["out_rel"]
    out = out_rel.split("/")
    existing = [k.split("/") for k, v in obs["before"].items() if v != "dir" and (k == out_rel or k.startswith(out_rel + "/"))]
    # the modules of this run: what the run wrote (stale files of earlier results are not modules)
    mods = [k.split("/")[len(out):] for k, v in obs["after"].items()
            if v != "dir" and (k == out_rel or k.startswith(out_rel + "/")) and obs["before"].get(k) != v]
    P = lambda p: "(" + " ".join(hx(x) for x in p) + ")"
    mods_s = "(" + " ".join(f"({P(m)} {'1' if enc_ok else '0'})" for m in mods) + ")"
    files_s = "(" + " ".join(P(f) for f in existing) + ")"
    return f"write.run {P(out)} {mods_s} {files_s} 1 {hx(seg)} {hx(table_step)} 0"


GENUINE = [
    # (name, text, input_file_type, modular, opts, expected failure class, classification stage)
    ("unparsable_json", '{"type": "object", "properties": {', "jsonschema", False, {}, "unparsable_input"),
    ("unparsable_yaml", "a: [1, 2\nb: {", "jsonschema", False, {}, "unparsable_input"),
    ("not_a_mapping", "[1, 2, 3]", "jsonschema", False, {}, "unparsable_input"),
    ("unresolvable_ref", json.dumps(obj({"x": {"$ref": "#/definitions/Nope"}})), "jsonschema", False, {}, "unresolvable_ref"),
    ("unresolvable_file_ref", json.dumps(obj({"x": {"$ref": "missing-file.json#/definitions/Nope"}})), "jsonschema", False, {}, "unresolvable_ref"),
    ("empty_openapi", json.dumps({"openapi": "3.0.0", "info": {"title": "t", "version": "1"}, "paths": {}}), "openapi", False, {}, "no_models"),
    ("bad_type_keyword", json.dumps({"type": "object", "properties": {"x": {"type": 5}}}), "jsonschema", False, {}, "unsupported_construct"),
    ("bad_csv", "", "csv", False, {}, "unparsable_input"),
    ("bad_json_data", "{not json", "json", False, {}, "unparsable_input"),
    ("modular_into_file", DOCS["modular"][0], "jsonschema", True, {}, "modular_into_file"),
    ("missing_header_file", DOCS["single"][0], "jsonschema", False, {"custom_file_header_path": "<missing>"}, "header_read"),
    ("missing_header_file_modular", DOCS["modular"][0], "jsonschema", True, {"custom_file_header_path": "<missing>"}, "header_read"),
    ("bad_custom_template_dir", DOCS["single"][0], "jsonschema", False, {"custom_template_dir": Path("/nonexistent-templates")}, "unsupported_construct"),
    ("union_mode_wrong_kind", DOCS["single"][0], "jsonschema", False, {"union_mode": "smart", "_kind": "dataclass"}, "unsupported_construct"),
    ("encode_error_ascii", json.dumps({"title": "Pet", "description": "café", **obj({"id": {"type": "integer"}})}), "jsonschema", False, {"encoding": "ascii", "use_schema_description": True}, "encode_error"),
    ("encode_error_ascii_modular", json.dumps({"definitions": {"a.A": {"description": "naïve", **obj({"i": {"type": "integer"}})}, "b.B": obj({"n": {"type": "number"}})}}), "jsonschema", True, {"encoding": "ascii", "use_schema_description": True}, "encode_error"),
]


def campaign_genuine(ck: Check) -> None:
    camp = ck.campaign("genuine failures (unparsable input, unresolvable $ref, unsupported construct, modular result into a file, header read, encoding) x output states")
    t0 = time.time()
    n_rel = [0]
    for name, text, ftype, modular, opts, fclass in GENUINE:
        for state in OUTPUT_STATES:
            if name == "modular_into_file" and state != "existing_file":
                continue
            o = {k: v for k, v in opts.items() if not k.startswith("_")}
            obs = genuine_run(ck, camp, name, text, ftype, modular, state, o, fclass, kind=opts.get("_kind"))
            if obs is not None and not obs["failed"]:
                camp.hit(f"did_not_fail:{name}")
            if not opts.get("_kind"):   # the same failure with the output path written relative to the working directory
                n_rel[0] += 1
                genuine_run(ck, camp, name, text, ftype, modular, state, o, fclass, out_form=OUT_FORMS[1 + n_rel[0] % 3])
    # chdir target does not exist: os.chdir(path.parent) fails inside the try
    obs = genuine_run(ck, camp, "output_parent_missing", DOCS["single"][0], "jsonschema", False, "missing", {"_deep_output": True}, "chdir_target_missing")
    camp.wall_s = time.time() - t0


def genuine_run(ck, camp, name, text, ftype, modular, state, opts, fclass, kind=None, out_form="absolute"):
    o = dict(opts)
    deep = o.pop("_deep_output", False)
    if deep or kind:
        return special_run(ck, camp, name, text, ftype, state, o, fclass, deep, kind)
    return one_run(ck, camp, doc="genuine:" + name, text=text, ftype=ftype, modular=modular, state=state, opts=o, inject=None,
                   base_cls={"kind": "genuine", "stage": fclass}, out_form=out_form)


def special_run(ck, camp, name, text, ftype, state, opts, fclass, deep, kind):
    """variants that need a different call shape (output below a missing directory; another model kind)"""
    import datamodel_code_generator as d

    root = Path(tempfile.mkdtemp(dir=e2e.scratch_root()))
    work = root / "parent"
    work.mkdir()
    cwd = root / "cwd"
    cwd.mkdir()
    out = prepare(work, state, False)
    if deep:
        out = work / "no" / "such" / "dir" / "out.py"
    before = snapshot(root)
    here = os.getcwd()
    os.chdir(cwd)
    err = None
    try:
        with contextlib.redirect_stderr(io.StringIO()):
            kw = dict(opts)
            if kind:
                kw["output_model_type"] = d.DataModelType.DataclassesDataclass
            d.generate(text, input_file_type=d.InputFileType(ftype), output=out, formatters=[], disable_timestamp=True, **kw)
    except BaseException as e:  # noqa: BLE001
        err = e
    cwd_after = os.getcwd()
    os.chdir(here)
    after = snapshot(root)
    shutil.rmtree(root, ignore_errors=True)
    camp.evaluations += 1
    diff = tree_diff(before, after)
    inp = {"doc": "genuine:" + name, "text": text, "input_file_type": ftype, "output_state": state, "opts": {k: str(v) for k, v in opts.items()}, "special": "deep_output" if deep else kind}
    cls = {"kind": "genuine", "stage": fclass, "output_state": state}
    camp.hit(("failed:" + type(err).__name__) if err else "succeeded")
    camp.distinct.add(json.dumps(inp, sort_keys=True))
    if Path(cwd_after) != cwd:
        ck.fail({**cls, "oracle": "cwd_restored", "mechanism": "cwd_changed"}, inp, f"cwd {cwd} -> {cwd_after}")
    if err is not None and diff:
        ck.fail({**cls, "oracle": "failed_run_tree_unchanged", "mechanism": "changed_before_raise"}, inp, f"{type(err).__name__}; tree changed: {diff[:4]}")
    return {"failed": err is not None, "diff": diff}


def campaign_success(ck: Check, n_seeded: int) -> None:
    camp = ck.campaign("successful runs: only the requested output changes (snapshot of the scratch parent), cwd unchanged")
    t0 = time.time()
    rng = ck.rng.fork("success")
    docs = dict(DOCS)
    for i in range(n_seeded):
        docs[f"seeded_ok{i}"] = seeded_doc(rng, 100 + i)
    reqs, obss = [], []
    for doc, (text, ftype, modular) in docs.items():
        for state in ("missing", "directory_with_results") if modular else ("missing", "existing_file"):
            for opts, form in [({}, f) for f in OUT_FORMS] + [({"formatters": ["black", "isort"]}, "absolute")]:
                obs = one_run(ck, camp, doc=doc, text=text, ftype=ftype, modular=modular, state=state, opts=opts, inject=None, base_cls={"kind": "success"}, out_form=form)
                if obs is not None and not obs["failed"] and not opts:
                    reqs.append(model_request(obs, modular, "-", seg="none"))
                    obss.append((obs, {"doc": doc, "state": state, "output_path": form}))
    for (obs, what), rep in zip(obss, ck.driver.run(reqs)):
        toks = rep.split(" ")
        statuses = dict(t.rsplit("=", 1) for t in toks[2:])
        model_changed = sorted(k for k, v in statuses.items() if v in ("created", "changed"))
        impl_changed = sorted(d.split(":")[0] for d in obs["diff"] if "-> dir" not in d)
        if toks[0] != "done" or toks[1] != "cwd=orig" or model_changed != impl_changed:
            ck.disagree(camp, what, {"outcome": toks[0], "changed": model_changed}, {"outcome": "done", "changed": impl_changed})
    camp.wall_s = time.time() - t0


HEADERS = [
    "# Copyright (c) {year} ACME",
    "# build ${BUILD_TAG}",
    "# {",
    "# }",
    "# {}",
    "# {0} {1}",
    "# {filename!r:>10}",
    "# 100% generated, {done}% reviewed",
    "# %s %(name)s %d %",
    "# {{escaped}} braces",
    "# {a[0]} {b.c}",
    "# plain header",
    "# caf\u00e9 {x}",
]


def campaign_headers(ck: Check, n_random: int) -> None:
    """user-supplied header text is data: whatever it contains, a run either succeeds (and changes only
    the output) or fails with the tree untouched — with output that already exists"""
    camp = ck.campaign("custom_file_header / custom_file_header_path with braces, percent signs, format-like text x existing output")
    t0 = time.time()
    rng = ck.rng.fork("headers")
    headers = list(HEADERS)
    alphabet = ["{", "}", "{}", "{0}", "%", "%s", "%(", "$", "#", " ", "x", "year", "!r", ":", "[", "]", ".", "\n# "]
    for _ in range(n_random):
        headers.append("# " + "".join(rng.choice(alphabet) for _ in range(rng.range(1, 6))))
    for h in headers:
        for doc in ("single", "modular"):
            text, ftype, modular = DOCS[doc]
            for state in (("existing_file", "missing") if not modular else ("directory_with_results", "missing")):
                for how in ("custom_file_header", "custom_file_header_path"):
                    if how == "custom_file_header_path" and state == "missing":
                        continue
                    opts = {how: h if how == "custom_file_header" else "<text>:" + h}
                    if "\u00e9" in h and rng.chance(1, 2):
                        opts["encoding"] = "ascii"
                    obs = one_run(ck, camp, doc="header:" + doc, text=text, ftype=ftype, modular=modular, state=state, opts=opts,
                                  inject=None, base_cls={"kind": "genuine", "stage": "custom_header"})
                    camp.hit(how)
                    if obs is not None and not obs["failed"]:
                        camp.hit("header_written")
    camp.wall_s = time.time() - t0


# ---------------------------------------------------------------- histories: the output already holds results of OTHER runs
NON_ASCII = ["café", "naïve — résumé", "Größe in µm", "£ per ½ unit", "señor"]
FIRST_ENCODINGS = ["latin-1", "cp1252", "utf-16", "utf-8", "iso-8859-15", "utf-8-sig"]
SECOND_ENCODINGS = [None, None, "utf-8", "ascii", "latin-1", "utf-16"]   # None = the default of generate()


def history_doc(rng, modular: bool) -> tuple[dict, list[str]]:
    """(document, names of its definitions in module order): 2–4 definitions (dotted names = one module each when `modular`),
    one or two of them — at a random position in the order the modules are written — described in non-ASCII text"""
    n = rng.range(2, 4)
    mods = rng.sample(["alpha", "beta", "gamma", "delta", "omega", "b.c", "a.z"], n) if modular else [""] * n
    names = [f"{m}.M{k}" if m else f"M{k}" for k, m in enumerate(mods)]
    defs = {}
    for k, nm in enumerate(names):
        defs[nm] = {"description": f"model number {k}", **obj({"id": {"type": rng.choice(["integer", "string"])}})}
        if k and rng.chance(1, 2):
            defs[nm]["properties"]["r"] = {"$ref": f"#/definitions/{names[rng.below(k)]}"}
    for nm in rng.sample(names, rng.range(1, 2)):
        defs[nm]["description"] = rng.choice(NON_ASCII)
    return {"definitions": defs}, names


def next_version(rng, doc: dict, names: list[str]) -> dict:
    """the schema as it is at the time of the second run: a member added to some (maybe all, maybe none) of the definitions"""
    doc = json.loads(json.dumps(doc))
    how = rng.below(4)
    touched = names if how == 0 else ([] if how == 1 else rng.sample(names, rng.range(1, len(names))))
    for nm in touched:
        doc["definitions"][nm]["properties"]["added"] = {"type": "boolean"}
    return doc


def campaign_histories(ck: Check, n: int) -> None:
    """two-run histories into the SAME output: the first run with one encoding and one version of the schema, the second with
    another encoding / a changed schema. Whatever the earlier run left there, the second run either succeeds (and changes only the
    output) or fails with every file as the first run left it."""
    camp = ck.campaign("histories: a second run into the output of an earlier run made with another encoding (non-ASCII text) and another version of the schema; a failed second run leaves the earlier results as they were")
    t0 = time.time()
    rng = ck.rng.fork("histories")
    for i in range(n):
        modular = rng.chance(3, 4)
        doc, names = history_doc(rng, modular)
        enc1, enc2 = rng.choice(FIRST_ENCODINGS), rng.choice(SECOND_ENCODINGS)
        first = {"text": json.dumps(doc, ensure_ascii=False), "input_file_type": "jsonschema", "opts": {"encoding": enc1, "use_schema_description": True}}
        second_opts = {"use_schema_description": rng.chance(3, 4)}
        if enc2 is not None:
            second_opts["encoding"] = enc2
        text2 = json.dumps(next_version(rng, doc, names), ensure_ascii=False)
        obs = one_run(ck, camp, doc=f"history{i}", text=text2, ftype="jsonschema", modular=modular, state="missing", opts=second_opts, inject=None,
                      base_cls={"kind": "history", "stage": "second_run"}, history=[first])
        camp.hit(f"first-run-encoding:{enc1}")
        camp.hit(f"second-run-encoding:{enc2 or 'default'}")
        camp.hit("modular" if modular else "single-file")
        if obs is not None:
            camp.hit("second-run:" + ("failed" if obs["failed"] else ("rewrote" if obs["diff"] else "no-change")))
        if ck.failures and ck.notes.get("stop_at_first_failure"):
            break
    camp.wall_s = time.time() - t0


# ---------------------------------------------------------------- refusals: which runs must fail, and what a refused run leaves
REFUSAL_OUTPUT_STATES = ["missing_suffix", "missing_nosuffix", "existing_file_suffix", "existing_file_nosuffix", "empty_dir", "nonempty_dir", "existing_dir_suffix", "stdout"]

OPENAPI_DOTTED = """openapi: "3.0.0"
info: {title: t, version: "1"}
paths: {}
components:
  schemas:
    Customer:
      type: object
      properties:
        name: {type: string}
    shop.orders.Order:
      type: object
      properties:
        id: {type: integer}
        customer: {$ref: "#/components/schemas/Customer"}
"""


def refusal_cases(rng, n_seeded: int) -> list[dict]:
    """(name, input kind, files / text, input_file_type, kind of parse result) — every refusal path of generate() by construction:
    no models; a modular result (dotted schema names in ONE document given as text or as a file; a directory of documents);
    a single-module result (the control: must not be refused); invalid input (refused before the parse)."""
    J = json.dumps
    cases: list[dict] = []

    def both(name, text, ftype, result, suffix=".json"):
        cases.append({"name": name, "input": "text", "text": text, "ftype": ftype, "result": result})
        cases.append({"name": name, "input": "file", "files": {"schema" + suffix: text}, "ftype": ftype, "result": result})

    both("modular_dotted", DOCS["modular"][0], "jsonschema", "modular")
    both("modular_dotted_auto", J({"$schema": "http://json-schema.org/draft-07/schema#", "definitions": {"x.y.Z": obj({"i": {"type": "integer"}}), "W": obj({"z": {"$ref": "#/definitions/x.y.Z"}})}}), "auto", "modular")
    both("modular_openapi_dotted", OPENAPI_DOTTED, "openapi", "modular", ".yaml")
    both("single", DOCS["single"][0], "jsonschema", "single")
    both("single_refs", DOCS["single_refs"][0], "jsonschema", "single")
    both("single_raw_json", J({"name": "x", "age": 3}), "json", "single")
    both("nothing", J({"openapi": "3.0.0", "info": {"title": "t", "version": "1"}, "paths": {}}), "openapi", "nothing")
    both("invalid_auto", "{{{ not a document", "auto", "invalid")
    both("invalid_json_data", "{not json", "json", "invalid")
    both("unresolvable_ref", J(obj({"x": {"$ref": "#/definitions/Nope"}})), "jsonschema", "invalid")
    cases.append({"name": "modular_dir", "input": "dir", "files": {"a.json": J({"title": "A", **obj({"i": {"type": "integer"}})}), "b.json": J({"title": "B", **obj({"a": {"$ref": "a.json"}})})}, "ftype": "jsonschema", "result": "modular"})
    cases.append({"name": "modular_dir_dotted", "input": "dir", "files": {"a.json": DOCS["modular"][0], "b.json": J({"title": "B", **obj({"s": {"type": "string"}})})}, "ftype": "jsonschema", "result": "modular"})
    cases.append({"name": "modular_dir_openapi", "input": "dir", "files": {"api.yaml": OPENAPI_DOTTED, "other.yaml": OPENAPI_DOTTED.replace("shop.orders.Order", "Order")}, "ftype": "openapi", "result": "modular"})
    cases.append({"name": "raw_data_from_dir", "input": "dir", "files": {"a.json": "{}"}, "ftype": "json", "result": "invalid"})
    cases.append({"name": "single_parsed_dict", "input": "dict", "data": {"name": "x", "tags": ["a"], "pos": {"lat": 1.5}}, "ftype": "dict", "result": "single"})
    cases.append({"name": "missing_input_auto", "input": "file", "files": {}, "ftype": "auto", "result": "invalid"})
    for i in range(n_seeded):
        text, ftype, modular = seeded_doc(rng, 500 + i)
        kind = rng.choice(["text", "file"])
        c = {"name": f"seeded{i}", "input": kind, "ftype": ftype, "result": "modular" if modular else "single"}
        c.update({"text": text} if kind == "text" else {"files": {"schema.json": text}})
        cases.append(c)
    return cases


def prepare_refusal_output(work: Path, state: str) -> Path | None:
    (work / "unrelated.txt").write_text("do not touch\n")
    if state == "stdout":
        return None
    suffix = state in ("missing_suffix", "existing_file_suffix", "existing_dir_suffix")
    out = work / ("models.py" if suffix else "pkg")
    if state.startswith("existing_file"):
        out.write_text("# previous content\nPREVIOUS = 1\n")
    elif state in ("empty_dir", "existing_dir_suffix"):
        out.mkdir()
    elif state == "nonempty_dir":
        (out / "earlier").mkdir(parents=True)
        (out / "earlier" / "__init__.py").write_text("# earlier result\nOLD = 1\n")
        (out / "stale.py").write_text("# earlier result\n")
    return out


def refusal_run(ck: Check, camp, case: dict, state: str, base_cls: dict | None = None, relative: bool = False) -> dict:
    """one real run of a refusal case; evaluates the property's oracle (a failed run changes nothing; cwd as before; a successful
    run changes only the output; a run the contract refuses is refused). Returns the observation for the model comparison."""
    import datamodel_code_generator as d

    root = Path(tempfile.mkdtemp(dir=e2e.scratch_root())).resolve()
    work = root / "parent"
    work.mkdir()
    (root / "cwd").mkdir()
    src = root / "inputs"
    src.mkdir()
    for fn, body in (case.get("files") or {}).items():
        (src / fn).write_text(body, encoding="utf-8")
    if case["input"] == "text":
        arg = case["text"]
    elif case["input"] == "dict":
        arg = case["data"]
    elif case["input"] == "dir":
        arg = src
    else:
        arg = src / (next(iter(case.get("files") or {}), None) or "no-such-input.json")
    out = prepare_refusal_output(work, state)
    before = snapshot(root)
    # the output path absolute (called from a foreign directory) or relative to the working directory (= the scratch parent)
    cwd = work if relative and out is not None else root / "cwd"
    try:
        err, cwd_after = call_generate(arg, case["ftype"], Path(out.name) if relative and out is not None else out, {}, cwd)
    finally:
        after = snapshot(root)
        shutil.rmtree(root, ignore_errors=True)
    camp.evaluations += 1
    diff = tree_diff(before, after)
    is_none, has_suffix = out is None, bool(out is not None and out.suffix)
    must_refuse = case["result"] == "nothing" or (case["result"] == "modular" and (is_none or has_suffix)) or case["result"] == "invalid"
    inp = {"refusal": {k: case[k] for k in ("name", "input", "ftype", "result") if k in case} | {"text": case.get("text"), "files": case.get("files"), "data": case.get("data")}, "output_state": state, "relative_output": relative}
    cls = {"kind": "refusal", "stage": "refusal:" + case["result"], "output_state": state, "input_kind": case["input"], **(base_cls or {})}
    camp.hit(f"state:{state}")
    camp.hit(f"input:{case['input']}")
    camp.hit("output-path:" + ("relative" if relative and out is not None else "absolute"))
    camp.hit(f"result:{case['result']}")
    camp.hit(("failed:" + type(err).__name__) if err else "succeeded")
    camp.distinct.add(json.dumps(inp, sort_keys=True))
    what = f"{case['result']} result of a {case['input']} input ({case['ftype']}) into output state {state}"
    if Path(cwd_after) != cwd:
        ck.fail({**cls, "oracle": "cwd_restored", "mechanism": "cwd_changed"}, inp, f"os.getcwd() changed during the run ({what})")
    if err is not None and diff:
        ck.fail({**cls, "oracle": "failed_run_tree_unchanged", "mechanism": "os_error_after_open" if isinstance(err, OSError) else "changed_before_raise"}, inp,
                f"generate() raised {type(err).__name__} and the file tree changed ({what}): {diff[:4]}")
    if err is None:
        out_rel = None if out is None else str(out.relative_to(root))
        outside = [x for x in diff if out_rel is None or not (x.split(":")[0] == out_rel or x.split(":")[0].startswith(out_rel + "/"))]
        if outside:
            ck.fail({**cls, "oracle": "success_writes_inside_output", "mechanism": "write_outside_output"}, inp, f"a successful run changed entries outside the output ({what}): {outside[:4]}")
        if must_refuse and case["result"] != "invalid":
            ck.fail({**cls, "oracle": "must_refuse_run_is_refused", "mechanism": "refusal_skipped"}, inp,
                    f"a run that must be refused ({what}) succeeded" + (f" and changed the file tree: {diff[:4]}" if diff else " (tree unchanged)"))
        elif must_refuse:
            camp.hit("invalid_input_accepted:" + case["name"])
    if len(camp.samples) < 3 and err is not None and case["result"] == "modular":
        camp.samples.append({"case": case["name"], "input": case["input"], "output_state": state, "error": type(err).__name__, "message": str(err)[:80], "tree_changed": bool(diff)})
    return {"case": case["name"], "input": case["input"], "state": state, "result": case["result"], "is_none": is_none, "has_suffix": has_suffix,
            "error": None if err is None else type(err).__name__, "message": None if err is None else str(err), "diff": diff}


def campaign_refusals(ck: Check, n_seeded: int, only=None, stop_at_first: bool = False) -> None:
    """every refusal path of generate() x input kinds x output states; the Lean contract (Model/Write.contractDecision) and the
    decision of the EXTRACTED refusal table are compared with the real run"""
    camp = ck.campaign("refusals: (no models | modular | single-module | invalid input) x (text, file with dotted names, directory) x (missing with/without suffix, existing file, empty / non-empty directory, stdout): contract and extracted refusal table vs real generate(); refused run leaves the tree unchanged")
    t0 = time.time()
    rng = ck.rng.fork("refusals")
    obs = []
    for case in refusal_cases(rng, n_seeded):
        for state in REFUSAL_OUTPUT_STATES:
            if only is not None and not only(case, state):
                continue
            obs.append(refusal_run(ck, camp, case, state, relative=len(obs) % 3 == 2))
            if stop_at_first and ck.failures:
                break
        if stop_at_first and ck.failures:
            break
    todo = [o for o in obs if o["result"] != "invalid"]
    reps = ck.driver.run([f"write.refusal {hx(o['result'])} {int(o['is_none'])} {int(o['has_suffix'])}" for o in todo])
    for o, rep in zip(todo, reps):
        vals = dict(t.split("=", 1) for t in rep.split(" ")[1:])

        def dec(v):
            return ("refused", unhx(v.split(":", 1)[1])) if v.startswith("refused:") else (v.split(":")[0], None)
        contract, table = dec(vals.get("contract", "?")), dec(vals.get("table", "?"))
        # the code's own refusals are the `Error`s of generate() after the parse; OS-level errors of the write loop (a directory
        # where a file goes, a file where a directory goes) are outside the model (OsOk) and judged by the tree oracle alone
        impl = ("refused", o["message"]) if o["error"] == "Error" else ("proceeds", None)
        camp.hit("model:" + contract[0])
        if contract != impl or table != impl:
            ck.disagree(camp, {k: o[k] for k in ("case", "input", "state", "result")}, {"contract": contract, "extracted_table": table}, {"code": impl, "error": o["error"]})
    camp.wall_s = time.time() - t0


# ---------------------------------------------------------------- output locations: where the output goes, and what a failed run leaves THERE
# (location, what is requested): the parents of the output may not exist yet; a failed run must not leave them behind
LOCATIONS = [
    # name, path of the output below the scratch parent, directories that exist beforehand (below the scratch parent), a file that exists beforehand
    ("file_two_missing_parents", "a/b/models.py", [], None),
    ("file_one_missing_parent", "gen/models.py", [], None),
    ("file_missing_parent_below_existing", "existing/sub/models.py", ["existing"], None),
    ("file_inside_existing_dir", "existing/models.py", ["existing"], None),
    ("file_inside_existing_dir_overwrite", "existing/models.py", ["existing"], "existing/models.py"),
    ("dir_below_missing", "a/pkg", [], None),
    ("dir_below_two_missing", "a/b/pkg", [], None),
    ("dir_inside_existing_dir", "existing/pkg", ["existing"], None),
    ("dir_existing_below_existing", "existing/pkg", ["existing", "existing/pkg"], None),
    ("file_parent_is_a_file", "blocker/models.py", [], "blocker"),
]
LOCATION_FORMS = ["absolute", "relative", "relative_dotdot"]

NON_ASCII_DOC = json.dumps({"title": "Pet", "description": "café", **obj({"id": {"type": "integer"}})})
NON_ASCII_MODULAR = json.dumps({"definitions": {"a.A": {"description": "naïve", **obj({"i": {"type": "integer"}})}, "b.B": obj({"n": {"type": "number"}})}})

# failure kinds at every stage of the pipeline (genuine ones first, then a stage made to raise from the harness) + the success control
LOCATION_FAILURES = [
    # name, (single-module text, modular text), input_file_type, opts, injected stage or None
    ("success_control", None, "jsonschema", {}, None),
    ("unresolvable_ref", (json.dumps(obj({"x": {"$ref": "#/definitions/Nope"}})), json.dumps({"title": "Root", **obj({"x": {"$ref": "no-such-file.json#/definitions/Nope"}}), "definitions": {"a.A": obj({"i": {"type": "integer"}}), "b.B": obj({"n": {"type": "number"}})}})), "jsonschema", {}, None),
    ("unparsable_text", ('{"type": "object", "properties": {', "a: [1, 2\nb: {"), "jsonschema", {}, None),
    ("unparsable_auto", ("{{{ not a document", "{{{ not a document"), "auto", {}, None),
    ("no_models", (json.dumps({"openapi": "3.0.0", "info": {"title": "t", "version": "1"}, "paths": {}}),) * 2, "openapi", {}, None),
    ("modular_into_file", "swap", "jsonschema", {}, None),       # the modular document into a file-like location (refused after the parse)
    ("encoding_failure", (NON_ASCII_DOC, NON_ASCII_MODULAR), "jsonschema", {"encoding": "ascii", "use_schema_description": True}, None),
    ("missing_header_file", None, "jsonschema", {"custom_file_header_path": "<missing>"}, None),
    ("formatter_failure", None, "jsonschema", {"custom_formatters": ["no_such_formatter_module.for_c20"]}, None),
    ("injected:parser.__init__", None, "jsonschema", {}, "parser.__init__"),
    ("injected:parser.parse_raw", None, "jsonschema", {}, "parser.parse_raw"),
    ("injected:sort_data_models", None, "jsonschema", {}, "sort_data_models"),
    ("injected:DataModel.render", None, "jsonschema", {}, "DataModel.render"),
    ("injected:format_code", None, "jsonschema", {"formatters": ["black", "isort"]}, "CodeFormatter.format_code"),
    ("injected:get_version", None, "jsonschema", {"enable_version_header": True}, "get_version"),
]


def location_run(ck: Check, camp, loc: str, failure: str, form: str, text: str | None = None, base_cls: dict | None = None) -> dict | None:
    """one real run with the output at a location whose parents may not exist; the property's oracle on the complete tree of the
    scratch root (empty directories are entries of the listing) and os.getcwd() before/after."""
    name, rel, dirs, pre_file = next(l for l in LOCATIONS if l[0] == loc)
    fname, texts, ftype, opts, stage = next(f for f in LOCATION_FAILURES if f[0] == failure)
    wants_dir = not rel.endswith(".py")
    if text is None:
        if texts == "swap":
            text = DOCS["modular"][0]
        elif texts is None:
            text = DOCS["modular" if wants_dir else "single"][0]
        else:
            text = texts[1 if wants_dir else 0]
    root = Path(tempfile.mkdtemp(dir=e2e.scratch_root())).resolve()
    work = root / "parent"
    work.mkdir()
    (root / "cwd").mkdir()
    (work / "unrelated.txt").write_text("do not touch\n")
    for d_ in dirs:
        (work / d_).mkdir(parents=True)
        (work / d_ / "keep.txt").write_text("earlier content\n")
    if pre_file:
        (work / pre_file).write_text("# previous content\nPREVIOUS = 1\n")
    out = work / rel
    if form == "relative":
        out_arg, cwd = Path(rel), work
    elif form == "relative_dotdot":
        out_arg, cwd = Path("..") / work.name / rel, root / "cwd"
    else:
        out_arg, cwd = out, root / "cwd"
    run_opts = dict(opts)
    if run_opts.get("custom_file_header_path") == "<missing>":
        run_opts["custom_file_header_path"] = root / "no-such-header.txt"
    before = snapshot(root)
    fired = None
    try:
        if stage is None:
            err, cwd_after = call_generate(text, ftype, out_arg, run_opts, cwd)
        else:
            st = {s[0]: s for s in stages()}[stage]
            with Inject(st[1], st[2], 1, Injected("injected fault")) as inj:
                err, cwd_after = call_generate(text, ftype, out_arg, run_opts, cwd)
            fired = inj.fired
    finally:
        after = snapshot(root)
        shutil.rmtree(root, ignore_errors=True)
    camp.evaluations += 1
    diff = tree_diff(before, after)
    inp = {"location": {"name": loc, "failure": failure, "form": form, "text": text}}
    cls = {"kind": "location", "stage": failure, "output_state": loc, "out_form": form, **(base_cls or {})}
    camp.hit(f"location:{loc}")
    camp.hit(f"failure:{failure}")
    camp.hit(f"output-path:{form}")
    camp.hit(("failed:" + type(err).__name__) if err else "succeeded")
    if fired is not None:
        camp.hit("injected_fault_reached" if fired else "failed_before_injected_stage")
    camp.distinct.add(json.dumps(inp, sort_keys=True))
    what = f"output {str(out_arg)!r} ({loc}; {'directories ' + str(dirs) + ' exist' if dirs else 'no directory below the scratch parent exists'}), failure kind {failure}"
    if Path(cwd_after) != cwd:
        ck.fail({**cls, "oracle": "cwd_restored", "mechanism": "cwd_changed"}, inp, f"os.getcwd() changed during the run ({what})")
    out_rel = str(out.relative_to(root))
    if err is not None:
        if diff:
            new_dirs = [x for x in diff if x.endswith("absent -> dir")]
            mech = "directory_left_by_failed_run" if new_dirs and len(new_dirs) == len(diff) else ("os_error_after_open" if isinstance(err, OSError) else "changed_before_raise")
            ck.fail({**cls, "oracle": "failed_run_tree_unchanged", "mechanism": mech}, inp,
                    f"generate() raised {type(err).__name__} and the file tree changed ({what}): {diff[:4]}")
    else:
        # a successful run may create the output and the directories that lead to it, nothing else
        def allowed(x: str) -> bool:
            k = x.split(":")[0]
            return k == out_rel or k.startswith(out_rel + "/") or (out_rel.startswith(k + "/") and x.endswith("absent -> dir"))
        outside = [x for x in diff if not allowed(x)]
        if outside:
            ck.fail({**cls, "oracle": "success_writes_inside_output", "mechanism": "write_outside_output"}, inp, f"a successful run changed entries outside the output ({what}): {outside[:4]}")
        if failure != "success_control":
            camp.hit("did_not_fail:" + failure)
    if len(camp.samples) < 3 and err is not None and "missing" in loc:
        camp.samples.append({"location": loc, "failure": failure, "output_path": form, "error": type(err).__name__, "tree_changed": bool(diff)})
    return {"failed": err is not None, "error": None if err is None else type(err).__name__, "diff": diff}


def location_product(rng, full: bool, n_seeded: int) -> list[tuple[str, str, str, str | None]]:
    """(location, failure kind, way the path is written, document text or None): quick = every (location, failure kind) pair with ONE
    way of writing the path (rotating, so that every way meets every location and every failure kind over the campaign); full = the product"""
    cases = []
    k = rng.below(3)
    for li, (loc, rel, _, _) in enumerate(LOCATIONS):
        for fi, (failure, texts, *_rest) in enumerate(LOCATION_FAILURES):
            if failure == "modular_into_file" and not rel.endswith(".py"):
                continue
            for form in (LOCATION_FORMS if full else [LOCATION_FORMS[(li + fi + k) % 3]]):
                cases.append((loc, failure, form, None))
    # seeded documents with a dangling reference (single- and multi-module), at the locations with missing parents
    for i in range(n_seeded):
        loc, rel, _, _ = rng.choice(LOCATIONS)
        wants_dir = not rel.endswith(".py")
        doc = json.loads(seeded_doc(rng, 900 + i)[0])
        if wants_dir:
            doc["definitions"] = {(k_ if "." in k_ else "m." + k_): v for k_, v in doc["definitions"].items()}
            for v in doc["definitions"].values():
                v["properties"].pop("r", None)
        else:
            doc["definitions"] = {k_.split(".")[-1]: v for k_, v in doc["definitions"].items()}
            for v in doc["definitions"].values():
                v["properties"].pop("r", None)
        # the dangling reference sits in the root schema (a reference to a missing definition below `definitions` alone is
        # tolerated by the parser): a missing definition for a single module, a missing file for a package
        doc.update({"title": f"Root{i}", **obj({"dangling": {"$ref": (f"no-such-file-{i}.json#/definitions/Missing" if wants_dir else f"#/nowhere{i}/Missing")}})})
        cases.append((loc, "unresolvable_ref", rng.choice(LOCATION_FORMS), json.dumps(doc)))
    return cases


def campaign_locations(ck: Check, full: bool, n_seeded: int, stop_at_first: bool = False) -> None:
    camp = ck.campaign("output locations: (output file / package directory below directories that do not exist yet | inside an existing directory | parent is a file) x (absolute, relative, through ..) x failure kinds at every stage (unresolvable $ref, unparsable text, no models, modular result into a file, encoding, missing header file, formatter, injected faults) + success control: a failed run leaves NO new directory (tree listing with empty directories + cwd before/after)")
    t0 = time.time()
    rng = ck.rng.fork("locations")
    for loc, failure, form, text in location_product(rng, full, n_seeded):
        location_run(ck, camp, loc, failure, form, text)
        if stop_at_first and ck.failures:
            break
    camp.wall_s = time.time() - t0


def campaign_chdir(ck: Check, n: int) -> None:
    """the real context manager `chdir()` against its extracted table (driver `write.chdir`): on seeded targets — None, an existing
    directory, a file-like path in an existing directory, a path below 1–3 directories that do not exist — with a body that returns or
    raises: working directory while the body runs / afterwards, whether the body was reached, and whether entering it CREATED anything
    (tree listing with empty directories). A context manager that creates its target by a call the translator does not see as an
    effect disagrees here; the search then runs the output-location product."""
    import datamodel_code_generator as d

    camp = ck.campaign("chdir() real context manager vs extracted table (Lean driver write.chdir): target None / existing directory / file in existing directory / below missing directories x body returns / raises: cwd inside, cwd after, body reached, anything created")
    t0 = time.time()
    rng = ck.rng.fork("chdir")
    shapes = ["none", "existing_dir", "file_in_existing_dir", "existing_file", "missing_1", "missing_2", "missing_3", "dir_below_missing"]
    obs = []
    for i in range(n):
        shape = shapes[i % len(shapes)] if i < 2 * len(shapes) else rng.choice(shapes)
        body_raises = bool((i // len(shapes)) % 2) if i < 2 * len(shapes) else rng.chance(1, 2)
        relative = rng.chance(1, 3)
        root = Path(tempfile.mkdtemp(dir=e2e.scratch_root())).resolve()
        (root / "cwd").mkdir()
        (root / "have").mkdir()
        (root / "have" / "old.py").write_text("OLD = 1\n")
        comps = [rng.choice(["a", "gen", "x.y", "out dir"]) + str(k) for k in range(3)]
        target = {"none": None, "existing_dir": root / "have", "file_in_existing_dir": root / "have" / "models.py", "existing_file": root / "have" / "old.py",
                  "missing_1": root / comps[0] / "models.py", "missing_2": root / comps[0] / comps[1] / "models.py",
                  "missing_3": root / "have" / comps[0] / comps[1] / comps[2] / "models.py", "dir_below_missing": root / comps[0] / "pkg"}[shape]
        expect_dir = None if target is None else (target if target.is_dir() else target.parent)
        start = root / "cwd"
        arg = target
        if relative and target is not None:
            start, arg = root, target.relative_to(root)
        before = snapshot(root)
        here = os.getcwd()
        os.chdir(start)
        inside, err = None, None
        try:
            with d.chdir(arg):
                inside = os.getcwd()
                if body_raises:
                    raise Injected("body")
        except BaseException as e:  # noqa: BLE001
            err = e
        after_cwd = os.getcwd()
        os.chdir(here)
        diff = tree_diff(before, snapshot(root))
        shutil.rmtree(root, ignore_errors=True)
        camp.evaluations += 1
        entered = inside is not None
        fault = "enter" if not entered else ("body" if body_raises else "none")
        impl = {"inside": None if not entered else ("orig" if Path(inside) == start else ("target" if expect_dir is not None and Path(inside) == expect_dir.resolve() else "elsewhere")),
                "after": "orig" if Path(after_cwd) == start else "moved", "created": bool(diff)}
        camp.hit(f"target:{shape}")
        camp.hit("body:" + ("not-reached:" + type(err).__name__ if not entered else ("raises" if body_raises else "returns")))
        camp.hit("path:" + ("relative" if relative and target is not None else "absolute"))
        key = {"shape": shape, "body_raises": body_raises, "relative": relative and target is not None}
        camp.distinct.add(json.dumps(key, sort_keys=True))
        obs.append((key, fault, target is not None, impl, diff, shape.startswith("missing") or shape == "dir_below_missing"))
    reps = ck.driver.run([f"write.chdir {int(some)} {hx(fault)}" for _, fault, some, *_ in obs])
    # a `mkdir` step of the table shows in the listing only where the directory was missing (what else an effect step does is visible always)
    for (key, fault, some, impl, diff, dir_missing), rep in zip(obs, reps):
        vals = dict(t.split("=", 1) for t in rep.split(" ")[1:])
        model = {"inside": vals.get("inside") if fault != "enter" else None, "after": "orig" if vals.get("after") == "orig" else "moved", "created": vals.get("otherEffects") != "0" or (vals.get("mkdirs") != "0" and dir_missing)}
        if fault == "enter" and vals.get("entered") == "true":
            model["inside"] = "no-step-of-the-table-switches-directory"
        if model != impl:
            ck.notes["chdir_disagreement"] = True
            ck.disagree(camp, {**key, "fault": fault}, model, {**impl, "tree_diff": diff[:3]})
        if len(camp.samples) < 3 and key["shape"].startswith("missing"):
            camp.samples.append({**key, "fault": fault, "model": model, "real": impl})
    camp.wall_s = time.time() - t0


def d17_model_correspondence(ck: Check) -> None:
    """the former D17 witness: model run with an unencodable text vs the real encoding failure"""
    camp = ck.campaign("former D17 witness: model run with an unencodable text vs the real encoding failure (both: failed, nothing changed)")
    name, text, ftype, modular, opts, fclass = next(g for g in GENUINE if g[0] == "encode_error_ascii")
    probe = Check(ck.prop, ck.tier)
    probe.findings = []
    obs = one_run(probe, camp, doc="genuine:" + name, text=text, ftype=ftype, modular=False, state="existing_file", opts=opts, inject=None, base_cls={"kind": "genuine", "stage": fclass})
    if obs is None:
        return
    # modules: the output file itself, not encodable
    P = lambda p: "(" + " ".join(hx(x) for x in p) + ")"
    out = obs["out_rel"].split("/")
    rep = ck.driver.run([f"write.run {P(out)} ((() 0)) ({P(out)}) 1 {hx('none')} {hx('-')} 0"])[0]
    toks = rep.split(" ")
    model = {"failed": toks[0] == "failed", "changed": [t.rsplit("=", 1)[0] for t in toks[2:] if t.endswith("=changed")]}
    impl = {"failed": obs["failed"], "changed": [d.split(":")[0] for d in obs["diff"]]}
    if model != impl:
        ck.disagree(camp, {"witness": "encode_error_ascii"}, model, impl)


def search_after_broken_table(ck: Check) -> None:
    """a broken table obligation: run the fault enumeration and the genuine failures again with every
    output state, first hit wins (they are cheap and already targeted at the write protocol)"""
    # a refusal was removed / moved / re-guarded: the (result, output) the extracted table decides differently from the contract
    # points at the runs to make — every input kind that gives that kind of result, every output state of that kind
    # an effect before the last may-raise step (in generate(), in the context manager it enters, in a helper): what such an effect
    # leaves behind shows where the output location does not exist yet — the full product of locations x failure kinds x path forms
    if ck.notes.get("chdir_disagreement") or (ck.notes.get("context_refuter") or "none") != "none" or (ck.notes.get("table_refuter") or "none").startswith("effect-before-raise"):
        campaign_locations(ck, True, 60, stop_at_first=True)
        if ck.failures:
            return
    ref = ck.notes.get("refusal_contract_refuter") or "none"
    if ref != "none" and "/" in ref:
        kind, okind = ref.split("/")
        want = {"stdout": lambda s: s == "stdout", "suffix": lambda s: s.endswith("_suffix"), "nosuffix": lambda s: s != "stdout" and not s.endswith("_suffix")}[okind]
        campaign_refusals(ck, 40, only=lambda c, s: c["result"] == kind and want(s), stop_at_first=True)
    else:
        campaign_refusals(ck, 40, stop_at_first=True)
    if ck.failures:
        return
    probe_camp = ck.campaign("search: genuine failures and injected faults against existing output")
    for name, text, ftype, modular, opts, fclass in GENUINE:
        for state in ("existing_file", "directory_with_results", "missing"):
            if name == "modular_into_file" and state != "existing_file":
                continue
            o = {k: v for k, v in opts.items() if not k.startswith("_")}
            genuine_run(ck, probe_camp, name, text, ftype, modular, state, o, fclass, kind=opts.get("_kind"))
            if ck.failures:
                return
    # something in or after the write loop may raise now (or an effect moved before a raise): what the loop meets in the output
    # directory matters — results of earlier runs made with other encodings / other versions of the schema
    ck.notes["stop_at_first_failure"] = True
    campaign_histories(ck, 300)
    if not ck.failures:
        campaign_locations(ck, True, 60, stop_at_first=True)


def known_findings(ck: Check) -> None:
    for f in ck.findings:
        w = f["witness"]
        probe = Check(ck.prop, ck.tier)
        probe.findings = []
        camp = probe.campaign("witness")
        one_run(probe, camp, doc="witness", text=w["text"], ftype=w["input_file_type"], modular=w.get("modular", False), state=w["output_state"],
                opts=w.get("opts", {}), inject=None, base_cls={"kind": "genuine", "stage": "encode_error"})
        if any(x.classification.get("mechanism") == f["match"].get("mechanism") for x in probe.failures):
            ck.known(f["id"], f["what"])


def run(ck: Check) -> None:
    quick = ck.tier == "quick"
    ck.translate("GenerateSteps", generate_steps.generate())
    ck.prove()
    ck.assumptions += [
        "OsOk: mkdir/open/close and switching back to the saved directory do not fail (disk full, permissions, a deleted cwd are outside the model and the campaigns)",
        "the text the write loop prints is the text the pre-loop encode check encodes (decided syntactically on the extracted expressions, normalised by the translator); print() adds only a newline",
        "a variable assembled in generate() from string literals and f-strings only (the default header template) can be passed through str.format after open: the interpolated timestamp / version contain no braces",
        "calls on the BENIGN list of vlib/translate/generate_steps.py cannot raise on the values generate() gives them",
        "module file names are plain names (C12), so output.joinpath(*name) stays below output",
        "faults are injected in-process by patching the stage from the harness; a crash of the interpreter itself (SIGKILL) is outside the property",
    ]
    campaign_tables(ck)
    campaign_faults(ck, 2 if quick else 30, [1, 2] if quick else [1, 2, 3, 5])
    campaign_genuine(ck)
    campaign_refusals(ck, 6 if quick else 80)
    campaign_success(ck, 4 if quick else 40)
    campaign_headers(ck, 6 if quick else 120)
    campaign_histories(ck, 30 if quick else 400)
    campaign_locations(ck, not quick, 8 if quick else 200)
    campaign_chdir(ck, 48 if quick else 600)
    d17_model_correspondence(ck)
    ck.search_hooks.append(search_after_broken_table)
    known_findings(ck)


def replay(ck: Check, path: str) -> int:
    data = json.loads(open(path).read())
    inp = data.get("input") or {}
    camp = ck.campaign("replay")
    if "location" in inp:
        l = inp["location"]
        location_run(ck, camp, l["name"], l["failure"], l["form"], l.get("text"), {"kind": "replay"})
    elif "refusal" in inp:
        refusal_run(ck, camp, dict(inp["refusal"]), inp["output_state"], {"kind": "replay"}, relative=inp.get("relative_output", False))
    elif "doc" in inp:
        doc = inp["doc"]
        if inp.get("text") is not None:
            text, ftype, modular = inp["text"], inp["input_file_type"], inp.get("modular", False)
        else:
            text, ftype, modular = DOCS[doc]
        inject = None
        if inp.get("inject"):
            st = {s[0]: s for s in stages()}[inp["inject"]["stage"]]
            inject = (st[0], st[1], st[2], inp["inject"]["nth"], inp["inject"]["after"], inp["inject"]["exc"])
        if inp.get("special"):
            special_run(ck, camp, doc.split(":", 1)[-1], text, ftype, inp["output_state"], {}, "replay", inp["special"] == "deep_output", None if inp["special"] == "deep_output" else inp["special"])
        else:
            one_run(ck, camp, doc=doc, text=text, ftype=ftype, modular=modular, state=inp["output_state"], opts=inp.get("opts", {}), inject=inject, base_cls={"kind": "replay"},
                    out_form=inp.get("out_form", "absolute"), history=inp.get("history"))
    for f in ck.failures:
        print("REPLAY-FAILS:", json.dumps(f.classification), f.observed[:300])
    if not ck.failures:
        print("replay: the oracle does not fail on this input")
    return 1 if ck.failures else 0
