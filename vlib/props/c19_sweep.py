"""C19 — keyword sweep: every keyword a JSON-Schema / OpenAPI property can carry, on every output model type x target.

The general document generator (vlib/docgen.py) writes the keywords schemas usually have. A version-dependent construct that is
only reached through a RARELY USED keyword (readOnly, writeOnly, deprecated, nullable, const, a format value, …) is invisible to
it. This module builds, from the real `JsonSchemaObject` (so that a keyword added later is swept too) plus the keywords the
parser keeps as extras, one property per (keyword, carrier schema, required / optional), runs the real generate() on the whole
document for every (kind, target, input kind) and judges the result with the property's own oracle (c19.oracle_module + the
import of the emitted module when the target is the running interpreter).

* `campaign_sweep`  — always run (quick: one combined document per (kind, target, input kind, 2 option sets));
* `decorate`        — sprinkles the rare keywords over the documents of the general e2e family;
* `search_sweep`    — failing-input search after a broken table obligation: derives from the REGENERATED tables which import
                      constants / class-level import tuples name something newer than the oldest target (or unknown), runs the
                      (kind, target) pairs the model's refuter names first, per-keyword documents and more options, reports which
                      keyword reaches which suspect name, and shrinks the failing document to the one property that matters.
"""
from __future__ import annotations

import ast
import json
import time

from .. import e2e
from ..runner import Check
from ..translate import versions

# keywords the parser does not declare as fields of JsonSchemaObject (they land in `extras`) but documents carry
EXTRA_KEYWORDS = {
    "const": ["c", 1], "deprecated": [True], "contentEncoding": ["base64"], "contentMediaType": ["application/json"],
    "minProperties": [1], "maxProperties": [3], "propertyNames": [{"pattern": "^[a-z]+$"}], "$comment": ["note"],
    "x-nullable": [True], "x-deprecated": [True], "externalDocs": [{"url": "http://example.invalid"}], "xml": [{"name": "x"}],
    "contains": [{"type": "string"}], "dependentRequired": [{"a": ["b"]}], "not": [{"type": "null"}],
    "if": [{"type": "string"}], "unevaluatedProperties": [False], "prefixItems": [[{"type": "string"}]],
}
# keywords whose VALUE is an import path or an identifier the user chooses: what they import is the user's, outside the tables
USER_CHOSEN = {"customTypePath", "customBasePath", "$id", "#-datamodel-code-generator-#-extras-#-special-#", "$ref", "discriminator"}
RARE_BOOLEANS = ["readOnly", "writeOnly", "deprecated", "nullable"]
REF = {"jsonschema": "#/definitions/Ref", "openapi": "#/components/schemas/Ref"}


def schema_keywords() -> list[tuple[str, object]]:
    """(keyword as written in a document, annotation) of every field of the real JsonSchemaObject"""
    from datamodel_code_generator.parser.jsonschema import JsonSchemaObject

    mf = getattr(JsonSchemaObject, "model_fields", None)
    out = []
    if mf is not None:
        for n, f in mf.items():
            out.append((f.alias or n, f.annotation))
    else:  # pydantic v1
        for n, f in JsonSchemaObject.__fields__.items():
            out.append((f.alias or n, f.outer_type_))
    return out


def all_formats() -> list[tuple[str, str]]:
    from datamodel_code_generator.parser.jsonschema import json_schema_data_formats

    return sorted((t, f) for t, fs in json_schema_data_formats.items() for f in fs if f != "default")


def _by_annotation(ann) -> list:
    s = str(ann)
    vals: list = []
    if "bool" in s:
        vals.append(True)
    if "int" in s or "float" in s or "UnionIntFloat" in s:
        vals.append(2)
    if "list[str]" in s:
        vals.append(["a", "b"])
    elif "str" in s:
        vals.append("s")
    if "Any" in s:
        vals += ["v", 1]
    return vals[:2] or ["v"]


def carriers(input_kind: str = "jsonschema") -> list[tuple[str, dict]]:
    """(keyword label, property schema that carries the keyword) — the whole sweep, deterministic order"""
    ref = REF[input_kind]
    out: list[tuple[str, dict]] = []
    scalar_bases = [{"type": "string"}, {"type": "integer"}, {"type": "string", "format": "date-time"},
                    {"type": "array", "items": {"type": "string"}}, {"type": "object", "properties": {"a": {"type": "string"}}},
                    {"allOf": [{"$ref": ref}]}, {"type": ["string", "null"]}]
    structural = {
        "items": [{"type": "array", "items": {"type": "integer"}}, {"type": "array", "items": [{"type": "string"}, {"type": "integer"}]}],
        "uniqueItems": [{"type": "array", "items": {"type": "string"}, "uniqueItems": True}],
        "type": [{"type": t} for t in ("string", "integer", "number", "boolean", "null", "object", "array")] + [{"type": ["integer", "string"]}],
        "pattern": [{"type": "string", "pattern": "^[a-z]+$"}],
        "minLength": [{"type": "string", "minLength": 1}], "maxLength": [{"type": "string", "maxLength": 9}],
        "minimum": [{"type": "integer", "minimum": 0}, {"type": "number", "minimum": 0.5}],
        "maximum": [{"type": "integer", "maximum": 9}],
        "minItems": [{"type": "array", "items": {"type": "string"}, "minItems": 1}],
        "maxItems": [{"type": "array", "items": {"type": "string"}, "maxItems": 3}],
        "multipleOf": [{"type": "integer", "multipleOf": 2}, {"type": "number", "multipleOf": 0.5}],
        "exclusiveMaximum": [{"type": "integer", "exclusiveMaximum": 10}, {"type": "integer", "maximum": 10, "exclusiveMaximum": True}],
        "exclusiveMinimum": [{"type": "number", "exclusiveMinimum": 0}],
        "additionalProperties": [{"type": "object", "additionalProperties": {"type": "integer"}}, {"type": "object", "additionalProperties": False},
                                 {"type": "object", "properties": {"a": {"type": "string"}}, "additionalProperties": True}],
        "patternProperties": [{"type": "object", "patternProperties": {"^x": {"type": "string"}}}],
        "oneOf": [{"oneOf": [{"type": "string"}, {"type": "integer"}]}, {"oneOf": [{"$ref": ref}, {"type": "null"}]}],
        "anyOf": [{"anyOf": [{"type": "string"}, {"type": "null"}]}],
        "allOf": [{"allOf": [{"$ref": ref}, {"type": "object", "properties": {"b": {"type": "integer"}}}]}],
        "enum": [{"enum": ["a", "b"]}, {"type": "integer", "enum": [1, 2]}, {"enum": ["only"]}, {"enum": ["a", None]}],
        "properties": [{"type": "object", "properties": {"a": {"type": "string"}, "b": {"type": "integer"}}, "required": ["a"]}],
        "required": [{"type": "object", "properties": {"a": {"type": "string"}}, "required": ["a"]}],
        "x-enum-varnames": [{"type": "integer", "enum": [1, 2], "x-enum-varnames": ["one", "two"]}],
        "default": [{"type": "string", "default": "d"}, {"type": "integer", "default": 1}, {"type": "array", "items": {"type": "string"}, "default": ["a"]},
                    {"type": "object", "default": {"k": 1}}, {"type": "string", "default": None}, {"type": "boolean", "default": False}],
        "const": [{"const": "c"}, {"const": 1}, {"type": "string", "const": "k v"}],
        "$ref+siblings": [{"$ref": ref, "description": "d"}, {"$ref": ref, "nullable": True}],
    }
    for kw, schemas in structural.items():
        out += [(kw, s) for s in schemas]
    for t, f in all_formats():
        out.append((f"format:{f}", {"type": t, "format": f}))
    handled = set(structural) | {"format"}
    declared = [(kw, _by_annotation(ann)) for kw, ann in schema_keywords() if kw not in USER_CHOSEN and kw not in handled]
    extra = [(kw, vals) for kw, vals in EXTRA_KEYWORDS.items() if kw not in handled and kw not in {d[0] for d in declared}]
    for kw, vals in declared + extra:
        for v in vals:
            for i, base in enumerate(scalar_bases):
                if isinstance(v, bool) or i < 2:   # boolean flags on every carrier, the rest on two scalars
                    out.append((kw, {**base, kw: v}))
    return out


def build_doc(input_kind: str, props: list[tuple[str, dict, bool]]) -> tuple[dict, dict[str, str]]:
    """the complete document for these (keyword, schema, required) and the map property name -> keyword"""
    names: dict[str, str] = {}
    properties: dict[str, dict] = {}
    required: list[str] = []
    for i, (kw, schema, req) in enumerate(props):
        n = f"p{i}{'r' if req else 'o'}"
        names[n] = kw
        properties[n] = schema
        if req:
            required.append(n)
    obj = {"type": "object", "properties": properties}
    if required:
        obj["required"] = required
    refd = {"type": "object", "properties": {"a": {"type": "string"}}}
    if input_kind == "openapi":
        return {"openapi": "3.0.0", "info": {"title": "t", "version": "1"}, "paths": {},
                "components": {"schemas": {"Sweep": obj, "Ref": refd}}}, names
    return {"title": "Sweep", **obj, "definitions": {"Ref": refd}}, names


def doc_properties(doc: dict) -> dict:
    if "components" in doc:
        return doc["components"]["schemas"]["Sweep"]["properties"]
    return doc["properties"]


def imported_names(files: dict[str, str]) -> set[tuple[str, str]]:
    out = set()
    for code in files.values():
        try:
            tree = ast.parse(code)
        except SyntaxError:
            continue
        for n in ast.walk(tree):
            if isinstance(n, ast.ImportFrom) and n.module and n.level == 0:
                out.update((n.module, a.name) for a in n.names)
    return out


def _keep_only(inp: dict, keep: list[str]) -> dict:
    t = json.loads(json.dumps(inp))
    tp = doc_properties(t["doc"])
    for other in list(tp):
        if other not in keep:
            del tp[other]
    holder = t["doc"]["components"]["schemas"]["Sweep"] if "components" in t["doc"] else t["doc"]
    if "required" in holder:
        holder["required"] = [r for r in holder["required"] if r in keep]
        if not holder["required"]:
            del holder["required"]
    return t


def single_property(inp: dict, want: dict) -> dict:
    """the failing document cut down by bisection to the fewest properties on which the same oracle still fails (one, unless
    the failure needs an interaction), then without options if they do not matter"""
    from . import c19_kw

    names = list(doc_properties(inp["doc"]))
    cur = inp
    while len(names) > 1:
        h = len(names) // 2
        for part in (names[:h], names[h:]):
            t = _keep_only(cur, part)
            if c19_kw.still_fails(t, want):
                cur, names = t, part
                break
        else:
            break
    if cur["opts"] and c19_kw.still_fails({**cur, "opts": {}}, want):
        cur = {**cur, "opts": {}}
    return cur


def sweep_case(ck: Check, camp, kind: str, minor: int, input_kind: str, opts: dict, props: list[tuple[str, dict, bool]],
               suspects: set[tuple[str, str]] | None = None, depth: int = 0) -> bool:
    """one generate() over the combined document; when the generator refuses it, the halves (a refused keyword must not hide the
    others). True when a NEW oracle failure was recorded (then ck.failures[-1].input is the single-property document)."""
    from . import c19, c19_kw

    doc, names = build_doc(input_kind, props)
    res = e2e.run_generate(doc, input_file_type=input_kind, model=kind, opts=c19_kw.prepared_opts(opts), target=f"3.{minor}")
    if not res.ok:
        if len(props) > 1 and depth < 7 and not res.hang:
            camp.hit("combined-document-refused:split")
            h = len(props) // 2
            return sweep_case(ck, camp, kind, minor, input_kind, opts, props[:h], suspects, depth + 1) or \
                sweep_case(ck, camp, kind, minor, input_kind, opts, props[h:], suspects, depth + 1)
        camp.hit("refused:" + (props[0][0] if len(props) == 1 else "group") + ":" + res.error_type)
        return False
    if suspects:
        for m, n in sorted(imported_names(res.files) & suspects):
            camp.hit(f"output imports suspect {m}.{n}: {kind}@3.{minor}")
    before = len(ck.failures)
    c19.case(ck, camp, kind, minor, doc, input_kind, opts, precomputed=res, shrink=False)
    for k_ in set(names.values()):
        camp.hit("keyword:" + k_.split(":")[0])
    if len(ck.failures) > before:
        f0 = ck.failures[before]
        small = single_property(f0.input, f0.classification)
        f0.input = small
        left = list(doc_properties(small["doc"]))
        if len(left) == 1:
            camp.hit(f"failing keyword: {names.get(left[0], '?')}")
        return True
    return False


def stratified(rng, input_kind: str, n: int | None) -> list[tuple[str, dict, bool]]:
    """every carrier once required and once optional (n=None), or a seeded sample of n that always contains the rare boolean
    keywords in both positions"""
    cs = carriers(input_kind)
    full = [(kw, s, req) for kw, s in cs for req in (True, False)]
    if n is None or n >= len(full):
        return full
    must = [p for p in full if p[0] in RARE_BOOLEANS]
    rest = [p for p in full if p[0] not in RARE_BOOLEANS]
    return must + rng.shuffle(rest)[: max(0, n - len(must))]


def campaign_sweep(ck: Check, quick: bool) -> None:
    from . import c19, c19_kw

    camp = ck.campaign("e2e keyword sweep: every JsonSchemaObject keyword / extras keyword / format value on a required and an optional "
                       "property x (model kind, target) x JSON Schema + OpenAPI -> the property's oracle (+ import on the running interpreter)")
    t0 = time.time()
    rng = ck.rng.fork("sweep")
    minors = c19_kw.runnable_minors()
    for kind in e2e.MODEL_KINDS:
        for minor in minors:
            for input_kind in ("jsonschema", "openapi"):
                option_sets = [{}, dict(rng.choice(c19.OPTION_POOL))] if quick else [dict(o) for o in c19.OPTION_POOL[2:]]
                for opts in option_sets:
                    sweep_case(ck, camp, kind, minor, input_kind, opts, stratified(rng, input_kind, None))
    camp.wall_s = time.time() - t0


def decorate(rng, doc: dict) -> dict:
    """the general family's document with rarely used boolean keywords set on some of its properties (in place, seeded)"""
    def walk(node):
        if isinstance(node, dict):
            props = node.get("properties")
            if isinstance(props, dict):
                for name, sub in props.items():
                    if isinstance(sub, dict) and "$ref" not in sub and rng.chance(1, 3):
                        sub[rng.choice(RARE_BOOLEANS)] = True
            for v in node.values():
                walk(v)
        elif isinstance(node, list):
            for v in node:
                walk(v)
    walk(doc)
    return doc


# ---------------------------------------------------------------- search after a broken table obligation
def table_suspects(ck: Check) -> tuple[list[tuple[str, str]], list[tuple[str, int]], list[str]]:
    """from the REGENERATED tables: (standard-library names that are unknown to the authored table or newer than the oldest
    target — names the model's reviewed list does not contain first —, (kind, target) pairs whose selected classes carry such a
    name the target lacks, notes)"""
    from . import c19

    min_minor = min(m for _, m in versions.versions())
    notes: list[str] = []
    pool: list[tuple[tuple[str, str], str]] = []
    for mod, const, a, b in versions.import_constants():
        pool.append(((a, b), f"constant {mod}.{const}"))
    for f, a, b in versions.literal_imports():
        pool.append(((a, b), f"literal Import in {f}"))
    hints: list[tuple[str, int]] = []
    for (mt, minor), attrs in versions.class_import_attrs():
        for role, qual, attr, imps in attrs:
            for imp in imps:
                pool.append((imp, f"{qual}.{attr}"))
                s = c19.PY_SINCE.get(imp)
                if imp[0] and c19.is_stdlib(imp[0]) and (s is None or s > minor) and (mt, minor) not in hints:
                    hints.append((mt, minor))
                    notes.append(f"{qual}.{attr} of {mt}@3.{minor} holds {imp[0]}.{imp[1]}" + (f" (3.{s})" if s else " (not in the authored table)"))
    suspects: list[tuple[str, str]] = []
    for imp, where in pool:
        s = c19.PY_SINCE.get(imp)
        if imp[0] and c19.is_stdlib(imp[0]) and (s is None or s > min_minor) and imp not in suspects:
            suspects.append(imp)
    reviewed = set()
    try:
        reps = ck.driver.run([f"version.reviewed {c19.key(m)} {c19.key(n)}" for m, n in suspects])
        reviewed = {imp for imp, r in zip(suspects, reps) if r == "1"}
    except Exception:  # noqa: BLE001
        pass
    suspects = [s for s in suspects if s not in reviewed] + [s for s in suspects if s in reviewed]
    notes.insert(0, "new (not in the model's reviewed version-dependent list): " + (", ".join(f"{m}.{n}" for m, n in suspects if (m, n) not in reviewed) or "none"))
    return suspects, hints, notes


def search_sweep(ck: Check) -> None:
    from . import c19, c19_kw

    camp = ck.campaign("search: keyword sweep for the import constants / class-level import tuples of the regenerated tables that the "
                       "version tables do not allow for some target; (kind, target) named by the tables first")
    t0 = time.time()
    rng = ck.rng.fork("search-sweep")
    suspects, hints, notes = table_suspects(ck)
    for n in notes[:8]:
        camp.hit(n)
    sus = set(suspects)
    minors = c19_kw.runnable_minors()
    pairs = [p for p in hints if p[1] in minors]
    try:
        rep = ck.driver.run(["version.refuteattr"])[0]
        if rep.startswith("ok "):
            _, mt, v = rep.split(" ")[:3]
            p = (c19.unkey(int(mt)), int(v))
            if p[1] in minors and p not in pairs:
                pairs.insert(0, p)
    except Exception:  # noqa: BLE001
        pass
    pairs += [(kd, m) for kd in e2e.MODEL_KINDS for m in minors if (kd, m) not in pairs]
    # 1. the combined document, no options
    for kind, minor in pairs:
        for input_kind in ("jsonschema", "openapi"):
            if sweep_case(ck, camp, kind, minor, input_kind, {}, stratified(rng, input_kind, None), sus):
                camp.wall_s = time.time() - t0
                return
    # 2. every option set of the pool
    for kind, minor in pairs:
        for opts in c19.OPTION_POOL[3:]:
            if sweep_case(ck, camp, kind, minor, "jsonschema", dict(opts), stratified(rng, "jsonschema", None), sus):
                camp.wall_s = time.time() - t0
                return
    # 3. one keyword per document (a keyword that changes how its siblings are rendered), two at a time with the rare booleans
    for kind, minor in pairs:
        full = stratified(rng, "jsonschema", None)
        for p in full:
            extra = [(kw, {**p[1], kw: True}, p[2]) for kw in RARE_BOOLEANS if kw not in p[1]]
            if sweep_case(ck, camp, kind, minor, "jsonschema", {}, [p, *extra], sus):
                camp.wall_s = time.time() - t0
                return
    camp.wall_s = time.time() - t0
