"""C08 — output is a function of input and options only (differential runs of the real generator)."""
from __future__ import annotations

import json
import shutil
import tempfile
import time
from pathlib import Path

import os

from .. import detgen, detproj, detsets, docgen, e2e
from ..common import PY, REPO
from ..keyenc import unkey
from ..runner import Check
from ..subproc import child_env, pmap, run_py
from ..translate import generate_steps, module_state, set_sites

CHILD = r'''
import json, os, random, sys, importlib, functools
from pathlib import Path
job = json.load(open(sys.argv[1]))

# ---- every value a process-wide cache of the package hands out is remembered with a snapshot of what it looked like
_memo = []
def _instrument(orig):
    def patched(*a, **kw):
        def wrap(fn):
            if not str(getattr(fn, "__module__", "")).startswith("datamodel_code_generator"):
                return fn
            @functools.wraps(fn)
            def inner(*args, **kwargs):
                v = fn(*args, **kwargs)
                if v is not None and not isinstance(v, (str, int, float, bool, bytes, frozenset)):
                    try:
                        _memo.append((fn.__module__ + ":" + fn.__qualname__, v, repr(v)))
                    except Exception:
                        pass
                return v
            return inner
        if len(a) == 1 and callable(a[0]) and not kw:
            return orig(wrap(a[0]))
        deco = orig(*a, **kw)
        return lambda fn: deco(wrap(fn))
    return patched
if job.get("class_state"):
    functools.lru_cache = _instrument(functools.lru_cache)
    functools.cache = _instrument(functools.cache)

if job.get("listing"):
    import pathlib
    mode = job["listing"]
    def arrange(items, key):
        items = sorted(items, key=key)
        if mode == "reverse":
            items.reverse()
        elif mode != "sorted":
            random.Random(mode).shuffle(items)
        return items
    def permuted(orig):
        def f(self, *a, **kw):
            return iter(arrange(orig(self, *a, **kw), str))
        return f
    for name in ("rglob", "glob", "iterdir"):
        setattr(pathlib.Path, name, permuted(getattr(pathlib.Path, name)))
    # the listing primitives themselves (os.walk, os.fwalk, glob, shutil and pathlib all go through these two)
    _scandir, _listdir = os.scandir, os.listdir
    class _Scan:
        def __init__(self, *a):
            with _scandir(*a) as it:
                self._items = iter(arrange(list(it), lambda e: e.name))
        def __iter__(self):
            return self
        def __next__(self):
            return next(self._items)
        def __enter__(self):
            return self
        def __exit__(self, *exc):
            return False
        def close(self):
            pass
    def scandir(*a):
        return _Scan(*a)
    def listdir(*a):
        return arrange(_listdir(*a), lambda x: x)
    os.scandir, os.listdir = scandir, listdir
os.makedirs(job["cwd"], exist_ok=True)
os.chdir(job["cwd"])
import datamodel_code_generator as d
from datamodel_code_generator.format import Formatter

_seen_cwd = []
if job.get("observe_cwd"):
    # where the formatting stage runs: the working directory when a CodeFormatter is set up and when a formatter child starts
    import subprocess
    import datamodel_code_generator.format as _fmt
    _cf_init, _sp_run = _fmt.CodeFormatter.__init__, subprocess.run
    def _init(self, *a, **kw):
        _seen_cwd.append(["CodeFormatter.__init__", os.getcwd()])
        return _cf_init(self, *a, **kw)
    def _run(*a, **kw):
        _seen_cwd.append(["subprocess.run", kw.get("cwd") or os.getcwd()])
        return _sp_run(*a, **kw)
    _fmt.CodeFormatter.__init__ = _init
    _fmt.subprocess.run = _run

def state():
    out = {}
    for mod, cls, attr in job.get("class_state", []):
        try:
            obj = importlib.import_module(mod)
            for part in cls.split("."):
                obj = getattr(obj, part)
            v = obj.__dict__.get(attr, None)
            if v is None and hasattr(obj, "model_fields") and attr in obj.model_fields:
                v = obj.model_fields[attr].default
            out[f"{mod}:{cls}.{attr}"] = repr(sorted(v, key=repr)) if isinstance(v, (set, frozenset)) else repr(v)
        except Exception as e:
            out[f"{mod}:{cls}.{attr}"] = "unreadable: " + type(e).__name__
    return out

def shared_instances():
    """every module-level object of a shared class (the `Import` singletons: IMPORT_* constants = values of the
    Import.from_full_path cache), by module attribute"""
    from datamodel_code_generator.imports import Import
    out = {}
    for modname, mod in sorted(sys.modules.items()):
        if not modname.startswith("datamodel_code_generator") or mod is None:
            continue
        for name, v in sorted(vars(mod).items()):
            if isinstance(v, Import):
                out[f"{modname}:{name}"] = repr(v)
    return out

before = state()
shared_before = shared_instances() if job.get("class_state") else {}
results = {}
for case in job["cases"]:
    out = Path(job["outroot"]) / case["id"]
    out.mkdir(parents=True, exist_ok=True)
    target = out / ("pkg" if case["modular"] else "out.py")
    # "<PROC>" in a path = a directory of THIS process (histories that rewrite an input file between two calls)
    for _p, _text in (case.get("prewrite") or {}).items():
        _q = Path(_p.replace("<PROC>", job["outroot"]))
        _q.parent.mkdir(parents=True, exist_ok=True)
        _q.write_text(_text)
    src = Path(case["path"].replace("<PROC>", job["outroot"])) if case.get("path") else case["text"]
    kw = dict(case["opts"])
    if case.get("formatters") is not None:
        kw["formatters"] = [Formatter(x) for x in case["formatters"]]
    elif not case.get("default_formatters"):
        kw["formatters"] = []
    del _seen_cwd[:]
    expected_dir = os.path.realpath(str(target if target.is_dir() else target.parent))
    if "enum_field_as_literal" in kw:
        kw["enum_field_as_literal"] = d.LiteralType(kw["enum_field_as_literal"])
    if "custom_template_dir" in kw:
        kw["custom_template_dir"] = Path(kw["custom_template_dir"].replace("<PROC>", job["outroot"]))
    for so in ("field_extra_keys", "field_extra_keys_without_x_prefix", "strict_types"):
        if so in kw:
            kw[so] = set(kw[so])
    try:
        d.generate(src, input_file_type=d.InputFileType(case["input_file_type"]), output=target,
                   output_model_type=d.DataModelType(case["model"]), disable_timestamp=True, **kw)
        files = {}
        if target.is_file():
            files["out.py"] = target.read_text()
        elif target.is_dir():
            for p in sorted(target.rglob("*"), key=str):
                if p.is_file():
                    files[str(p.relative_to(target))] = p.read_text()
        results[case["id"]] = {"files": files}
        if job.get("observe_cwd"):
            results[case["id"]]["format_cwd"] = sorted({(w, "output-dir" if os.path.realpath(c) == expected_dir else ("callers-cwd" if os.path.realpath(c) == os.path.realpath(job["cwd"]) else "elsewhere")) for w, c in _seen_cwd})
    except BaseException as e:
        if isinstance(e, (KeyboardInterrupt, SystemExit)):
            raise
        results[case["id"]] = {"error": type(e).__name__}
    if os.getcwd() != os.path.realpath(job["cwd"]):
        results[case["id"]]["cwd_changed"] = os.getcwd()
        os.chdir(job["cwd"])
after = state()
shared_after = shared_instances() if job.get("class_state") else {}
changed = {k: [before[k], after[k]] for k in before if before[k] != after[k]}
changed.update({k: [shared_before[k], shared_after.get(k, "<gone>")] for k in shared_before if shared_before[k] != shared_after.get(k)})
memo_kinds = {}
for name, obj, snap in _memo:
    memo_kinds[name] = memo_kinds.get(name, 0) + 1
    try:
        now = repr(obj)
    except Exception as e:
        now = "unreadable: " + type(e).__name__
    if now != snap:
        changed.setdefault("memoised value of " + name, [snap, now])
json.dump({"results": results, "state_changed": changed, "shared_instances": len(shared_before), "memo_values": memo_kinds}, open(sys.argv[2], "w"))
'''

MAIN_CHILD = r'''
import json, os, sys
from pathlib import Path
job = json.load(open(sys.argv[1]))
os.chdir(job["cwd"])
from datamodel_code_generator.__main__ import main
outs = []
for i, argv in enumerate(job["calls"]):
    out = Path(job["cwd"]) / f"out{i}.py"
    try:
        rc = int(main([*argv, "--output", str(out)]))
    except SystemExit as e:
        rc = e.code
    outs.append({"rc": rc, "output": out.read_text() if out.is_file() else None})
json.dump(outs, open(sys.argv[2], "w"))
'''

OPTION_POOL = [
    {}, {}, {},
    {"snake_case_field": True},
    {"reuse_model": True},
    {"use_annotated": True, "field_constraints": True},
    {"collapse_root_models": True},
    {"keep_model_order": True},
    {"use_standard_collections": True, "use_union_operator": True},
    {"enum_field_as_literal": "all"},
    {"use_title_as_name": True},
    {"use_schema_description": True, "use_field_description": True},
    {"field_constraints": True, "use_unique_items_as_set": True},
    {"use_exact_imports": True},
    {"strict_nullable": True},
    {"use_subclass_enum": True, "set_default_enum_member": True},
    {"parent_scoped_naming": True},
]


class Lab:
    def __init__(self) -> None:
        self.root = Path(tempfile.mkdtemp(prefix="c08-", dir=e2e.scratch_root())).resolve()
        self.n = 0
        (self.root / "inputs").mkdir()

    def write_dir(self, cid: str, files: dict[str, str]) -> str:
        d = self.root / "inputs" / cid / "schemas"
        for rel, text in files.items():
            p = d / rel
            p.parent.mkdir(parents=True, exist_ok=True)
            p.write_text(text)
        return str(d)

    def run(self, name: str, cases: list[dict], *, seed, cwd: str, listing: str | None = None, class_state: list | None = None,
            observe_cwd: bool = False) -> dict:
        self.n += 1
        tag = f"{name}-{self.n}"
        job = {
            "cases": cases, "cwd": cwd, "outroot": str(self.root / "out" / tag), "listing": listing, "class_state": class_state or [],
            "observe_cwd": observe_cwd,
        }
        jp, rp = self.root / f"job-{tag}.json", self.root / f"res-{tag}.json"
        jp.write_text(json.dumps(job))
        # the formatter executables (ruff) live beside the interpreter; -P: like the installed console script, the child does not
        # put its working directory on sys.path (a project directory may hold anything)
        env = child_env({"PATH": os.path.dirname(PY) + os.pathsep + os.environ.get("PATH", "")}, hashseed=seed)
        p = run_py(["-P", "-c", CHILD, str(jp), str(rp)], cwd=str(self.root), env=env, timeout=300)
        if p.rc != 0 or not rp.is_file():
            return {"crash": f"rc={p.rc} {p.err[-500:]}"}
        return json.loads(rp.read_text())

    def make_project(self, name: str, files: dict, sub: str = "") -> str:
        """a working directory that is (a sub-directory of) a project holding `files`; never an ancestor of an output directory"""
        d = self.root / "w" / name
        d.mkdir(parents=True, exist_ok=True)
        for rel, text in files.items():
            p = d / rel
            if text is None:
                p.mkdir(parents=True, exist_ok=True)
            else:
                p.parent.mkdir(parents=True, exist_ok=True)
                p.write_text(text)
        cwd = d / sub if sub else d
        cwd.mkdir(parents=True, exist_ok=True)
        return str(cwd)

    def run_main(self, calls: list[list[str]], doc: dict) -> list[dict] | dict:
        self.n += 1
        d = self.root / f"main-{self.n}"
        d.mkdir()
        (d / ".git").mkdir()
        (d / "s.json").write_text(json.dumps(doc))
        jp, rp = d / "job.json", d / "res.json"
        jp.write_text(json.dumps({"cwd": str(d), "calls": calls}))
        p = run_py(["-c", MAIN_CHILD, str(jp), str(rp)], cwd=str(d), env=child_env(), timeout=120)
        if p.rc != 0 or not rp.is_file():
            return {"crash": f"rc={p.rc} {p.err[-400:]}"}
        return json.loads(rp.read_text())

    def close(self) -> None:
        shutil.rmtree(self.root, ignore_errors=True)


def make_cases(ck: Check, lab: Lab, n: int) -> list[dict]:
    rng = ck.rng.fork("cases")
    cases = []
    for i in range(n):
        r = i % 12
        cid = f"c{i}"
        model = rng.choice(e2e.MODEL_KINDS)
        opts = dict(rng.choice(OPTION_POOL))
        base = {"id": cid, "model": model, "opts": opts, "modular": False, "default_formatters": rng.chance(1, 6), "noise": False}
        if r in (0, 1, 2):
            cases.append({**base, "kind": "jsonschema", "input_file_type": "jsonschema", "text": json.dumps(docgen.json_schema(rng))})
        elif r in (3, 4):
            files = docgen.schema_dir(rng)
            names = [f.split("/")[-1] for f in files]
            cases.append({**base, "kind": "dir", "input_file_type": "jsonschema", "path": lab.write_dir(cid, files), "modular": True,
                          "same_basename": len(set(names)) < len(names), "files": sorted(files)})
        elif r == 6:   # property names equal to imported type names: triggers the import-alias pass on shared Import objects
            cases.append({**base, "kind": "shadow", "input_file_type": "jsonschema", "text": json.dumps(docgen.json_schema_shadow(rng))})
        elif r == 7:   # the same types under ordinary names: shows whatever an earlier run left behind in shared objects
            cases.append({**base, "kind": "plain-types", "opts": {}, "input_file_type": "jsonschema", "text": json.dumps(docgen.json_schema_plain_types(rng))})
        elif r in (8, 11):   # several extension keywords per property + the options that keep them (sets of key names on the way)
            # (the option family includes "none of them" and "a strict part of the keys": keywords that must be DROPPED)
            ift = "openapi" if r == 11 and rng.chance(1, 2) else "jsonschema"
            doc, xopts = detgen.openapi_extras(rng) if ift == "openapi" else detgen.json_schema_extras(rng)
            cases.append({**base, "kind": "extras", "opts": xopts, "input_file_type": ift, "text": json.dumps(doc)})
        elif r == 9:   # discriminators: the parser writes the converted property name back into the loaded document
            ift, doc = detgen.discriminator_doc(rng)
            cases.append({**base, "kind": "discriminator", "input_file_type": ift, "text": json.dumps(doc)})
        elif r == 10:  # >= 2 sub-directories, distinct basenames, class names colliding across files
            files = detgen.schema_tree(rng)
            ift, mixed = "jsonschema", False
            if rng.chance(1, 3):   # input type inferred from the directory's content
                ift = "auto"
                if rng.chance(1, 2):   # … whose files are not all of one type
                    files[f"{rng.choice(['api', 'a', 'zz'])}/service_api.json"] = json.dumps(detgen.discriminator_doc_openapi(rng))
                    mixed = True
            cases.append({**base, "kind": "tree", "input_file_type": ift, "path": lab.write_dir(cid, files), "modular": True,
                          "same_basename": False, "files": sorted(files), "mixed_types": mixed})
        else:
            opts = {k: v for k, v in opts.items() if k in ("snake_case_field", "use_standard_collections", "use_union_operator", "use_schema_description", "use_field_description")}
            cases.append({**base, "opts": opts, "kind": "graphql", "input_file_type": "graphql", "text": docgen.graphql_sdl(rng)})
    return cases


def noise_cases(rng, k: int, tag: str) -> list[dict]:
    """earlier generate() calls with OTHER inputs and options: only there to leave their marks in the process"""
    out = []
    for i in range(k):
        shadow = i % 2 == 0   # half of the foreign calls alias imports (property names = imported type names), all 24 names in the first
        doc = docgen.json_schema_shadow(rng, len(docgen.SHADOW) if i == 0 else None) if shadow else docgen.json_schema(rng)
        out.append({"id": f"noise-{tag}-{i}", "model": e2e.MODEL_KINDS[i % 2] if shadow else rng.choice(e2e.MODEL_KINDS),
                    "opts": {} if shadow else dict(rng.choice(OPTION_POOL)), "modular": False,
                    "default_formatters": False, "noise": True, "kind": "jsonschema", "input_file_type": "jsonschema",
                    "text": json.dumps(doc)})
    return out


RENAMING_POOL = [
    {"snake_case_field": True},
    {"snake_case_field": True, "use_annotated": True, "field_constraints": True},
    {"capitalise_enum_members": True, "snake_case_field": True},
    {"remove_special_field_name_prefix": True},
    {"special_field_name_prefix": "f"},
    {"original_field_name_delimiter": "-", "snake_case_field": True},
    {"use_title_as_name": True},
    {"allow_population_by_field_name": True, "snake_case_field": True},
]


def twin_of(rng, case: dict, tag: str) -> dict:
    """an earlier call on the SAME text (or directory) with OTHER options: what such a call leaves behind must not
    show in the observed call (caches keyed by the text only, documents rewritten in place, …)"""
    pool = RENAMING_POOL if case["kind"] == "discriminator" or rng.chance(2, 3) else OPTION_POOL
    for _ in range(5):
        opts = dict(rng.choice(pool))
        if opts != case["opts"]:
            break
    keep = {k: v for k, v in case["opts"].items() if k.startswith("field_extra_keys") or k == "field_include_all_keys"}
    if case["kind"] == "extras" and rng.chance(2, 3):   # … and ANOTHER member of the family that keeps extension keywords
        keep = detgen.extras_option_family(rng, detgen.extension_keys_of(json.loads(case["text"])), keeping_only=True)
        opts = {k: v for k, v in opts.items() if not (k.startswith("field_extra_keys") or k == "field_include_all_keys")}
    if case["kind"] == "graphql":
        opts = {k: v for k, v in opts.items() if k in ("snake_case_field", "use_title_as_name")}
    model = case["model"] if rng.chance(1, 2) else rng.choice(e2e.MODEL_KINDS)
    return {**strip(case), "id": f"twin-{tag}-{case['id']}", "opts": {**keep, **opts}, "model": model, "noise": True, "default_formatters": False}


def class_state_list() -> list[tuple[str, str, str]]:
    _, _, muts = set_sites.analyse()
    out = []
    for m in muts:
        mod = "datamodel_code_generator." + m.file.removesuffix(".py").replace("/", ".")
        mod = mod.removesuffix(".__init__")
        if mod.endswith("__main__"):
            continue
        out.append((mod, m.cls, m.attr))
    return out


def outcome(r: dict | None) -> str:
    if r is None:
        return "missing"
    if "error" in r:
        return "error:" + r["error"]
    return "files:" + json.dumps(r["files"], sort_keys=True)


def first_diff(a: dict, b: dict) -> str:
    fa, fb = a.get("files"), b.get("files")
    if fa is None or fb is None:
        return f"{outcome(a)[:80]} vs {outcome(b)[:80]}"
    if sorted(fa) != sorted(fb):
        return f"file sets differ: {sorted(fa)} vs {sorted(fb)}"
    for k in sorted(fa):
        if fa[k] != fb[k]:
            for x, y in zip(fa[k].splitlines(), fb[k].splitlines()):
                if x != y:
                    return f"{k}: {x!r} vs {y!r}"
            return f"{k}: lengths differ"
    return "?"


def strip(case: dict) -> dict:
    return {k: v for k, v in case.items() if k not in ("noise",)}


def diagnose(lab: Lab, case: dict, cfgs: dict, hints: list[dict] | None = None) -> str:
    """which single factor changes the output of this case (fresh process each, one factor varied; `hints` are the
    configurations of the processes that disagreed: their hash seed, listing order and cwd are tried, too)"""
    base_cwd = str(lab.root / "w" / "diag")
    runs = {
        "base": dict(seed=0, cwd=base_cwd, listing="sorted"),
        "hashseed": dict(seed=1, cwd=base_cwd, listing="sorted"),
        "hashseed2": dict(seed=2, cwd=base_cwd, listing="sorted"),
        "cwd": dict(seed=0, cwd=str(lab.root / "w" / "diag" / "x" / "y"), listing="sorted"),
        "listing": dict(seed=0, cwd=base_cwd, listing="reverse"),
        "listing2": dict(seed=0, cwd=base_cwd, listing="shuffle-2"),
        "listing3": dict(seed=0, cwd=base_cwd, listing="shuffle-3"),
    }
    for j, h in enumerate(hints or []):
        runs[f"hashseed-h{j}"] = dict(seed=h["seed"], cwd=base_cwd, listing="sorted")
        runs[f"listing-h{j}"] = dict(seed=0, cwd=base_cwd, listing=h["listing"])
        runs[f"cwd-h{j}"] = dict(seed=0, cwd=h["cwd"], listing="sorted")
    res = dict(zip(runs, pmap(lambda kw: lab.run("diag", [strip(case)], **kw), list(runs.values()))))
    base = outcome(res["base"].get("results", {}).get(case["id"]))
    for f in sorted(runs, key=lambda f: (["hashseed", "listing", "cwd"].index(f.rstrip("23").split("-")[0]) if f != "base" else -1, f)):
        if f != "base" and outcome(res[f].get("results", {}).get(case["id"])) != base:
            return f.rstrip("23").split("-")[0]
    return "history"


def same_source(a: dict, b: dict) -> bool:
    return (a.get("text") is not None and a.get("text") == b.get("text")) or (a.get("path") is not None and a.get("path") == b.get("path"))


def minimise_history(lab: Lab, case: dict, prefixes: list[list[dict]]) -> list[dict] | None:
    """the shortest of a few candidate call histories after which `case` gives another output than in a fresh process:
    only the earlier calls on the same text, only the last call, the last three, the whole prefix"""
    cands: list[list[dict]] = []
    for pre in prefixes:
        pre = [strip(x) for x in pre]
        for cand in ([x for x in pre if same_source(x, case)][-2:], pre[-1:], pre[-3:], pre):
            if cand and cand not in cands:
                cands.append(cand)
    cands.sort(key=len)
    cwd = str(lab.root / "w" / "hist")
    runs = pmap(lambda h: lab.run("hist", [*h, strip(case)], seed=0, cwd=cwd, listing="sorted"), [[], *cands])
    fresh = outcome(runs[0].get("results", {}).get(case["id"]))
    for cand, r in zip(cands, runs[1:]):
        if outcome(r.get("results", {}).get(case["id"])) != fresh:
            return cand
    return None


def campaign_differential(ck: Check, lab: Lab, n_cases: int, n_fresh: int, seeds: list) -> None:
    camp = ck.campaign("differential: same input+options under different PYTHONHASHSEED x earlier generate() calls x cwd x directory-listing order (subprocesses) -> byte-identical files")
    t0 = time.time()
    rng = ck.rng.fork("diff")
    cases = make_cases(ck, lab, n_cases)
    state = class_state_list()
    cfgs = {}
    for i, seed in enumerate(seeds):
        order = list(cases)
        if i % 3 == 1:
            order = list(reversed(order))
        elif i % 3 == 2:
            order = rng.shuffle(order)
        if i > 0:  # interleave foreign generate() calls, and calls on the SAME text with other options
            noisy = []
            nz = noise_cases(rng, len(order) // 3 + 1, f"p{i}")
            for j, c in enumerate(order):
                if j % 3 == 0 and nz:
                    noisy.append(nz.pop(0))
                if c["kind"] == "discriminator" or rng.chance(1, 3):
                    noisy.append(twin_of(rng, c, f"p{i}"))
                noisy.append(c)
            order = noisy
        cwd = [str(lab.root / "w" / "a"), str(lab.root / "w" / "b" / "deeper" / "still"), "/tmp", str(lab.root)][i % 4]
        listing = ["sorted", "reverse", f"shuffle-{i}", f"shuffle-{i}b"][i % 4]
        cfgs[f"P{i}"] = dict(cases=[strip(c) for c in order], seed=seed, cwd=cwd, listing=listing)
    plain = [c for c in cases if c["kind"] == "plain-types"]
    fresh = plain[: n_fresh // 2] + rng.sample([c for c in cases if c not in plain[: n_fresh // 2]], n_fresh - len(plain[: n_fresh // 2]))
    for j, c in enumerate(fresh):
        cfgs[f"F{j}"] = dict(cases=[strip(c)], seed=0, cwd=str(lab.root / "w" / "a"), listing="sorted")
    names = list(cfgs)
    raw = pmap(lambda nm: lab.run(nm, cfgs[nm]["cases"], seed=cfgs[nm]["seed"], cwd=cfgs[nm]["cwd"], listing=cfgs[nm]["listing"],
                                 class_state=state if nm.startswith("P") else None), names)
    res = dict(zip(names, raw))
    for nm, r in res.items():
        if "crash" in r:
            ck.infra_errors.append(f"child {nm} crashed: {r['crash']}")
    if ck.infra_errors:
        return
    state_camp = ck.campaign("reviewed shared state unchanged by the generate() calls of each batch process: class-level objects (Gen/SetSites.classMutables) and every module-level Import singleton (values of the Import.from_full_path cache)")
    state_camp.evaluations += len(state) * sum(1 for nm in names if nm.startswith("P"))
    state_camp.distinct.update(f"{m}:{c}.{a}" for m, c, a in state)
    n_shared = max((res[nm].get("shared_instances", 0) for nm in names), default=0)
    state_camp.evaluations += n_shared * sum(1 for nm in names if nm.startswith("P"))
    state_camp.hit("module-level Import singletons snapshotted", n_shared)
    for nm in names:
        for fn, cnt in res[nm].get("memo_values", {}).items():   # object values handed out by lru_cache/cache functions
            state_camp.hit("memoised object values compared with their snapshot: " + fn, cnt)
            state_camp.evaluations += cnt
            state_camp.distinct.add("memo:" + fn)
    camp.hit("earlier call on the same text with other options (twin)", sum(1 for nm in names for cs in cfgs[nm]["cases"] if cs["id"].startswith("twin-")))
    for nm in names:
        camp.hit(f"process:{'batch' if nm.startswith('P') else 'fresh'}")
        for key, (b, a) in res[nm].get("state_changed", {}).items():
            # the reviewed tags (Model/Determinism.reviewedClassMutables) say these objects never change: a change is a
            # disagreement between the review and the code, not yet a violation — the output comparison below decides
            state_camp.evaluations += 1
            ck.disagree(state_camp, {"object": key, "process": nm}, "unchanged (reviewed tag)", f"{b[:100]} -> {a[:100]}")
    for c in cases:
        camp.hit(f"input:{c['kind']}")
        camp.hit(f"kind:{c['model']}")
        if c.get("same_basename"):
            camp.hit("dir-with-equal-basenames")
        outs = {nm: res[nm]["results"].get(c["id"]) for nm in names if c["id"] in res[nm].get("results", {})}
        camp.evaluations += len(outs)
        keys = {nm: outcome(o) for nm, o in outs.items()}
        ref_name = names[0]
        ref = keys[ref_name]
        if ref.startswith("files:") and len(outs[ref_name]["files"]) > 0:
            camp.distinct.add(c["id"])
        else:
            camp.hit(f"generator-error:{c['kind']}:" + ref[6:40])
        if any(o and o.get("cwd_changed") for o in outs.values()):
            camp.hit("cwd-changed-after-call(C20)")
        bad = [nm for nm, kx in keys.items() if kx != ref]
        if not bad:
            if len(camp.samples) < 3 and ref.startswith("files:"):
                camp.samples.append({"case": {k: v for k, v in c.items() if k in ("id", "kind", "model", "opts", "files")},
                                     "processes": {nm: {"seed": cfgs[nm]["seed"], "listing": cfgs[nm]["listing"], "cwd": cfgs[nm]["cwd"].replace(str(lab.root), "<scratch>")} for nm in outs},
                                     "files": sorted(outs[ref_name]["files"]), "identical": True})
            continue
        n_diag = ck.notes.get("diagnosed", 0)
        if n_diag >= 3 and len(ck.failures) >= 1:
            camp.hit("further-mismatch-not-diagnosed")
            continue
        ck.notes["diagnosed"] = n_diag + 1
        factor = diagnose(lab, c, cfgs, [{k: cfgs[nm][k] for k in ("seed", "listing", "cwd")} for nm in (bad[0], ref_name)])
        cls = {"oracle": "differential", "entry": "generate", "factor": factor, "input": c["kind"], "same_basename": bool(c.get("same_basename")),
               "input_file_type": c["input_file_type"], "mixed_types": bool(c.get("mixed_types"))}
        history = None
        if factor == "history":   # which earlier calls does it take? (kept in the replay file)
            def prefix(nm):
                ids = [x["id"] for x in cfgs[nm]["cases"]]
                return cfgs[nm]["cases"][: ids.index(c["id"])] if c["id"] in ids else []
            history = minimise_history(lab, c, [prefix(bad[0]), prefix(ref_name)])
        ck.fail(cls, {"kind": "differential", "case": strip(c), "dir_files": {f: Path(c["path"], f).read_text() for f in c.get("files", [])} if c.get("path") else None,
                      "history": history},
                f"process {bad[0]} (seed={cfgs[bad[0]]['seed']}, listing={cfgs[bad[0]]['listing']}) differs from {ref_name}: {first_diff(outs[ref_name] or {}, outs[bad[0]] or {})}; isolated factor: {factor}",
                "byte-identical files in every process")
    camp.wall_s = time.time() - t0


# ---------------------------------------------------------------- directed histories: an EARLIER call, then the observed call
def history_pairs(rng, n: int) -> list[tuple[dict, dict]]:
    """(earlier call, observed call) pairs of the families in which an earlier call can leave something behind for a later one:
    (a) extension keywords: the earlier call keeps them (field_include_all_keys / field_extra_keys / …_without_x_prefix), the
        observed call — on the same document or on another one whose properties carry keywords of the same pool — keeps none, a
        strict part, or is a member of the family itself; JSON Schema and OpenAPI;
    (b) an input FILE (or one file of an input directory) rewritten between the two calls: the observed call reads the same
        path with new content (explicit input type and Auto);
    (c) the same for the files behind a path-valued OPTION: a template of `custom_template_dir` rewritten between the calls."""
    pairs = []
    for i in range(n):
        model = rng.choice(e2e.MODEL_KINDS)
        base = {"model": model, "modular": False, "default_formatters": False}
        if i % 5 == 4:
            text = json.dumps(docgen.json_schema(rng))
            tdir = f"<PROC>/tpl/h{i}"
            shape = {**base, "kind": "rewritten-template", "input_file_type": "jsonschema", "text": text, "opts": {"custom_template_dir": tdir}}
            e = {**shape, "id": f"h{i}-earlier", "prewrite": {f"{tdir}/{rel}": ("# template revision 1\n" if rel in MODEL_TEMPLATES else "") + body for rel, body in model_templates().items()}}
            l = {**shape, "id": f"h{i}", "prewrite": {f"{tdir}/{rel}": ("# template revision 2\n" if rel in MODEL_TEMPLATES else "") + body for rel, body in model_templates().items()},
                 "family": "rewritten-template:" + model}
        elif i % 5 != 3:
            ift = "openapi" if i % 5 == 2 else "jsonschema"
            gen = detgen.openapi_extras if ift == "openapi" else detgen.json_schema_extras
            doc_e, _ = gen(rng)
            same_doc = rng.chance(1, 2)
            doc_l = doc_e if same_doc else gen(rng)[0]
            opts_e = detgen.extras_option_family(rng, detgen.extension_keys_of(doc_e), keeping_only=True)
            if i % 3 == 0:   # "keep every keyword" alone: the one member of the family that names no key (stratified)
                opts_e = {"field_include_all_keys": True}
            used_l = detgen.extension_keys_of(doc_l)
            r = rng.below(4)
            opts_l = {} if r < 2 else dict(rng.choice(OPTION_POOL)) if r == 2 else detgen.extras_option_family(rng, used_l)
            if opts_l == opts_e and same_doc:
                opts_l = {}
            e = {**base, "id": f"h{i}-earlier", "kind": "extras", "opts": opts_e, "input_file_type": ift, "text": json.dumps(doc_e),
                 "model": model if rng.chance(1, 2) else rng.choice(e2e.MODEL_KINDS)}
            l = {**base, "id": f"h{i}", "kind": "extras", "opts": opts_l, "input_file_type": ift, "text": json.dumps(doc_l),
                 "family": "extension-keywords:" + ("same-document" if same_doc else "other-document")}
        else:
            a, b = json.dumps(docgen.json_schema(rng)), json.dumps(docgen.json_schema(rng))
            ift = rng.choice(["jsonschema", "auto"])
            opts = dict(rng.choice(OPTION_POOL[:8]))
            if rng.chance(1, 3):   # one file of a directory
                path, target = f"<PROC>/in/h{i}/schemas", f"<PROC>/in/h{i}/schemas/a.json"
                other = {f"<PROC>/in/h{i}/schemas/b.json": json.dumps(docgen.json_schema(rng))}
                shape = {**base, "modular": True, "kind": "rewritten-dir", "input_file_type": ift, "path": path, "opts": opts}
                fam = "rewritten-input:file-of-directory"
            else:
                path = target = f"<PROC>/in/h{i}/schema.json"
                other = {}
                shape = {**base, "kind": "rewritten-file", "input_file_type": ift, "path": path, "opts": opts}
                fam = "rewritten-input:file"
            e = {**shape, "id": f"h{i}-earlier", "prewrite": {**other, target: a}}
            l = {**shape, "id": f"h{i}", "prewrite": {**other, target: b}, "family": fam + ":" + ift}
        pairs.append((e, l))
    return pairs


MODEL_TEMPLATES = ["pydantic/BaseModel.jinja2", "pydantic_v2/BaseModel.jinja2", "dataclass.jinja2", "TypedDict.jinja2", "msgspec.jinja2"]


def model_templates() -> dict[str, str]:
    """the package's own templates (text), by their path below model/template (all of them: templates include each other)"""
    root = REPO / "src" / "datamodel_code_generator" / "model" / "template"
    return {str(q.relative_to(root)): q.read_text() for q in sorted(root.rglob("*.jinja2"))}


def campaign_history_pairs(ck: Check, lab: Lab, n: int, fresh_each: bool = True) -> None:
    """`fresh_each`: the reference of every observed call is a process of its own; otherwise (quick tier) the observed calls
    alone, eight per reference process in reverse order — ANOTHER history; two histories that disagree on a call are a failure
    of the property either way, and the history kept in the replay is then minimised against a truly fresh process"""
    camp = ck.campaign("differential: the observed generate() call after an EARLIER call that keeps extension keywords (field_include_all_keys / field_extra_keys / field_extra_keys_without_x_prefix; same and other documents, JSON Schema and OpenAPI) or that read the same input path / the same custom template before it was rewritten, vs the same call in a fresh process -> byte-identical files")
    t0 = time.time()
    rng = ck.rng.fork("history-pairs")
    pairs = history_pairs(rng, n)
    per = 4
    batches = [pairs[j: j + per] for j in range(0, len(pairs), per)]
    cwd = str(lab.root / "w" / "hp")
    ref_groups = [[l] for _, l in pairs] if fresh_each else [[l for _, l in reversed(pairs[j: j + 8])] for j in range(0, len(pairs), 8)]
    ref_of = {l["id"]: gi for gi, g in enumerate(ref_groups) for l in g}
    jobs = [("batch", [strip(x) for pr in b for x in pr]) for b in batches] + [("fresh", [strip(l) for l in g]) for g in ref_groups]
    res = pmap(lambda jb: lab.run("hp-" + jb[0], jb[1], seed=0, cwd=cwd, listing="sorted"), jobs)
    for jb, r in zip(jobs, res):
        if "crash" in r:
            ck.infra_errors.append(f"history-pair child ({jb[0]}) crashed: {r['crash']}")
    if ck.infra_errors:
        return
    for i, (e, l) in enumerate(pairs):
        bi = i // per
        got = res[bi]["results"].get(l["id"])
        ref = res[len(batches) + ref_of[l["id"]]]["results"].get(l["id"])
        camp.evaluations += 2
        camp.hit("family:" + l["family"])
        for o in (e["opts"], l["opts"]):
            for kx in ("field_include_all_keys", "field_extra_keys", "field_extra_keys_without_x_prefix"):
                if kx in o:
                    camp.hit(("earlier:" if o is e["opts"] else "observed:") + kx)
        if not any(kx.startswith("field_") for kx in l["opts"]):
            camp.hit("observed:no-extension-keyword-option")
        if outcome(ref).startswith("files:") and ref["files"]:
            camp.distinct.add(l["id"])
        else:
            camp.hit("generator-error:" + outcome(ref)[6:40])
        if outcome(got) == outcome(ref):
            if len(camp.samples) < 3:
                camp.samples.append({"earlier": {kx: e[kx] for kx in ("opts", "input_file_type", "model")}, "observed": {kx: l[kx] for kx in ("opts", "input_file_type", "model", "family")}, "identical": True})
            continue
        budget = "history_diagnosed:" + l["family"].split(":")[0]   # per family: a known finding of one does not hide another
        if ck.notes.get(budget, 0) >= (1 if l["kind"] == "rewritten-template" else 2):
            camp.hit("further-mismatch-not-diagnosed:" + l["family"].split(":")[0])
            continue
        ck.notes[budget] = ck.notes.get(budget, 0) + 1
        prefix = [strip(x) for pr in batches[bi] for x in pr]
        prefix = prefix[: [x["id"] for x in prefix].index(l["id"])]
        g = [strip(x) for x in ref_groups[ref_of[l["id"]]]]
        history = minimise_history(lab, strip(l), [prefix, g[: [x["id"] for x in g].index(l["id"])]]) or prefix
        ck.fail({"oracle": "differential", "entry": "generate", "factor": "history", "input": l["kind"], "same_basename": False,
                 "input_file_type": l["input_file_type"], "mixed_types": False, "family": l["family"].split(":")[0]},
                {"kind": "differential", "case": strip(l), "dir_files": None, "history": history},
                f"after {len(history)} earlier call(s) in the same interpreter (the last one with options {history[-1]['opts']}) the call differs from the same call in a fresh process: {first_diff(ref or {}, got or {})}",
                "byte-identical files whatever was generated earlier in the process")
    camp.wall_s = time.time() - t0


# ---------------------------------------------------------------- list-valued keywords under several hash seeds
HASH_SEEDS = [0, 1, 2, 3, 4]


def campaign_hashseed_lists(ck: Check, lab: Lab, cases: list[dict], title: str, chunks: int = 3, max_failures: int = 2) -> None:
    """the property's own oracle on the list-valued-keyword family: every case in fresh processes that differ in nothing but
    PYTHONHASHSEED (same order of calls, same cwd, same listing) must write byte-identical files; a failing document is
    shrunk to one property before it is recorded"""
    camp = ck.campaign(title)
    t0 = time.time()
    cwd = str(lab.root / "w" / "hs")
    size = max(1, -(-len(cases) // chunks))
    parts = [cases[j: j + size] for j in range(0, len(cases), size)]
    jobs = [(pi, s) for pi in range(len(parts)) for s in HASH_SEEDS]
    raw = pmap(lambda jb: lab.run("hs", [strip(c) for c in parts[jb[0]]], seed=jb[1], cwd=cwd, listing="sorted"), jobs)
    for jb, r in zip(jobs, raw):
        if "crash" in r:
            ck.infra_errors.append(f"hash-seed child (part {jb[0]}, PYTHONHASHSEED={jb[1]}) crashed: {r['crash']}")
    if ck.infra_errors:
        return
    res = dict(zip(jobs, raw))
    n_fail = 0
    for pi, part in enumerate(parts):
        for c in part:
            outs = {s: res[(pi, s)]["results"].get(c["id"]) for s in HASH_SEEDS}
            keys = {s: outcome(o) for s, o in outs.items()}
            camp.evaluations += len(keys)
            camp.hit("family:" + c["family"].split(":")[0] + (":" + c["family"].split(":")[1] if c["family"].startswith("unique") else ""))
            camp.hit(f"kind:{c['model']}")
            camp.hit(f"input:{c['input_file_type']}")
            for o in c["opts"]:
                camp.hit("option:" + o)
            ref = keys[HASH_SEEDS[0]]
            if ref.startswith("files:") and outs[HASH_SEEDS[0]]["files"]:
                camp.distinct.add(c["id"])
            else:
                camp.hit("generator-error:" + ref[6:40])
            bad = [s for s in HASH_SEEDS if keys[s] != ref]
            if not bad:
                if len(camp.samples) < 3 and ref.startswith("files:"):
                    camp.samples.append({"case": {k: v for k, v in c.items() if k in ("id", "family", "model", "opts", "input_file_type")},
                                         "document": c["text"][:600], "hash_seeds": HASH_SEEDS, "identical": True})
                continue
            n_fail += 1
            if n_fail > max_failures:
                camp.hit("further-mismatch-not-diagnosed")
                continue
            # shrink: one property at a time, same hash seeds, fresh processes
            small, diff = c, first_diff(outs[HASH_SEEDS[0]] or {}, outs[bad[0]] or {})
            cands = detsets.shrink_candidates(c)[:40]
            if cands:
                pair = [HASH_SEEDS[0], bad[0]]
                for j, cd in enumerate(cands):   # results are keyed by id
                    cd["id"] = f"{c['id']}m{j}"
                rr = pmap(lambda cs: lab.run("hs-min", [strip(cd) for cd in cands], seed=cs, cwd=cwd, listing="sorted"), pair)
                if not any("crash" in r for r in rr):
                    for cd in cands:
                        a, b = rr[0]["results"].get(cd["id"]), rr[1]["results"].get(cd["id"])
                        if outcome(a) != outcome(b):
                            small, diff = cd, first_diff(a or {}, b or {})
                            break
                cands = detsets.shrink_keywords(small) if small is not c else []
                for j, cd in enumerate(cands):   # … then without the keywords it does not take (fewest first)
                    cd["id"] = f"{c['id']}k{j}"
                rr = pmap(lambda cs: lab.run("hs-min", [strip(cd) for cd in cands], seed=cs, cwd=cwd, listing="sorted"), pair) if cands else []
                if cands and not any("crash" in r for r in rr):
                    for cd in cands:
                        a, b = rr[0]["results"].get(cd["id"]), rr[1]["results"].get(cd["id"])
                        if outcome(a) != outcome(b):
                            small, diff = cd, first_diff(a or {}, b or {})
                            break
            ck.fail({"oracle": "differential", "entry": "generate", "factor": "hashseed", "input": "list-keywords", "same_basename": False,
                     "input_file_type": c["input_file_type"], "mixed_types": False, "family": c["family"].split(":")[0]},
                    {"kind": "differential", "case": strip(small), "dir_files": None, "history": None},
                    f"PYTHONHASHSEED={bad[0]} differs from PYTHONHASHSEED={HASH_SEEDS[0]} (fresh processes, same calls, options {small['opts']}, {small['model']}): {diff}",
                    "byte-identical files under every hash seed")
    camp.wall_s = time.time() - t0


# ---------------------------------------------------------------- corpus: directory inputs that once depended on the listing order
_OPENAPI_PET = json.dumps({"openapi": "3.0.3", "info": {"title": "t", "version": "1"}, "paths": {},
                           "components": {"schemas": {"Pet": {"type": "object", "properties": {"name": {"type": "string"}}}}}})
_SCHEMA_THING = json.dumps({"type": "object", "properties": {"n": {"type": "integer"}},
                            "definitions": {"Part": {"type": "object", "properties": {"v": {"type": "string"}}}}})
_DIR_BASE = {"opts": {}, "modular": True, "default_formatters": False}
LISTING_CORPUS = [
    # former witness of C08-basename (repaired): equal basenames in different directories kept the OS listing order
    {"case": {**_DIR_BASE, "id": "corpus-basename", "model": "pydantic.BaseModel", "kind": "dir", "input_file_type": "jsonschema",
              "same_basename": True, "files": ["common.json", "other/delta.json", "sub/common.json"]},
     "dir_files": {"common.json": '{"type": "object"}', "other/delta.json": '{"type": "object"}',
                   "sub/common.json": '{"type": "object", "additionalProperties": false}'}},
    # former witness of C08-auto-dir (repaired): Auto + files of different types, the first LISTED file decided the parser
    {"case": {**_DIR_BASE, "id": "corpus-auto-dir", "model": "pydantic_v2.BaseModel", "kind": "tree", "input_file_type": "auto",
              "same_basename": False, "mixed_types": True, "files": ["a/service_api.json", "b/thing.json"]},
     "dir_files": {"a/service_api.json": _OPENAPI_PET, "b/thing.json": _SCHEMA_THING}},
    # the same basename at three depths, the deepest one listed first in the natural order of paths
    {"case": {**_DIR_BASE, "id": "corpus-basename-3", "model": "pydantic_v2.BaseModel", "kind": "dir", "input_file_type": "jsonschema",
              "same_basename": True, "files": ["a/b/item.json", "a/item.json", "item.json", "z.json"]},
     "dir_files": {"a/b/item.json": '{"type": "object", "properties": {"deep": {"type": "integer"}}}',
                   "a/item.json": '{"type": "object", "properties": {"mid": {"type": "string"}}, "additionalProperties": false}',
                   "item.json": '{"type": "object", "properties": {"top": {"type": "boolean"}}}',
                   "z.json": '{"type": "object", "properties": {"i": {"$ref": "item.json"}}}'}},
    # both at once: Auto, an OpenAPI document and JSON Schemas that share one basename
    {"case": {**_DIR_BASE, "id": "corpus-auto-basename", "model": "pydantic.BaseModel", "kind": "tree", "input_file_type": "auto",
              "same_basename": True, "mixed_types": True, "files": ["m/common.json", "n/common.json", "z/service_api.json"]},
     "dir_files": {"m/common.json": _SCHEMA_THING, "n/common.json": '{"type": "object", "additionalProperties": false}',
                   "z/service_api.json": _OPENAPI_PET}},
]
CORPUS_LISTINGS = ["sorted", "reverse", "shuffle-c1", "shuffle-c2", "shuffle-c3", "shuffle-c4", "shuffle-c5", "shuffle-c6"]


def campaign_listing_corpus(ck: Check, lab: Lab) -> None:
    """runs first: every corpus directory under eight listing orders (and four hash seeds); since the repairs of C08-basename
    and C08-auto-dir the output must be byte-identical in all of them"""
    camp = ck.campaign("corpus: directory inputs that once depended on the listing order (repaired C08-basename, C08-auto-dir, and variants) under permuted listings -> byte-identical files")
    t0 = time.time()
    cases = []
    for item in LISTING_CORPUS:
        c = dict(item["case"])
        c["path"] = lab.write_dir(c["id"], item["dir_files"])
        cases.append(c)
    cfgs = [dict(seed=i % 4, cwd=str(lab.root / "w" / "corpus"), listing=m) for i, m in enumerate(CORPUS_LISTINGS)]
    res = pmap(lambda kw: lab.run("corpus", [strip(c) for c in cases], **kw), cfgs)
    for kw, r in zip(cfgs, res):
        if "crash" in r:
            ck.infra_errors.append(f"corpus child (listing={kw['listing']}) crashed: {r['crash']}")
    if ck.infra_errors:
        return
    for c, item in zip(cases, LISTING_CORPUS):
        outs = [r["results"].get(c["id"]) for r in res]
        keys = [outcome(o) for o in outs]
        camp.evaluations += len(keys)
        camp.hit(f"input:{c['kind']}:{c['input_file_type']}")
        if c.get("same_basename"):
            camp.hit("dir-with-equal-basenames")
        if c.get("mixed_types"):
            camp.hit("dir-with-files-of-different-types")
        if keys[0].startswith("files:") and outs[0]["files"]:
            camp.distinct.add(c["id"])
        else:
            camp.hit("generator-error:" + keys[0][6:40])
        bad = [i for i, kx in enumerate(keys) if kx != keys[0]]
        if not bad:
            if len(camp.samples) < 3:
                camp.samples.append({"case": c["id"], "files_in": c["files"], "listings": CORPUS_LISTINGS,
                                     "files_out": sorted((outs[0] or {}).get("files", {})), "identical": True})
            continue
        factor = diagnose(lab, c, {}, [{k: cfgs[i][k] for k in ("seed", "listing", "cwd")} for i in (bad[0], 0)])
        ck.fail({"oracle": "differential", "entry": "generate", "factor": factor, "input": c["kind"], "same_basename": bool(c.get("same_basename")),
                 "input_file_type": c["input_file_type"], "mixed_types": bool(c.get("mixed_types"))},
                {"kind": "differential", "case": strip({k: v for k, v in c.items() if k != "path"}), "dir_files": item["dir_files"], "history": None},
                f"corpus case {c['id']}: listing={cfgs[bad[0]]['listing']} differs from listing=sorted: {first_diff(outs[0] or {}, outs[bad[0]] or {})}; isolated factor: {factor}",
                "byte-identical files under every listing order")
    camp.wall_s = time.time() - t0



# ---------------------------------------------------------------- the working directory as a PROJECT (formatters on)
def project_cases(rng, n: int) -> list[dict]:
    """documents + options whose formatted output reacts to formatter settings and to first-party detection: imports of
    non-standard modules (custom base class, additional imports, customTypePath), long lines, both kinds of quotes"""
    cases = []
    for i in range(n):
        modular = rng.chance(1, 5)
        text = json.dumps(detproj.project_document(rng, modular))
        opts = detproj.project_options(rng)
        model = rng.choice(e2e.MODEL_KINDS[:3]) if opts.get("base_class") else rng.choice(e2e.MODEL_KINDS)
        cases.append({"id": f"p{i}", "model": model, "opts": opts, "modular": modular, "formatters": rng.choice(detproj.FORMATTER_SETS),
                      "kind": "project", "input_file_type": "jsonschema", "text": text, "imports": detproj.imported_packages(opts, text)})
    return cases


def project_verdict(ck: Check, camp, lab: Lab, case: dict, proj: dict, ref: dict, got: dict) -> None:
    """the same case gives other bytes when started from the project directory: find the one ingredient that does it (each alone,
    in a fresh process), classify, record"""
    culprit, files = None, detproj.project_files(proj)
    singles = list(range(len(proj["ingredients"])))
    cwds = [lab.make_project(f"min-{case['id']}-{lab.n}-{j}", detproj.project_files(proj, [j]), proj["sub"]) for j in singles]
    runs = pmap(lambda c: lab.run("projmin", [strip(case)], seed=0, cwd=c, listing="sorted"), cwds)
    for j, r in zip(singles, runs):
        if outcome(r.get("results", {}).get(case["id"])) != outcome(ref):
            culprit, files = proj["ingredients"][j], detproj.project_files(proj, [j])
            break
    cls = {"oracle": "differential", "entry": "generate", "factor": "cwd", "input": "project", "formatters_on": bool(case["formatters"]),
           "input_file_type": case["input_file_type"], "same_basename": False, "mixed_types": False,
           "cwd_holds": "several" if culprit is None else ("package-of-imported-name" if culprit["pkg"] else "formatter-config")}
    what = "the project as a whole" if culprit is None else (f"a {culprit['kind']} named {culprit['pkg']}" if culprit["pkg"] else f"{culprit['kind']} ({', '.join(culprit['files'])})")
    ck.fail(cls, {"kind": "cwd_project", "case": strip(case), "project": {"files": files, "sub": proj["sub"]}},
            f"formatters {case['formatters']}: started from a directory that holds {what}, the output differs from the run started from an empty directory "
            f"(same input, options and hash seed, fresh processes): {first_diff(ref or {}, got or {})}",
            "byte-identical files from every working directory")


def campaign_projects(ck: Check, lab: Lab, n_cases: int, n_projects: int) -> None:
    camp = ck.campaign("differential: same input+options with formatters ON (black / isort / ruff) started from an empty directory vs from project directories holding packages named like imported modules and formatter configuration files (fresh processes) -> byte-identical files")
    t0 = time.time()
    rng = ck.rng.fork("projects")
    cases = project_cases(rng, n_cases)
    flavours = ["full", "packages", "configs"] + ["mixed"] * max(0, n_projects - 3)
    projects = [detproj.project(rng, f) for f in flavours[:n_projects]]
    cwds = [lab.make_project("empty", {})] + [lab.make_project(f"proj{i}", detproj.project_files(pr), pr["sub"]) for i, pr in enumerate(projects)]
    res = pmap(lambda c: lab.run("proj", [strip(x) for x in cases], seed=0, cwd=c, listing="sorted", observe_cwd=True), cwds)
    for c, r in zip(cwds, res):
        if "crash" in r:
            ck.infra_errors.append(f"project child ({c}) crashed: {r['crash']}")
    if ck.infra_errors:
        return
    where = ck.campaign("Model.Write.cwdTrack (the parse, and with it the formatting stage, runs in the output directory) vs the working directory observed when a CodeFormatter is set up / a formatter child process starts in the real generate()")
    for pr in projects:
        camp.hit(f"project:{pr['flavour']}")
        for ing in pr["ingredients"]:
            camp.hit(f"cwd-holds:{ing['kind']}")
        camp.hit("started-from-subdirectory" if pr["sub"] else "started-from-project-root")
    model_where = "output-dir"   # Props/C08.formatting_directory_independent_of_callers_cwd
    for case in cases:
        outs = [r["results"].get(case["id"]) for r in res]
        keys = [outcome(o) for o in outs]
        camp.evaluations += len(keys)
        camp.hit("formatters:" + "+".join(case["formatters"]))
        camp.hit(f"kind:{case['model']}")
        for nm in ("base_class", "additional_imports"):
            if case["opts"].get(nm):
                camp.hit(f"option:{nm}")
        if "customTypePath" in case["text"]:
            camp.hit("document:customTypePath")
        if keys[0].startswith("files:") and outs[0]["files"]:
            if any(set(case["imports"]) & {i["pkg"] for i in pr["ingredients"] if i["pkg"]} for pr in projects):
                camp.distinct.add(case["id"])
        else:
            camp.hit("generator-error:" + keys[0][6:40])
        for o, c in zip(outs, cwds):
            for w, loc in (o or {}).get("format_cwd", []):
                where.evaluations += 1
                where.hit(f"{w}:{loc}")
                where.distinct.add(f"{w}:{'+'.join(case['formatters'])}")
                if loc != model_where:
                    ck.disagree(where, {"case": case["id"], "formatters": case["formatters"], "site": w}, model_where, loc)
        bad = [i for i, kx in enumerate(keys) if kx != keys[0]]
        if not bad:
            if len(camp.samples) < 3 and keys[0].startswith("files:"):
                camp.samples.append({"case": {k: v for k, v in case.items() if k in ("id", "model", "opts", "formatters", "imports")},
                                     "projects": [sorted(detproj.project_files(pr)) for pr in projects[:2]], "identical": True})
            continue
        if ck.notes.get("project_diagnosed", 0) >= 2:
            camp.hit("further-mismatch-not-diagnosed")
            continue
        ck.notes["project_diagnosed"] = ck.notes.get("project_diagnosed", 0) + 1
        project_verdict(ck, camp, lab, case, projects[bad[0] - 1], outs[0], outs[bad[0]])
    camp.wall_s = time.time() - t0

# ---------------------------------------------------------------- the CLI entry point in one interpreter (D18)
D18_DOC = {"title": "M", "type": "object", "properties": {"fooBar": {"type": "integer"}, "bazQux": {"type": "string"}}}
BASE_ARGV = ["--input", "s.json", "--input-file-type", "jsonschema", "--disable-timestamp"]
MAIN_SEQUENCES = [
    [["--snake-case-field"], []],
    [["--output-model-type", "dataclasses.dataclass"], []],
    [["--use-standard-collections", "--target-python-version", "3.11"], ["--use-double-quotes"]],
    [[], ["--snake-case-field"], []],
]


def main_sequence(ck: Check, camp, lab: Lab, seq: list[list[str]]) -> None:
    calls = [BASE_ARGV + extra for extra in seq]
    together = lab.run_main(calls, D18_DOC)
    alone = pmap(lambda a: lab.run_main([a], D18_DOC), calls)
    camp.evaluations += 1 + len(calls)
    camp.distinct.add(json.dumps(seq))
    if isinstance(together, dict) or any(isinstance(a, dict) for a in alone):
        ck.infra_errors.append(f"main() child crashed: {together if isinstance(together, dict) else alone}")
        return
    for i, (t, a) in enumerate(zip(together, alone)):
        if (t["rc"], t["output"]) != (a[0]["rc"], a[0]["output"]):
            prev = [" ".join(x) or "(no option)" for x in seq[:i]]
            ck.fail({"oracle": "differential", "entry": "main", "factor": "history", "mechanism": "shared-argparse-namespace"},
                    {"kind": "main_sequence", "seq": seq},
                    f"call #{i + 1} `{' '.join(seq[i]) or '(no option)'}` after {prev} in the same interpreter differs from the same call in a fresh process: "
                    + first_diff({"files": {"out.py": a[0]["output"] or ""}}, {"files": {"out.py": t["output"] or ""}}),
                    "the same output as in a fresh process")
            return
    if len(camp.samples) < 2:
        camp.samples.append({"sequence": seq, "result": "every call equals its fresh-process run"})


def campaign_main_history(ck: Check, lab: Lab) -> None:
    camp = ck.campaign("differential: sequences of main() calls in one interpreter vs each call in a fresh process")
    t0 = time.time()
    for seq in (MAIN_SEQUENCES if ck.tier == "thorough" else MAIN_SEQUENCES[:3]):
        main_sequence(ck, camp, lab, seq)
    camp.wall_s = time.time() - t0


# ---------------------------------------------------------------- search / replay / known findings
LIST_TITLE = ("differential (hash seed only): list-valued schema keywords — `default` lists of >= 4 distinct strings on uniqueItems arrays with "
              "use_unique_items_as_set on/off, enum defaults, `required` lists with many names, `examples` lists; JSON Schema and OpenAPI, every model "
              "kind — in fresh processes under PYTHONHASHSEED 0..4 -> byte-identical files")


def unjustified_functions(ck: Check) -> list[tuple[str, str, str]]:
    """(obligation, file, function) of every table entry a refuter named, each function once"""
    out, seen = [], set()
    for what in ("sites", "cache", "returns", "cachereads", "writes", "aliases", "listing", "state"):
        for g in ck.notes.get("unjustified_" + what, []):
            if len(g) >= 2 and g[0].endswith(".py") and (g[0], g[1]) not in seen:
                seen.add((g[0], g[1]))
                out.append((what, g[0], g[1]))
    return out


def targeted_search(ck: Check, lab: Lab) -> None:
    """for every function named by a refuter: the boolean options of generate() it reads x the schema keywords it names (plus the
    carriers of list values: default, examples) -> documents that reach it, under PYTHONHASHSEED 0..4 for every model kind"""
    rng = ck.rng.fork("targeted")
    specs = []
    for what, file, func in unjustified_functions(ck)[:6]:
        try:
            spec = detsets.derive(file, func)
        except Exception as e:  # noqa: BLE001
            specs.append({"site": [what, file, func], "error": type(e).__name__})
            continue
        key = (tuple(spec["options"]), tuple(spec["keywords"]))
        if any(sp.get("key") == key for sp in specs):
            continue
        specs.append({"site": [what, file, func], "key": key, **spec})
    ck.notes["targeted_families"] = [{k: v for k, v in sp.items() if k != "key"} for sp in specs]
    for sp in specs:
        if ck.failures or "error" in sp:
            continue
        carriers = [kw for kw in ("default", "examples") if kw not in sp["keywords"]]
        spec = {**sp, "keywords": [*sp["keywords"], *carriers]}
        cases = detsets.targeted_family(rng, spec, e2e.MODEL_KINDS)
        campaign_hashseed_lists(ck, lab, cases, f"targeted search: documents that reach {sp['site'][1]}:{sp['function']} (options {spec['options']}, keywords {spec['keywords']}) "
                                f"under PYTHONHASHSEED 0..4, every model kind -> byte-identical files", chunks=6, max_failures=1)
    if not ck.failures:   # the always-run family, six times as many documents
        campaign_hashseed_lists(ck, lab, detsets.quick_family(rng, e2e.MODEL_KINDS, 6), "search: " + LIST_TITLE, chunks=8, max_failures=1)


def search(ck: Check) -> None:
    """a table obligation broke: name the unjustified sites, then run a larger differential campaign"""
    try:
        for what in ("sites", "cache", "state", "writes", "returns", "listing", "cwd", "aliases", "cachereads"):
            rep = ck.driver.run([f"det.refute {what}"])[0]
            if rep.startswith("ok "):
                groups = rep[3:].replace("(", "").split(")")
                ck.notes.setdefault("unjustified_" + what, [[unkey(int(t)) for t in g.split()] for g in groups if g.strip()])
    except Exception:  # noqa: BLE001
        pass
    try:
        rep = ck.driver.run(["det.refute chdir"])[0]
        if rep != "none":
            ck.notes["formatting_not_in_output_directory"] = rep
    except Exception:  # noqa: BLE001
        pass
    lab = Lab()
    try:
        # first what the broken obligations point at: a new reader of the working directory / the parse no longer inside
        # `with chdir(output)` -> many more cases x project directories; then the general differential campaign
        if any(k in ck.notes for k in ("unjustified_cwd", "formatting_not_in_output_directory")) or ck.disagreements:
            campaign_projects(ck, lab, 60, 8)
        if not ck.failures:   # a new set / listing / cache site: documents that REACH the function the refuter names
            targeted_search(ck, lab)
        if not ck.failures:   # a new alias of a module-level object / a new cache: what an EARLIER call leaves behind
            campaign_history_pairs(ck, lab, 100)
        if not ck.failures:
            campaign_differential(ck, lab, 150, 6, [0, 1, 2, 3, 4, 5, "random", 7])
        if not ck.failures:
            campaign_projects(ck, lab, 60, 8)
    finally:
        lab.close()


def rerun(ck: Check, inp: dict) -> None:
    lab = Lab()
    camp = ck.campaign("replay")
    try:
        if inp.get("kind") == "main_sequence":
            main_sequence(ck, camp, lab, inp["seq"])
        elif inp.get("kind") == "cwd_project":
            c = dict(inp["case"])
            cwds = [lab.make_project("replay-empty", {}), lab.make_project("replay-project", inp["project"]["files"], inp["project"].get("sub", ""))]
            res = pmap(lambda w: lab.run("replay", [c], seed=0, cwd=w, listing="sorted"), cwds)
            keys = [outcome(r.get("results", {}).get(c["id"])) for r in res]
            camp.evaluations += len(keys)
            if len(set(keys)) > 1:
                ck.fail({"oracle": "differential", "entry": "generate", "factor": "cwd", "input": "project", "formatters_on": bool(c.get("formatters")),
                         "input_file_type": c.get("input_file_type"), "same_basename": False, "mixed_types": False},
                        inp, "the run started from the project directory differs from the run started from an empty directory: "
                        + first_diff(res[0]["results"][c["id"]], res[1]["results"][c["id"]]))
        elif inp.get("kind") == "differential":
            c = dict(inp["case"])
            if inp.get("dir_files"):
                c["path"] = lab.write_dir(c["id"], inp["dir_files"])
            runs = [dict(seed=s, cwd=str(lab.root / "w" / f"r{s}"), listing=l) for s, l in ((0, "sorted"), (1, "reverse"), (2, "shuffle-2"), (3, "shuffle-3"))]
            if inp.get("history"):   # fresh, after the history under the same seed and listing order, after the history under others
                runs = [dict(seed=0, cwd=str(lab.root / "w" / "r0"), listing="sorted"), dict(seed="0", cwd=str(lab.root / "w" / "r0"), listing="sorted"),
                        dict(seed=1, cwd=str(lab.root / "w" / "r1"), listing="reverse")]
            noise = noise_cases(ck.rng.fork("replay"), 6, "r")
            if inp.get("history"):   # the recorded earlier calls of the failing process (same text, other options, …)
                noise = [dict(h, path=c["path"]) if h.get("path") and c.get("path") else h for h in inp["history"]]
            res = pmap(lambda kw: lab.run("replay", ([*noise, c] if kw["seed"] else [c]), **kw), runs)
            keys = [outcome(r.get("results", {}).get(c["id"])) for r in res]
            camp.evaluations += len(keys)
            if len(set(keys)) > 1:
                factor = "history" if inp.get("history") and keys[0] != keys[1] else diagnose(lab, c, {})
                ck.fail({"oracle": "differential", "entry": "generate", "factor": factor, "input": c.get("kind"), "same_basename": bool(c.get("same_basename")),
                         "input_file_type": c.get("input_file_type"), "mixed_types": bool(c.get("mixed_types"))},
                        inp, "outputs differ between processes: " + first_diff(res[0]["results"][c["id"]], next(r["results"][c["id"]] for r, kx in zip(res, keys) if kx != keys[0])))
    finally:
        lab.close()


def known_findings(ck: Check) -> None:
    for f in ck.findings:
        probe = Check(ck.prop, ck.tier)
        probe.findings = []
        rerun(probe, f["witness"])
        if probe.failures:
            ck.known(f["id"], f["what"])


def run(ck: Check) -> None:
    quick = ck.tier == "quick"
    ck.translate("SetSites", set_sites.generate())
    ck.translate("GenerateSteps", generate_steps.generate())
    ck.translate("ModuleState", module_state.generate())
    ck.prove()
    ck.assumptions += [
        "PARTIAL CLAIM: the theorems are about the abstraction (sets as lists up to permutation, a memo table, a stable sort); "
        "hash randomisation, dict ordering, Jinja2/black/isort internals and process history are run-time behaviour covered only by the differential runs",
        "the set-site analysis is name- and annotation-based (conservative but not complete): an unannotated set that reaches an "
        "iteration through untyped calls is not in the table; the differential runs under several hash seeds are the net for those",
        "directory inputs: independence from the listing order is proved for the MODEL of the two listing sites (a stable sort by the "
        "tuple (basename, path); the first file of a sorted listing) and tied to the code by the shape recognised in the source "
        "(sorted( without key / key=lambda v: (v.name, v.as_posix())); that Path.rglob returns every entry exactly once and that "
        "str / Path comparison is the total order of the model is trusted",
        "working directory: that the formatting stage runs inside `with chdir(output)` is a reviewed shape of generate() (kernel-decided on "
        "Gen/GenerateSteps) plus a review of every reader of the working directory in the source (Gen/SetSites.cwdSites); what black / isort / "
        "ruff do with the directory they are in is third-party behaviour, observed by the project-directory runs only; with output=None "
        "(text to stdout, no file written) the formatters see the caller's directory",
        "error messages may contain set reprs (reviewed tag errorMessageOnly): for failing runs only the exception type is compared",
        f"source tree analysed: {REPO}",
    ]
    lab = Lab()
    try:
        campaign_listing_corpus(ck, lab)
        campaign_hashseed_lists(ck, lab, detsets.quick_family(ck.rng.fork("list-keywords"), e2e.MODEL_KINDS, 1 if quick else 8), LIST_TITLE, chunks=1 if quick else 12)
        campaign_history_pairs(ck, lab, 16 if quick else 100, fresh_each=not quick)
        campaign_differential(ck, lab, 60 if quick else 400, 6 if quick else 24, [0, 1, 2, 3] if quick else [0, 1, 2, 3, 4, 5, "random", 7])
        campaign_projects(ck, lab, 16 if quick else 90, 5 if quick else 12)
        campaign_main_history(ck, lab)
        try:
            rep = ck.driver.run(["det.stale"])[0]
            if rep != "none":
                ck.notes["stale_reviewed_set_sites"] = rep
        except Exception:  # noqa: BLE001
            pass
    finally:
        lab.close()
    ck.search_hooks.append(search)
    known_findings(ck)


def replay(ck: Check, path: str) -> int:
    data = json.loads(open(path).read())
    rerun(ck, data.get("input") or {})
    for f in ck.failures:
        print("REPLAY-FAILS:", json.dumps(f.classification), f.observed[:400])
    if not ck.failures:
        print("replay: the oracle does not fail on this input")
    return 1 if ck.failures else 0
