"""C14 — reference bookkeeping (`Reference.children`) under the options that rewrite the uses of a model.

`Reference.children` is how `Parser.__reuse_model` (a duplicate enum is dropped, the children of its reference are
re-pointed to the kept one), `Parser.__delete_duplicate_models`, `Parser.__collapse_root_models` (a root model whose
reference has no children left is removed) find every use of a model. A `DataType` made by `.copy()` is NOT registered
(a pydantic copy bypasses `DataType.__init__`). A use that is not registered is left behind by the re-pointing walk: the
written module names a class that is no longer written (`class … is not fully defined` when it is validated).

This file has
  * `family_doc`: the document family — inheritance through `allOf` where the child (or grandchild) re-declares an
    inherited member ONLY through `required` (`Parser.__override_required_field` copies the inherited field), the
    member's type being a direct `$ref` / an array of / a map of / a nullable / a union with a `$ref` to a definition that
    has a twin (two enums with the same members, two root models with the same content, two objects with the same
    members) — what `--reuse-model` folds and `--collapse-root-models` inlines;
  * `Observed`: the REAL `Parser.parse()` run with every private pass of `Parser` wrapped (generically: every
    `_Parser__*` callable that is handed the list of models), so that the store (`Reference.children`, the `reference`
    of every `DataType` reachable from a member or a base-class list of a model that is written) is read after
    `parse_raw()` and after each pass;
  * the campaigns: (1) the invariant `registered` of Dcg/Model/RefChildren.lean decided BY THE LEAN DRIVER on the real
    store at every stage that precedes a pass which walks `children`, and `redirect` of the model against what the real
    `Parser.__reuse_model` did to every use (2) the differential oracle of C14 (`c14.eval_pair`) on a stratified sample
    of the family under the options that contain reuse_model / collapse_root_models;
  * the failing-input search: every document on which the invariant broke is already a complete document — it is run
    through the property's own oracle under every variant that rewrites uses.
"""
from __future__ import annotations

import json
import time
import warnings
from typing import Any

from .. import semgen

KINDS = ("enum_str", "enum_int", "root_str", "root_int", "root_array", "root_plain", "object")
WRAPS = ("direct", "array", "map", "nullable", "union")
SHAPES = ("child", "grandchild", "child_with_own", "required_in_member")

CLASS_POOL = ["Tone", "Shade", "Grade", "Phase", "Level", "Rank", "Stage", "Flavor", "Mood", "Tier", "Zone", "Kind", "Status", "Bucket", "Scale", "Pitch"]
HOLDER_POOL = ["Frame", "Panel", "Record", "Entry", "Crate", "Parcel", "Ticket", "Widget", "Layer", "Sheet"]
MEMBER_POOL = ["hue", "tint", "rank", "stage", "tag", "mark", "slot", "part", "side", "unit", "step", "zone"]
WORDS = ["alpha", "beta", "gamma", "delta", "east", "west", "north", "up", "down", "low", "mid", "high"]

# the options of the property text that rewrite the uses of a model (alone and combined with the others)
REWRITING = ("reuse_model", "collapse_root_models")


def target_schema(rng, kind: str) -> dict:
    if kind == "enum_str":
        return {"type": "string", "enum": rng.sample(WORDS, rng.range(2, 4))}
    if kind == "enum_int":
        return {"type": "integer", "enum": sorted(rng.sample(list(range(1, 12)), rng.range(2, 4)))}
    if kind == "root_str":
        return {"type": "string", "maxLength": rng.range(3, 8)}
    if kind == "root_int":
        return {"type": "integer", "minimum": rng.range(0, 3), "maximum": rng.range(5, 9)}
    if kind == "root_array":
        return {"type": "array", "items": {"type": "string"}}
    if kind == "root_plain":
        return {"type": rng.choice(["string", "integer"])}
    return {"type": "object", "properties": {rng.choice(["code", "label"]): {"type": "string"}, "count": {"type": "integer"}}}


def wrap(w: str, ref: dict) -> dict:
    if w == "direct":
        return ref
    if w == "array":
        return {"type": "array", "items": ref}
    if w == "map":
        return {"type": "object", "additionalProperties": ref}
    if w == "nullable":
        return {"anyOf": [ref, {"type": "null"}]}
    return {"anyOf": [ref, {"type": "boolean"}]}


def family_doc(rng, i: int) -> tuple[dict, set[str]]:
    """document number `i` of the family (stratified over kind × wrap × shape; names, member lists and the order of
    the definitions are drawn from `rng`)"""
    kind = KINDS[i % len(KINDS)]
    w = WRAPS[(i // len(KINDS) + i) % len(WRAPS)]
    shape = SHAPES[(i // 3 + i // (len(KINDS) * len(WRAPS))) % len(SHAPES)]
    names = rng.sample(CLASS_POOL, 2)
    holders = rng.sample(HOLDER_POOL, 3)
    members = rng.sample(MEMBER_POOL, 4)
    twin_a, twin_b = names
    base, child, mid = holders
    target = target_schema(rng, kind)
    m_a, m_b, m_other, m_own = members
    # the base class uses BOTH twins (whichever of the two the pass drops, a required-only re-declaration names it)
    base_schema = {
        "type": "object",
        "properties": {
            m_other: {"type": "string"},
            m_a: wrap(w, {"$ref": f"#/definitions/{twin_a}"}),
            m_b: wrap(w, {"$ref": f"#/definitions/{twin_b}"}),
        },
    }
    req = [m_a, m_b] if rng.chance(3, 4) else [m_b, m_a, m_other]
    defs: dict[str, Any] = {twin_a: json.loads(json.dumps(target)), twin_b: json.loads(json.dumps(target)), base: base_schema}
    if shape == "child":
        defs[child] = {"allOf": [{"$ref": f"#/definitions/{base}"}], "required": req}
    elif shape == "grandchild":
        defs[mid] = {"allOf": [{"$ref": f"#/definitions/{base}"}, {"type": "object", "properties": {m_own: {"type": "integer"}}}]}
        defs[child] = {"allOf": [{"$ref": f"#/definitions/{mid}"}], "required": req}
    elif shape == "child_with_own":
        defs[child] = {"allOf": [{"$ref": f"#/definitions/{base}"}, {"type": "object", "properties": {m_own: {"type": "boolean"}}}], "required": req}
    else:
        defs[child] = {"allOf": [{"$ref": f"#/definitions/{base}"}, {"type": "object", "required": req}]}
    order = rng.shuffle(list(defs))
    props = {"item": {"$ref": f"#/definitions/{child}"}}
    if rng.chance(1, 2):
        props["first"] = {"$ref": f"#/definitions/{twin_a}"}
    if rng.chance(1, 2):
        props["second"] = {"$ref": f"#/definitions/{twin_b}"}
    doc = {"title": "Model", "type": "object", "properties": props, "definitions": {k: defs[k] for k in order}}
    return doc, {f"kind:{kind}", f"wrap:{w}", f"shape:{shape}"}


# ---------------------------------------------------------------------------------------------
# the real parser, observed between its passes
def _options(style: str, gopts: dict) -> dict:
    from datamodel_code_generator.model import pydantic as p1
    from datamodel_code_generator.model import pydantic_v2 as p2

    mod = p1 if style == "v1" else p2
    return dict(
        data_model_type=mod.BaseModel,
        data_model_root_type=mod.RootModel if style == "v2" else mod.CustomRootType,
        data_type_manager_type=mod.DataTypeManager,
        data_model_field_type=mod.DataModelField,
        **gopts,
    )


def reachable_uses(models: list) -> list:
    """every DataType with a reference that a model which is written can show: the types of its members (all levels,
    map keys too) and its base-class list — in a deterministic order, by identity"""
    seen: set[int] = set()
    out = []

    def add(dt) -> None:
        if id(dt) in seen:
            return
        seen.add(id(dt))
        if getattr(dt, "reference", None) is not None:
            out.append(dt)

    def walk(dt, depth: int = 0) -> None:
        if depth > 40:
            return
        add(dt)
        for sub in getattr(dt, "data_types", None) or []:
            walk(sub, depth + 1)
        if getattr(dt, "dict_key", None) is not None:
            walk(dt.dict_key, depth + 1)

    for m in models:
        for b in getattr(m, "base_classes", None) or []:
            add(b)
        for f in getattr(m, "fields", None) or []:
            if getattr(f, "data_type", None) is not None:
                walk(f.data_type)
    return out


class Store:
    """identities as small numbers; references by path. `kids[r]` = the DataType children of reference r that are
    reachable uses or were seen before (others get fresh numbers), `ref_of[u]`"""

    def __init__(self) -> None:
        self.uid: dict[int, int] = {}
        self.rid: dict[int, int] = {}
        self.keep: list = []  # keeps the objects alive (ids must not be reused)
        self.obj: dict[int, Any] = {}
        self.ref_paths: list[str] = []

    def u(self, o) -> int:
        if id(o) not in self.uid:
            self.uid[id(o)] = len(self.uid)
            self.keep.append(o)
            self.obj[self.uid[id(o)]] = o
        return self.uid[id(o)]

    def r(self, ref) -> int:
        if id(ref) not in self.rid:
            self.rid[id(ref)] = len(self.rid)
            self.keep.append(ref)
            self.ref_paths.append(ref.path)
        return self.rid[id(ref)]

    def snapshot(self, models: list) -> dict:
        from datamodel_code_generator.types import DataType

        uses = reachable_uses(models)
        refs = []
        for m in models:
            if getattr(m, "reference", None) is not None:
                refs.append(m.reference)
        for dt in uses:
            refs.append(dt.reference)
        kids: dict[int, list[int]] = {}
        for ref in refs:
            ri = self.r(ref)
            if ri not in kids:
                kids[ri] = [self.u(c) for c in ref.children if isinstance(c, DataType)]
        ref_of = {self.u(dt): self.r(dt.reference) for dt in uses}
        owner = {}
        for m in models:
            for dt in reachable_uses([m]):
                owner.setdefault(self.u(dt), getattr(m, "class_name", "?"))
        top = {id(f.data_type) for m in models for f in getattr(m, "fields", None) or []} | {id(b) for m in models for b in getattr(m, "base_classes", None) or []}
        nested = {self.u(dt): id(dt) not in top for dt in uses}
        return {"uses": [self.u(dt) for dt in uses], "kids": kids, "ref_of": ref_of, "owner": owner, "nested": nested,
                "models": [self.r(m.reference) for m in models if getattr(m, "reference", None) is not None]}


class Observed:
    """one real `Parser.parse()` with a snapshot of the store after `parse_raw()` and after every private pass of
    `Parser` that is handed the list of models"""

    def __init__(self, doc: dict, style: str, gopts: dict) -> None:
        from datamodel_code_generator.model.base import DataModel
        from datamodel_code_generator.parser.base import Parser
        from datamodel_code_generator.parser.jsonschema import JsonSchemaParser

        self.stages: list[tuple[str, dict]] = []
        self.enum_drops: list[tuple[int, list[int], dict, dict]] = []
        self.error = ""
        self.store = Store()
        with warnings.catch_warnings():
            warnings.simplefilter("ignore")
            p = JsonSchemaParser(json.dumps({k: v for k, v in doc.items() if k != "x-draft4"}), **_options(style, gopts))
            self.parser = p
            orig_parse_raw = p.parse_raw

            def parse_raw_then_snapshot(*a, **k):
                r = orig_parse_raw(*a, **k)
                self.stages.append(("parse_raw", self.store.snapshot(list(p.results))))
                return r

            p.parse_raw = parse_raw_then_snapshot  # type: ignore[method-assign]
            prefix = "_Parser__"
            for name in dir(Parser):
                if not name.startswith(prefix):
                    continue
                fn = getattr(p, name, None)
                if not callable(fn):
                    continue
                self._wrap(p, name, fn, DataModel)
            try:
                self.result = p.parse()
            except Exception as e:  # noqa: BLE001
                self.error = f"{type(e).__name__}: {str(e)[:200]}"
                self.result = None

    def _wrap(self, p, name: str, fn, DataModel) -> None:
        short = name[len("_Parser__"):]

        def wrapper(*a, **k):
            models = a[0] if a and isinstance(a[0], list) and all(isinstance(m, DataModel) for m in a[0]) else None
            before = self.store.snapshot(list(models)) if models is not None and short == "reuse_model" else None
            if before is not None:
                self.reuse_models_before = list(models)
                self.reuse_keys_before = {}
                for m in models:
                    try:
                        self.reuse_keys_before[self.store.r(m.reference)] = (type(m).__name__, m.render(class_name="M"), tuple(sorted(str(i) for i in m.imports)))
                    except Exception:  # noqa: BLE001
                        pass
            r = fn(*a, **k)
            if models is not None:
                after = self.store.snapshot(list(models))
                self.stages.append((short, after))
                if before is not None:
                    self.reuse = (before, after)
                    # the reference of every use the pass was given, read right after the pass
                    self.reuse_refs_after = {}
                    for u in before["uses"]:
                        ref = self.store.obj[u].reference
                        self.reuse_refs_after[u] = None if ref is None else self.store.r(ref)
            return r

        setattr(p, name, wrapper)

    reuse: tuple[dict, dict] | None = None
    reuse_models_before: list = []
    reuse_keys_before: dict = {}
    reuse_refs_after: dict = {}


def unregistered(snap: dict) -> list[int]:
    """harness-side reading of the invariant (the Lean driver decides it too; the two must agree)"""
    return [u for u in snap["uses"] if u not in snap["kids"].get(snap["ref_of"][u], [])]


# ---------------------------------------------------------------------------------------------
# Lean side
def sx_list(xs) -> str:
    return "(" + " ".join(str(x) for x in xs) + ")"


def request(snap: dict, ops: list[tuple[int, int, list[int]]]) -> str:
    ks = " ".join("(%d %s)" % (r, sx_list(us)) for r, us in sorted(snap["kids"].items()))
    rs = " ".join("(%d %d)" % (u, r) for u, r in sorted(snap["ref_of"].items()))
    os_ = " ".join("(%d %d %s)" % (d, t, sx_list(m)) for d, t, m in ops)
    return f"refkids.run ({ks}) ({rs}) {sx_list(snap['uses'])} ({os_})"


def parse_reply(rep: str):
    """ok <0|1> (unregistered…) ((left behind after op 1…) …) ((use ref) …)"""
    if not rep.startswith("ok "):
        return rep
    toks = rep[3:].replace("(", " ( ").replace(")", " ) ").split()

    def rd(i):
        if toks[i] == "(":
            out, i = [], i + 1
            while toks[i] != ")":
                v, i = rd(i)
                out.append(v)
            return out, i + 1
        return (None if toks[i] == "-" else int(toks[i])), i + 1

    reg, i = rd(0)
    unreg, i = rd(i)
    left, i = rd(i)
    refs, _ = rd(i)
    return {"registered": bool(reg), "unregistered": unreg, "left_behind": left, "ref_of": {u: r for u, r in refs}}


# ---------------------------------------------------------------------------------------------
# trigger of the family, read off a document (part of the failure classification of c14.eval_pair)
def _target_kind(doc: dict, ref: str) -> str:
    if not ref.startswith("#/definitions/"):
        return "other"
    t = (doc.get("definitions") or {}).get(ref[len("#/definitions/"):])
    if not isinstance(t, dict):
        return "other"
    if "enum" in t:
        return "enum"
    if t.get("type") == "object" or "properties" in t or "allOf" in t:
        return "object"
    return "root"


def _member_kind(doc: dict, s: Any) -> str | None:
    """`direct_<kind>` for a member that is a `$ref`, `container_<kind>` for an array / map / union of a `$ref`"""
    if not isinstance(s, dict):
        return None
    if isinstance(s.get("$ref"), str):
        return "direct_" + _target_kind(doc, s["$ref"])
    inner = []
    if isinstance(s.get("items"), dict):
        inner.append(s["items"])
    if isinstance(s.get("additionalProperties"), dict):
        inner.append(s["additionalProperties"])
    for k in ("anyOf", "oneOf"):
        if isinstance(s.get(k), list):
            inner += [x for x in s[k] if isinstance(x, dict)]
    for x in inner:
        if isinstance(x.get("$ref"), str):
            return "container_" + _target_kind(doc, x["$ref"])
    return None


def _inherited_member(doc: dict, s: dict, name: str, depth: int = 0) -> Any:
    """the declaration of `name` in a schema reached through the `$ref` members of `allOf` (None when not found)"""
    if depth > 8:
        return None
    for item in s.get("allOf") or []:
        if not isinstance(item, dict):
            continue
        if isinstance(item.get("$ref"), str) and item["$ref"].startswith("#/definitions/"):
            b = (doc.get("definitions") or {}).get(item["$ref"][len("#/definitions/"):])
            if isinstance(b, dict):
                if isinstance(b.get("properties"), dict) and name in b["properties"]:
                    return b["properties"][name]
                for sub in [x for x in b.get("allOf") or [] if isinstance(x, dict) and isinstance(x.get("properties"), dict)]:
                    if name in sub["properties"]:
                        return sub["properties"][name]
                found = _inherited_member(doc, b, name, depth + 1)
                if found is not None:
                    return found
    return None


def required_only_kinds(doc: dict) -> list[str]:
    """kinds of the inherited members that an `allOf` schema of the document re-declares ONLY through `required`
    (what `Parser.__override_required_field` copies from the base class), sorted, without repetitions"""
    out: set[str] = set()
    for s in [doc, *(doc.get("definitions") or {}).values()]:
        if not isinstance(s, dict) or not isinstance(s.get("allOf"), list):
            continue
        own = set((s.get("properties") or {}).keys())
        req = list(s.get("required") or [])
        for item in s["allOf"]:
            if isinstance(item, dict) and "$ref" not in item:
                own |= set((item.get("properties") or {}).keys())
                req += list(item.get("required") or [])
        for name in req:
            if name in own:
                continue
            k = _member_kind(doc, _inherited_member(doc, s, name))
            if k:
                out.add(k)
    return sorted(out)


def required_only(doc: dict) -> tuple[str, str]:
    """two labels for the classification: the target kinds (enum / object / other / root, sorted, joined by `+`; `none`
    when there is no such member) of the re-declared members that are a direct `$ref`, and of those that are a
    container (array / map / union) of a `$ref`"""
    ks = required_only_kinds(doc)
    d = "+".join(k[len("direct_"):] for k in ks if k.startswith("direct_")) or "none"
    c = "+".join(k[len("container_"):] for k in ks if k.startswith("container_")) or "none"
    return d, c


# ---------------------------------------------------------------------------------------------
# campaigns
SUSPECTS: list[tuple[dict, str]] = []  # (document, style) on which the bookkeeping obligations broke — for the search

# stages after which the passes that walk `children` (or decide by them) have all run: from the collapse pass on the
# invariant is only counted (a collapsed use is a copy of the root model's type on purpose)
WALKERS_DONE = "collapse_root_models"


def _drops(o: "Observed") -> tuple[dict, dict, list[tuple[int, int, list[int]]], list[tuple[int, int, bool]]] | None:
    """what the real `Parser.__reuse_model` was given and did: (store before, store after, [(dropped, kept, children
    that take part)], [(use naming a dropped model, dropped, nested?)] for the uses that do NOT take part)"""
    from datamodel_code_generator.parser.base import get_most_of_parent

    if o.reuse is None:
        return None
    before, after = o.reuse
    gone = [r for r in before["models"] if r not in after["models"]]
    ops, outsiders = [], []
    models_before = o.reuse_models_before
    key_of = o.reuse_keys_before
    for d in gone:
        if key_of.get(d, ("",))[0] != "Enum":
            continue  # a duplicate class is replaced by `class D(K): pass` under the same name: its uses are not re-pointed
        # the survivor: the first model, in the order the pass sees them, with the same key (rendering + imports)
        t = next((r for r in before["models"] if key_of.get(r) == key_of.get(d) and r != d), None)
        if t is None:
            continue
        mask = []
        for u in before["kids"].get(d, []):
            obj = o.store.obj.get(u)
            owner = get_most_of_parent(obj) if obj is not None else None
            if any(owner is m for m in models_before):
                mask.append(u)
        ops.append((d, t, mask))
        for u in before["uses"]:
            if before["ref_of"][u] == d and u not in mask and u in before["kids"].get(d, []):
                outsiders.append((u, d, before["nested"].get(u, False)))
    return before, after, ops, outsiders


def campaign_bookkeeping(ck, n: int) -> None:
    camp = ck.campaign("Model.RefChildren on the REAL Parser.parse(): `registered` (decided by the Lean driver) on the store after parse_raw() and "
                       "after every pass up to the last one that walks Reference.children; every use of a model dropped by Parser.__reuse_model "
                       "takes part; `redirectAll` vs the reference of every use after the real pass — family: inherited members re-declared only "
                       "through `required` (direct / array / map / nullable / union of a $ref to a twin enum, root model or object)")
    t0 = time.time()
    rng = ck.rng.fork("refkids-book")
    off = rng.below(len(KINDS) * len(WRAPS) * len(SHAPES))
    reqs, meta = [], []
    for i in range(n):
        doc, feats = family_doc(rng.fork(str(i)), off + i)
        for f in feats:
            camp.hit(f"feature:{f}")
        style = STYLES[i % 2]
        for gopts in ({"reuse_model": True}, {"reuse_model": True, "collapse_root_models": True}) if i % 3 else ({"reuse_model": True},):
            try:
                o = Observed(doc, style, gopts)
            except Exception as e:  # noqa: BLE001
                camp.unmodelled += 1
                camp.hit(f"observer-raised:{type(e).__name__}")
                continue
            if o.error:
                camp.unmodelled += 1
                camp.hit(f"parse-raised:{o.error.split(':')[0]}")
                continue
            done = False
            for name, snap in o.stages:
                if name == WALKERS_DONE:
                    done = True
                if done:
                    if unregistered(snap):
                        camp.hit(f"after {name}: unregistered uses (counted only)")
                    continue
                reqs.append(request(snap, []))
                meta.append(("stage", doc, style, gopts, name, snap, o))
            dr = _drops(o)
            if dr is None:
                camp.hit("pass __reuse_model not observed")
                continue
            before, after, ops, outsiders = dr
            camp.hit(f"drops={len(ops)}")
            reqs.append(request(before, ops))
            meta.append(("reuse", doc, style, gopts, (before, after, ops, outsiders), None, o))
    replies = ck.driver.run(reqs)
    for (what, doc, style, gopts, x, snap, o), rep in zip(meta, replies):
        camp.evaluations += 1
        model = parse_reply(rep)
        inp = {"doc": doc, "style": style, "options": gopts}
        if not isinstance(model, dict):
            ck.infra_errors.append(f"driver reply {rep!r} for refkids.run")
            continue
        if what == "stage":
            mine = unregistered(snap)
            camp.hit(f"stage:{x}")
            if mine != model["unregistered"]:
                ck.infra_errors.append(f"harness and driver disagree on the unregistered uses: {mine} vs {model['unregistered']}")
            if not model["registered"]:
                SUSPECTS.append((doc, style))
                ck.disagree(camp, {**inp, "stage": x}, "every use reachable from a member or base-class list is in the children of its reference",
                            "not registered: " + ", ".join(f"a use in class {snap['owner'].get(u)} of {o.store.ref_paths[snap['ref_of'][u]]}" for u in model["unregistered"][:4]))
            continue
        before, after, ops, outsiders = x
        camp.distinct.add(hash((semgen.canon(doc), style, json.dumps(gopts, sort_keys=True))))
        # (a) hypothesis "every use of the dropped model takes part"
        for u, d, nested in outsiders:
            # (repaired by 762c5b6: the nested type of a re-declared container member used to have no `parent` — former D46 —
            #  and is now held to the same hypothesis as every other use)
            SUSPECTS.append((doc, style))
            ck.disagree(camp, {**inp, "stage": "reuse_model"}, "every use of the dropped model belongs to a model of the module (takes part)",
                        f"the use in class {before['owner'].get(u)} of {o.store.ref_paths[d]} is a child of the reference but its owner is not found")
        # (b) the model's re-pointing against the real one, on every use
        real = dict(o.reuse_refs_after)
        if model["ref_of"] != real:
            SUSPECTS.append((doc, style))
            ck.disagree(camp, {**inp, "stage": "reuse_model", "drops": ops}, model["ref_of"], real)
        elif len(camp.samples) < 2 and ops:
            camp.samples.append({**inp, "drops": ops, "uses": before["uses"], "left_behind": model["left_behind"]})
        # (c) conclusion of `redirect_leaves_no_use`, read off the model's run: nobody names a dropped model
        if any(model["left_behind"][k] for k in range(len(model["left_behind"]))):
            camp.hit("a use still names a dropped model after the pass")
    camp.wall_s = time.time() - t0


STYLES = ("v1", "v2")


def rewriting_variants() -> list:
    from . import c14

    return [v for v in c14.VARIANTS if any(k in v[0] for k in REWRITING)]


def family_tasks(rng, n: int, off: int, both_styles: bool, camp=None) -> list[tuple]:
    tasks = []
    var = rewriting_variants()
    for i in range(n):
        doc, feats = family_doc(rng.fork(str(i)), off + i)
        if camp is not None:
            for f in feats:
                camp.hit(f"feature:{f}")
        for st in STYLES if both_styles else (STYLES[(i // 2) % 2],):
            tasks.append((doc, st, var))
    return tasks


def campaign_family(ck, n: int, both_styles: bool) -> None:
    """the property's own oracle on the family: the option-free baseline against every variant that contains
    reuse_model / collapse_root_models — same verdicts on the instance corpus, same reported schemas, every class usable"""
    from . import c14

    camp = ck.campaign("differential oracle between two REAL runs, family: allOf child / grandchild re-declares inherited members only through "
                       "`required`, member type = direct / array / map / nullable / union of a $ref to a definition with a twin (enum, root model, "
                       "object): baseline vs every variant with reuse_model or collapse_root_models")
    t0 = time.time()
    rng = ck.rng.fork("refkids-e2e")
    c14.run_tasks(ck, camp, family_tasks(rng, n, rng.below(len(KINDS) * len(WRAPS) * len(SHAPES)), both_styles, camp))
    camp.wall_s = time.time() - t0


def search(ck) -> None:
    """after a broken obligation: the documents on which the bookkeeping broke are complete documents — the property's
    oracle on them first (every variant that rewrites uses, both styles), then more of the family"""
    from . import c14

    camp = ck.campaign("search: documents on which the bookkeeping obligations broke, then more of the family, under the variants that rewrite uses")
    var = rewriting_variants()
    seen, tasks = set(), []
    for doc, _st in SUSPECTS:
        k = semgen.canon(doc)
        if k in seen:
            continue
        seen.add(k)
        for st in STYLES:
            tasks.append((doc, st, var))
        if len(seen) >= 12:
            break
    c14.run_tasks(ck, camp, tasks)
    if ck.failures:
        return
    rng = ck.rng.fork("refkids-search")
    c14.run_tasks(ck, camp, family_tasks(rng, 140, 0, True))
