"""C07, discriminator members (Parser.__apply_discriminator_type, parser/base.py).

A oneOf/anyOf with `discriminator` makes the parser look up, in every variant class, the member that carries the
tag, turn it into a Literal, CREATE it when the variant does not declare it, and rewrite
`discriminator['propertyName']` in place to the sanitised identifier.  The same discriminator dict can be visited
more than once (collapsed root models share the root's extras dict, ...).

This file owns
  * the document family (tag names that need sanitising x variants that declare / do not declare the tag x the
    union reached once / twice x use_annotated / field_constraints x model kinds) and C07's own oracle on the
    emitted module: every member name a legal identifier, no identifier declared twice in one class, alias maps
    back to the wire name, a tagged instance keyed by WIRE names validates and dumps back by_alias;
  * the observation of the real pass (wrapper around Parser._Parser__apply_discriminator_type) compared with the
    Lean model Dcg/Model/DiscrVisit through the driver handler `discr.visits`;
  * the search hook that replays disagreeing shapes as complete documents.
"""
from __future__ import annotations

import ast
import dataclasses
import json
import keyword
import time
from typing import Any

from .. import e2e
from ..common import Rng
from ..runner import Check

# ---------------------------------------------------------------- the family
# tag names: (wire name, needs --snake-case-field to be sanitised)
TAGS_SANITISED = ["@type", "$type", "pet-type", "object type", "_kind", "1st", "class", "type-", "x.kind", "schema", "copy"]
TAGS_CAMEL = ["petType", "objectKind", "TypeName"]
TAGS_PLAIN = ["kind", "type", "pet_type"]

REACHES = ["inline", "named", "collapse", "two_props", "two_props_collapse", "allof_variants", "array_collapse", "nested"]

KINDS = ["pydantic_v2.BaseModel", "pydantic.BaseModel", "dataclasses.dataclass", "typing.TypedDict"]


def sanitised_guess(tag: str) -> str:
    """the member another property must be called to collide with the tag AFTER sanitising (only used to build inputs)"""
    out = "".join(ch if (ch.isalnum() or ch == "_") else "_" for ch in tag)
    return out


def build_doc(shape: dict) -> dict:
    """shape → OpenAPI document.  shape keys:
    tag: wire name of the discriminator property; variants: list of {name, declares: bool, decl: 'string'|'enum'|'const',
    extra: [property names], tagval}; mapping: bool; reach: one of REACHES; union: 'oneOf'|'anyOf'"""
    tag = shape["tag"]
    schemas: dict[str, Any] = {}
    variants = shape["variants"]
    for v in variants:
        props: dict[str, Any] = {}
        if v["declares"]:
            if v.get("decl") == "enum":
                props[tag] = {"type": "string", "enum": [v["tagval"]]}
            elif v.get("decl") == "const":
                props[tag] = {"type": "string", "const": v["tagval"]}
            else:
                props[tag] = {"type": "string"}
        for i, e in enumerate(v["extra"]):
            props[e] = {"type": "integer"} if i % 2 == 0 else {"type": "boolean"}
        # declaration order: the tag first or last
        if v.get("tag_last"):
            props = dict(reversed(list(props.items())))
        obj: dict[str, Any] = {"type": "object", "properties": props}
        if v["declares"]:
            obj["required"] = [tag]
        if shape["reach"] == "allof_variants":
            base = v["name"] + "Base"
            schemas[base] = {"type": "object", "properties": {"common_" + v["name"].lower(): {"type": "string"}}}
            schemas[v["name"]] = {"allOf": [{"$ref": f"#/components/schemas/{base}"}, obj]}
        else:
            schemas[v["name"]] = obj
    disc: dict[str, Any] = {"propertyName": tag}
    if shape["mapping"]:
        disc["mapping"] = {v["tagval"]: f"#/components/schemas/{v['name']}" for v in variants}
    union = {shape.get("union", "oneOf"): [{"$ref": f"#/components/schemas/{v['name']}"} for v in variants], "discriminator": disc}
    reach = shape["reach"]
    ref = {"$ref": "#/components/schemas/Pet"}
    if reach == "inline":
        schemas["Owner"] = {"type": "object", "properties": {"pet": union}}
    elif reach in ("named", "collapse", "allof_variants"):
        schemas["Pet"] = union
        schemas["Owner"] = {"type": "object", "properties": {"pet": ref}}
    elif reach in ("two_props", "two_props_collapse"):
        schemas["Pet"] = union
        schemas["Owner"] = {"type": "object", "properties": {"pet": ref, "other": ref}}
    elif reach == "array_collapse":
        schemas["Pet"] = union
        schemas["Owner"] = {"type": "object", "properties": {"pet": ref, "pets": {"type": "array", "items": ref}}}
    elif reach == "nested":
        # a second union with its own discriminator dict (same tag) over the same variants, next to the named one
        schemas["Pet"] = union
        schemas["Owner"] = {"type": "object", "properties": {"pet": ref, "other": json.loads(json.dumps(union))}}
    else:
        raise ValueError(reach)
    return {"openapi": "3.0.0", "info": {"title": "t", "version": "1"}, "paths": {}, "components": {"schemas": schemas}}


def shape_opts(shape: dict) -> dict:
    o: dict[str, Any] = {}
    if shape["reach"] in ("collapse", "two_props_collapse", "array_collapse") or shape.get("collapse"):
        o["collapse_root_models"] = True
    if shape.get("annotated"):
        o["use_annotated"] = True
    if shape.get("constraints") or shape.get("annotated"):
        o["field_constraints"] = True  # (use_annotated is refused without field_constraints)
    if shape.get("snake"):
        o["snake_case_field"] = True
    return o


def tag_values(shape: dict) -> dict[str, str]:
    """variant name → the value of the tag that selects it"""
    return {v["name"]: (v["tagval"] if shape["mapping"] else v["name"]) for v in shape["variants"]}


# ---------------------------------------------------------------- the oracle
def class_members(code: str) -> dict[str, list[str]]:
    out: dict[str, list[str]] = {}
    for node in ast.parse(code).body:
        if isinstance(node, ast.ClassDef):
            out[node.name] = [s.target.id for s in node.body if isinstance(s, ast.AnnAssign) and isinstance(s.target, ast.Name)
                              and s.target.id != "__root__"]  # (pydantic v1's root-model slot is not a member name)
    return out


def wire_members(cls, kind: str) -> list[tuple[str, str]]:
    if kind == "pydantic_v2.BaseModel":
        return [(n, f.alias if f.alias is not None else n) for n, f in cls.model_fields.items()]
    if kind == "pydantic.BaseModel":
        return [(n, f.alias) for n, f in cls.__fields__.items()]
    raise ValueError(kind)


def case(ck: Check, camp, shape: dict, kind: str, timeout: float = 15.0, observe: list | None = None) -> None:
    """shape → document → real generate() → C07's oracle on the emitted classes"""
    camp.evaluations += 1
    tag = shape["tag"]
    opts = shape_opts(shape)
    decl = "".join("d" if v["declares"] else "-" for v in shape["variants"])
    camp.hit("kind:" + kind)
    camp.hit("reach:" + shape["reach"])
    camp.hit("declares:" + ("all" if "-" not in decl else "none" if "d" not in decl else "mixed"))
    camp.hit("tag:" + ("identifier" if tag.isidentifier() and not keyword.iskeyword(tag) else "needs_sanitising"))
    for k in ("annotated", "constraints", "snake", "mapping"):
        if shape.get(k):
            camp.hit("opt:" + k)
    doc = build_doc(shape)
    inp = {"discr_shape": shape, "model": kind, "opts": opts, "document": doc}
    # trigger: another member of a variant has the identifier the tag is sanitised to (classification only)
    collide = any(e != tag and sanitised_guess(e) == sanitised_guess(tag) for v in shape["variants"] for e in v["extra"])
    base = {"oracle": "e2e_discriminator_member", "kind": kind, "trigger": "sibling_sanitises_to_tag" if collide else "none",
            "reach": shape["reach"]}
    if observe is not None:
        from . import c07_discr_obs

        res, rec = c07_discr_obs.run_observed(doc, kind, opts, timeout, tag_values(shape))
        observe.append((shape, kind, rec))
    else:
        res = e2e.run_generate(json.dumps(doc), input_file_type="openapi", model=kind, opts=opts, timeout=timeout)
    if res.hang:
        ck.fail({**base, "mechanism": "hang"}, inp, f"generate() did not return within {timeout:g} s")
        return
    if not res.ok:
        ck.fail({**base, "mechanism": "generate_error"}, inp, f"generate() raised {res.error_type}: {res.error_msg}")
        return
    err = e2e.parses(res.code)
    if err:
        ck.fail({**base, "mechanism": "unparsable"}, inp, f"emitted module does not parse: {err}")
        return
    camp.distinct.add((json.dumps(shape, sort_keys=True), kind))
    members = class_members(res.code)
    vnames = [v["name"] for v in shape["variants"]]
    bad = False
    for cname, ms in members.items():
        for m in ms:
            if not m.isidentifier() or keyword.iskeyword(m):
                bad = ck.fail({**base, "mechanism": "illegal_identifier"}, inp, f"class {cname}: member {m!r} is not a legal identifier") or bad
            elif m.startswith("_") and kind.startswith("pydantic"):
                bad = ck.fail({**base, "mechanism": "leading_underscore"}, inp, f"class {cname}: member {m!r} starts with an underscore") or bad
        dup = sorted({m for m in ms if ms.count(m) > 1})
        if dup:
            bad = ck.fail({**base, "mechanism": "duplicate_member"}, inp,
                          f"class {cname} declares {dup!r} more than once: {ms!r}") or bad
    if kind == "typing.TypedDict" and "= TypedDict(" in res.code:
        pass  # functional syntax: keys are the wire names, checked below through the annotations
    if not kind.startswith("pydantic"):
        # dataclass: no alias mechanism; TypedDict: the discriminator pass does not apply. Identifiers and uniqueness are
        # judged on the syntax tree above (whether a dataclass with a required member after optional ones can be
        # imported is a statement about member ORDER, not about names: not C07's)
        return
    try:
        mod = e2e.load_module(res.code, kind)
    except BaseException as e:  # noqa: BLE001
        if isinstance(e, (KeyboardInterrupt, SystemExit)):
            raise
        ck.fail({**base, "mechanism": "import_error"}, inp, f"importing the emitted module raised {type(e).__name__}: {str(e).splitlines()[0][:200] if str(e) else ''}")
        return
    try:
        if not kind.startswith("pydantic"):
            return  # dataclass: no alias mechanism; TypedDict: the discriminator pass does not apply (members checked above)
        tv = tag_values(shape)
        for v in shape["variants"]:
            cls = getattr(mod, v["name"], None)
            if cls is None:
                ck.fail({**base, "mechanism": "member_count"}, inp, f"class {v['name']} not found in the emitted module")
                continue
            wm = wire_members(cls, kind)
            own = set(v["extra"]) | {tag}
            wires = [w for _, w in wm if w in own or w == tag]
            # the tag: exactly one member whose wire key is the discriminator's propertyName
            tags = [(n, w) for n, w in wm if w == tag]
            if len(tags) != 1:
                ck.fail({**base, "mechanism": "tag_wire_key"}, inp,
                        f"class {v['name']}: {len(tags)} members carry the wire name {tag!r} of the tag; members (name, wire key): {wm!r}")
            missing = sorted(own - {w for _, w in wm})
            if missing and len(tags) == 1:
                ck.fail({**base, "mechanism": "wire_key"}, inp, f"class {v['name']}: wire keys {missing!r} are lost; members (name, wire key): {wm!r}")
            del wires
        owner = getattr(mod, "Owner", None)
        if owner is None:
            ck.fail({**base, "mechanism": "member_count"}, inp, "class Owner not found in the emitted module")
            return
        props = list(build_doc(shape)["components"]["schemas"]["Owner"]["properties"])
        for v in shape["variants"]:
            body: dict[str, Any] = {tag: tv[v["name"]]}
            for i, e in enumerate(v["extra"]):
                body[e] = (i + 3) if i % 2 == 0 else True
            for p in props:
                inst = {p: [body] if p == "pets" else body}
                try:
                    if kind == "pydantic_v2.BaseModel":
                        back = owner.model_validate(inst).model_dump(by_alias=True, exclude_unset=True)
                    else:
                        back = owner.parse_obj(inst).dict(by_alias=True, exclude_unset=True)
                except Exception as e:  # noqa: BLE001
                    back = f"{type(e).__name__}: {str(e)[:200]}"
                if back != inst:
                    ck.fail({**base, "mechanism": "roundtrip"}, inp, f"validate-then-dump of {inst!r} by wire names gave {back!r}")
        if len(camp.samples) < 3 and not tag.isidentifier():
            camp.samples.append({"tag": tag, "reach": shape["reach"], "kind": kind, "opts": opts,
                                 "variant_members": {v["name"]: wire_members(getattr(mod, v["name"]), kind) for v in shape["variants"]}})
    finally:
        e2e.unload(mod)


# ---------------------------------------------------------------- generators
VARIANT_NAMES = ["Cat", "Dog", "Bird"]
EXTRAS = ["lives", "bark", "wing-span", "size", "isGood"]


def gen_shape(rng: Rng, tag: str | None = None, reach: str | None = None) -> dict:
    snake = False
    if tag is None:
        r = rng.below(10)
        if r < 6:
            tag = rng.choice(TAGS_SANITISED)
        elif r < 8:
            tag = rng.choice(TAGS_CAMEL)
            snake = True
        else:
            tag = rng.choice(TAGS_PLAIN)
    elif tag in TAGS_CAMEL:
        snake = True
    if reach is None:
        reach = rng.choice(REACHES)
    n = 2 if rng.chance(3, 4) else 3
    mapping = rng.chance(2, 3)
    variants = []
    for i in range(n):
        name = VARIANT_NAMES[i]
        extra = [EXTRAS[(i * 2 + j) % len(EXTRAS)] for j in range(rng.below(3))]
        v = {"name": name, "declares": rng.chance(1, 2), "decl": rng.choice(["string", "string", "enum"]),
             "extra": extra, "tagval": name.lower(), "tag_last": rng.chance(1, 3)}
        variants.append(v)
    if rng.chance(1, 8):
        # a sibling member that sanitises to the identifier of the tag (unique wire names within the class)
        sib = sanitised_guess(tag)
        if sib != tag and sib.isidentifier() and not sib.startswith("_"):
            variants[0]["extra"].append(sib)
    shape = {"tag": tag, "variants": variants, "mapping": mapping, "reach": reach,
             "union": "oneOf" if rng.chance(3, 4) else "anyOf",
             "annotated": rng.chance(1, 3), "constraints": rng.chance(1, 3), "snake": snake or rng.chance(1, 6),
             "collapse": rng.chance(1, 5)}
    return shape


def stratified(rng: Rng) -> list[tuple[dict, str]]:
    """a few dozen cases: every reach x (sanitised tag, declared/undeclared mix) with rotating options and kinds"""
    out = []
    i = 0
    for reach in REACHES:
        for tag in (TAGS_SANITISED[i % len(TAGS_SANITISED)], TAGS_SANITISED[(i + 3) % len(TAGS_SANITISED)],
                    TAGS_CAMEL[i % len(TAGS_CAMEL)]):
            s = gen_shape(rng, tag, reach)
            s["variants"][0]["declares"] = True
            s["variants"][1]["declares"] = False
            s["annotated"] = i % 2 == 1
            s["constraints"] = i % 4 == 3
            kind = KINDS[0] if i % 3 != 2 else KINDS[1]
            out.append((s, kind))
            i += 1
    return out


CORPUS: list[tuple[dict, str]] = [
    # the union is a named schema, collapsed into the property that references it: both the root model and the
    # collapsed field hold the SAME discriminator dict
    ({"tag": "x-kind", "variants": [
        {"name": "Cat", "declares": True, "decl": "string", "extra": ["lives"], "tagval": "cat"},
        {"name": "Dog", "declares": False, "decl": "string", "extra": ["bark"], "tagval": "dog"}],
      "mapping": True, "reach": "collapse", "union": "oneOf", "annotated": a, "constraints": a, "snake": False}, k)
    for a in (False, True) for k in KINDS[:2]
]


def campaign(ck: Check, n: int) -> list:
    camp = ck.campaign("e2e discriminator members (oneOf/anyOf + discriminator documents, tag names that need sanitising x variants "
                       "declaring / not declaring the tag x the union reached once / twice x options → real generate() → import → "
                       "legal identifiers, no member declared twice, exactly one member under the tag's wire name, round trip by wire names)")
    t0 = time.time()
    rng = ck.rng.fork("discr")
    observed: list = []
    todo = list(CORPUS) + stratified(rng)
    for i in range(n):
        todo.append((gen_shape(rng), KINDS[i % len(KINDS)] if i % 5 else KINDS[0]))
    for shape, kind in todo:
        if any(f.classification.get("mechanism") == "hang" for f in ck.failures):
            break
        case(ck, camp, shape, kind, observe=observed if OBSERVE else None)
    camp.wall_s = time.time() - t0
    return observed


OBSERVE = True


def run_campaigns(ck: Check, n: int) -> None:
    from . import c07_discr_obs

    observed = campaign(ck, n)
    c07_discr_obs.correspond(ck, observed)


def search(ck: Check) -> None:
    """Targeted search when a proof or a correspondence broke: the stratified family and a fresh stream, end to end."""
    camp = ck.campaign("search: discriminator documents, end to end")
    rng = ck.rng.fork("discrsearch")
    # the shapes on which the real pass and the model disagree, as complete documents under the option variants
    seen = set()
    for d in ck.disagreements:
        inp = d.input if isinstance(d.input, dict) else {}
        if "discr_shape" not in inp:
            continue
        key = json.dumps(inp["discr_shape"], sort_keys=True)
        if key in seen or len(seen) >= 12:
            continue
        seen.add(key)
        for kind in KINDS[:2]:
            for ann in (False, True):
                case(ck, camp, {**inp["discr_shape"], "annotated": ann, "constraints": ann}, kind)
                if ck.failures:
                    return
    for shape, kind in list(CORPUS) + stratified(rng):
        case(ck, camp, shape, kind)
        if ck.failures:
            return
    for i in range(200):
        case(ck, camp, gen_shape(rng), KINDS[i % 2])
        if ck.failures:
            return


def replay_input(ck: Check, camp, inp: dict) -> None:
    case(ck, camp, inp["discr_shape"], inp["model"])
