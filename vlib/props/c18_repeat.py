"""C18 — histories: `main()` called again in the same interpreter.

The statement quantifies over configurations AND histories: a set of options supplied through pyproject.toml (or
as flags) must give what the same options give as `generate()` keywords EVERY time the command runs — also the
second and third time `datamodel_code_generator.__main__.main()` is called in one process (a build script or a
test-suite looping over schemas) while pyproject.toml is unchanged. Every call of such a history is compared with
the same call in a fresh process (and, through the three-ways campaign, with `generate()`): the oracle is the
three-ways oracle of the property, the history is one more way of running the command.

The option flags of all calls of one history are identical, so the module-level argparse Namespace (D18, the
subject of C08) cannot make a difference here; only `--output` changes from call to call.
"""
from __future__ import annotations

import json
import time

from ..runner import Check
from ..subproc import child_env, pmap, run_py

REPEAT_SCRIPT = r"""
import contextlib, io, json, sys
from pathlib import Path
calls = json.loads(sys.argv[1])
from datamodel_code_generator.__main__ import main
res = []
for c in calls:
    err, out = io.StringIO(), io.StringIO()
    r = {"rc": None, "raised": None, "timeout": False}
    try:
        with contextlib.redirect_stderr(err), contextlib.redirect_stdout(out):
            r["rc"] = int(main(c["argv"]))
    except SystemExit as e:
        r["rc"] = e.code if isinstance(e.code, int) else (0 if e.code is None else 1)
    except BaseException as e:      # what a fresh `python -m` turns into a traceback and exit status 1
        r["raised"] = f"{type(e).__name__}: {e}"[:300]
        r["rc"] = 1
    r["stderr"] = (err.getvalue().strip() or (r["raised"] or ""))[-400:]
    p = Path(c["out"])
    r["output"] = p.read_text() if p.is_file() else None
    res.append(r)
sys.stdout.write(json.dumps(res))
"""

BASE_ARGV = ["--input", "s.json", "--input-file-type", "jsonschema", "--disable-timestamp"]

# options whose pyproject / command-line value is a list, a comma separated string list or a file that a validator
# opens / rewrites: always run (every history length, both places)
STRUCTURED = {"additional_imports", "custom_formatters", "custom_formatters_kwargs", "field_extra_keys",
              "field_extra_keys_without_x_prefix", "aliases", "extra_template_data", "strict_types", "openapi_scopes",
              "http_headers", "http_query_parameters"}


def history(rn, opts: dict, mode: str, calls: int, raw_keys: dict | None = None, extra_argv: list[str] | None = None) -> list[dict]:
    """`calls` × main() in ONE interpreter; `mode`: where the options are ("pyproject" | "cli")"""
    from . import c18 as base

    d = rn._dir(opts if mode == "pyproject" else None, raw_keys if mode == "pyproject" else None)  # noqa: SLF001
    flags = list(extra_argv or [])
    if mode == "cli":
        for k, v in opts.items():
            flags += base.argv_of(rn.tab, k, v)
    spec = [{"argv": [*BASE_ARGV, "--output", f"out{i}.py", *flags], "out": f"out{i}.py"} for i in range(1, calls + 1)]
    p = run_py(["-c", REPEAT_SCRIPT, json.dumps(spec)], cwd=str(d), env=child_env())
    try:
        res = json.loads(p.out) if not p.timed_out and p.out.strip().startswith("[") else None
    except ValueError:
        res = None
    rn._collect(d, p)  # noqa: SLF001  (removes the directory)
    if res is None:
        return [{"rc": p.rc, "raised": None, "stderr": p.err.strip()[-400:], "output": None, "timeout": p.timed_out, "broken_child": True}] * calls
    return res


def judge(ck: Check, camp, rn, opts: dict, mode: str, hist: list[dict], fresh: dict, keyword: dict | None, extra: dict | None = None) -> None:
    from . import c18 as base

    name = "+".join(sorted(opts)) or "+".join(sorted(extra or {}))
    camp.evaluations += len(hist)
    camp.hit(f"mode:{mode}")
    camp.hit(f"calls:{len(hist)}")
    camp.hit("optionkind:" + "+".join(sorted(rn.tab[k]["kind"] if k in rn.tab else "pairs" for k in (opts or extra or {}))))
    if any(h.get("timeout") for h in hist) or fresh.get("timeout"):
        if all(h.get("timeout") for h in hist) and fresh.get("timeout"):
            camp.hit("every-run-hangs(C01/C07 domain)")
        else:
            ck.infra_errors.append(f"timeout in repeated main() {opts} {mode}")
        return
    if any(h.get("broken_child") for h in hist):
        ck.infra_errors.append(f"repeated main(): child produced no result for {opts} {mode}: {hist[0]['stderr'][-200:]}")
        return
    camp.distinct.add(json.dumps([opts, extra, mode, len(hist)], sort_keys=True, default=str))
    if fresh["rc"] != 0:
        camp.hit("rejected-in-every-run")
    for i, h in enumerate(hist, start=1):
        if base.same(h, fresh):
            continue
        mech = "raises" if h.get("raised") else "one-side-fails" if h["rc"] != fresh["rc"] else "output-differs"
        cls = {"oracle": "three_ways", "option": name, "value": "+".join(str(opts[x]) for x in sorted(opts)), "odd_one": "repeated-main",
               "mechanism": mech, "mode": mode, "call": i, "calls": len(hist)}
        obs = (f"main() call {i} of {len(hist)} in one process (options in {mode}): {base.describe(h)}"
               + (f" [main() raised {h['raised']}]" if h.get("raised") else "")
               + f"; the same call in a fresh process: {base.describe(fresh)}"
               + (f"; generate() with the same keywords: {base.describe(keyword)}" if keyword else ""))
        if mech == "output-differs":
            obs += "; first difference: " + base.first_diff(h["output"], fresh["output"])
        ck.fail(cls, {"kind": "repeated", "opts": opts, "mode": mode, "calls": len(hist), **({"extra": extra} if extra else {})}, obs,
                "every call gives what a fresh process and generate() give")
        return
    if len(camp.samples) < 3 and fresh["rc"] == 0:
        camp.samples.append({"opts": opts or extra, "mode": mode, "calls": len(hist), "result": "every call equals the fresh-process run"})


def option_sets(ck: Check, rn, every: bool) -> list[dict]:
    from . import c18 as base

    saved = ck.tier
    ck.tier = "thorough"
    try:
        allo = base.e2e_options(ck, rn)
    finally:
        ck.tier = saved
    if every:
        return allo
    must = [o for o in allo if set(o) & STRUCTURED]
    rng = ck.rng.fork("repeat-sample")
    strata: dict[str, list[dict]] = {}
    for o in allo:
        if o not in must:
            strata.setdefault(rn.tab[sorted(o)[0]]["kind"], []).append(o)
    picked = list(must)
    for _kind, pool in sorted(strata.items()):
        picked += rng.sample(pool, 1)
    return picked


def run_many(ck: Check, camp, rn, jobs: list[tuple[dict, str, int]], cache: dict) -> None:
    """jobs: (opts, mode, calls). Reference runs come from the three-ways cache when it has them."""
    way = {"pyproject": "pyproject", "cli": "cli"}

    def one(job):
        opts, mode, calls = job
        key = json.dumps(opts, sort_keys=True)
        ref = cache.get(key, {})
        fresh = ref.get(way[mode]) or (rn.cli(opts) if mode == "cli" else rn.cli({}, opts))
        keyword = ref.get("keyword")
        return job, history(rn, opts, mode, calls), fresh, keyword

    for (opts, mode, calls), hist, fresh, keyword in pmap(one, jobs):
        judge(ck, camp, rn, opts, mode, hist, fresh, keyword)


def campaign_repeated(ck: Check, rn, cache: dict) -> None:
    camp = ck.campaign("e2e histories: main() called 2 and 3 times in ONE interpreter (options in pyproject.toml / as the same flags "
                       "each time) → every call equals the same call in a fresh process and generate()")
    t0 = time.time()
    every = ck.tier == "thorough"
    sets = option_sets(ck, rn, every)
    rng = ck.rng.fork("repeat-mode")
    jobs: list[tuple[dict, str, int]] = []
    for o in sets:
        jobs.append((o, "pyproject", 3))      # the calls 1, 2 of a 3-call history are the 2-call history
        if every:
            jobs.append((o, "cli", 3))
            jobs.append((o, "pyproject", 2))
    if not every:
        structured = [o for o in sets if set(o) & STRUCTURED]
        jobs += [(o, "cli", 2) for o in rng.sample(structured, 3)]
    run_many(ck, camp, rn, jobs, cache)
    camp.wall_s = time.time() - t0


def search_repeated(ck: Check) -> None:
    """after a broken obligation / correspondence: every option, both places, histories of 2 and 3 calls"""
    from . import c18 as base

    rn = base.Runner()
    camp = ck.campaign("search: every option × (pyproject.toml | flags) × main() called 2 and 3 times in one interpreter")
    try:
        sets = option_sets(ck, rn, True)
        first = [o for o in sets if set(o) & STRUCTURED]
        rest = [o for o in sets if o not in first]
        for group in (first, rest):
            jobs = [(o, mode, n) for o in group for mode in ("pyproject", "cli") for n in (3, 2)]
            run_many(ck, camp, rn, jobs, {})
            if ck.failures:
                return
    finally:
        rn.close()


def rerun(ck: Check, camp, rn, inp: dict) -> None:
    opts, mode, calls = inp["opts"], inp["mode"], int(inp["calls"])
    if inp.get("extra"):
        from . import c18_kv

        c18_kv.rerun_repeated(ck, camp, rn, inp)
        return
    fresh = rn.cli(opts) if mode == "cli" else rn.cli({}, opts)
    keyword = rn.keyword(opts)
    judge(ck, camp, rn, opts, mode, history(rn, opts, mode, calls), fresh, keyword)
