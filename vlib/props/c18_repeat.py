"""C18 — histories: `main()` called again in the same interpreter.

The statement quantifies over configurations AND histories: a set of options supplied through pyproject.toml (or
as flags) must give what the same options give as `generate()` keywords EVERY time the command runs — also the
second and third time `datamodel_code_generator.__main__.main()` is called in one process (a build script or a
test-suite looping over schemas) while pyproject.toml is unchanged. Every call of such a history is compared with
the same call in a fresh process (and, through the three-ways campaign, with `generate()`): the oracle is the
three-ways oracle of the property, the history is one more way of running the command.

The option flags of all calls of one history are identical, so the module-level argparse Namespace (D18, the
subject of C08) cannot make a difference here; only `--output` changes from call to call.
"""
from __future__ import annotations

import json
import time

from ..runner import Check
from ..subproc import child_env, pmap
from .c18_pool import run_py

REPEAT_SCRIPT = r"""
import contextlib, io, json, sys
from pathlib import Path
calls = json.loads(sys.argv[1])
from datamodel_code_generator.__main__ import main
res = []
for c in calls:
    if c.get("pyproject") is not None:      # the project file is edited between two runs
        Path("pyproject.toml").write_text(c["pyproject"])
    err, out = io.StringIO(), io.StringIO()
    r = {"rc": None, "raised": None, "timeout": False}
    try:
        with contextlib.redirect_stderr(err), contextlib.redirect_stdout(out):
            r["rc"] = int(main(c["argv"]))
    except SystemExit as e:
        r["rc"] = e.code if isinstance(e.code, int) else (0 if e.code is None else 1)
    except BaseException as e:      # what a fresh `python -m` turns into a traceback and exit status 1
        r["raised"] = f"{type(e).__name__}: {e}"[:300]
        r["rc"] = 1
    r["stderr"] = (err.getvalue().strip() or (r["raised"] or ""))[-400:]
    p = Path(c["out"])
    r["output"] = p.read_text() if p.is_file() else None
    res.append(r)
sys.stdout.write(json.dumps(res))
"""

BASE_ARGV = ["--input", "s.json", "--input-file-type", "jsonschema", "--disable-timestamp"]

# options whose pyproject / command-line value is a list, a comma separated string list or a file that a validator
# opens / rewrites: always run (every history length, both places)
STRUCTURED = {"additional_imports", "custom_formatters", "custom_formatters_kwargs", "field_extra_keys",
              "field_extra_keys_without_x_prefix", "aliases", "extra_template_data", "strict_types", "openapi_scopes",
              "http_headers", "http_query_parameters"}


def history(rn, opts: dict, mode: str, calls: int, raw_keys: dict | None = None, extra_argv: list[str] | None = None) -> list[dict]:
    """`calls` × main() in ONE interpreter; `mode`: where the options are ("pyproject" | "cli")"""
    from . import c18 as base

    d = rn._dir(opts if mode == "pyproject" else None, raw_keys if mode == "pyproject" else None)  # noqa: SLF001
    flags = list(extra_argv or [])
    if mode == "cli":
        for k, v in opts.items():
            flags += base.argv_of(rn.tab, k, v)
    spec = [{"argv": [*BASE_ARGV, "--output", f"out{i}.py", *flags], "out": f"out{i}.py"} for i in range(1, calls + 1)]
    p = run_py(["-c", REPEAT_SCRIPT, json.dumps(spec)], cwd=str(d), env=child_env())
    try:
        res = json.loads(p.out) if not p.timed_out and p.out.strip().startswith("[") else None
    except ValueError:
        res = None
    rn._collect(d, p)  # noqa: SLF001  (removes the directory)
    if res is None:
        return [{"rc": p.rc, "raised": None, "stderr": p.err.strip()[-400:], "output": None, "timeout": p.timed_out, "broken_child": True}] * calls
    return res


def history_rewritten(rn, seq: list[dict]) -> list[dict]:
    """one main() call per element of `seq` in ONE interpreter; pyproject.toml is rewritten with the options of the
    element before its call"""
    d = rn._dir(seq[0])  # noqa: SLF001
    spec = [{"argv": [*BASE_ARGV, "--output", f"out{i}.py"], "out": f"out{i}.py", "pyproject": rn.pyproject_text(o)} for i, o in enumerate(seq, start=1)]
    p = run_py(["-c", REPEAT_SCRIPT, json.dumps(spec)], cwd=str(d), env=child_env())
    try:
        res = json.loads(p.out) if not p.timed_out and p.out.strip().startswith("[") else None
    except ValueError:
        res = None
    rn._collect(d, p)  # noqa: SLF001
    if res is None:
        return [{"rc": p.rc, "raised": None, "stderr": p.err.strip()[-400:], "output": None, "timeout": p.timed_out, "broken_child": True}] * len(seq)
    return res


def judge_rewritten(ck: Check, camp, rn, seq: list[dict], hist: list[dict], fresh: list[dict]) -> None:
    """call i of the history must give what a fresh process gives with the pyproject.toml of step i"""
    from . import c18 as base

    camp.evaluations += len(hist)
    camp.hit("mode:pyproject-rewritten-between-calls")
    if any(h.get("timeout") or h.get("broken_child") for h in hist) or any(f.get("timeout") for f in fresh):
        ck.infra_errors.append(f"repeated main() with rewritten pyproject: no result for {seq}: {hist[0].get('stderr', '')[-200:]}")
        return
    camp.distinct.add(json.dumps(["rewritten", seq], sort_keys=True))
    for i, (o, h, f) in enumerate(zip(seq, hist, fresh), start=1):
        if base.same(h, f):
            continue
        mech = "raises" if h.get("raised") else "one-side-fails" if h["rc"] != f["rc"] else "output-differs"
        cls = {"oracle": "three_ways", "option": "+".join(sorted(o)), "value": "+".join(str(o[x]) for x in sorted(o)), "odd_one": "repeated-main",
               "mechanism": mech, "mode": "pyproject-rewritten", "call": i, "calls": len(hist)}
        obs = (f"main() call {i} of {len(hist)} in one process, pyproject.toml rewritten before each call (now {o}): {base.describe(h)}"
               + (f" [main() raised {h['raised']}]" if h.get("raised") else "") + f"; a fresh process with this pyproject.toml: {base.describe(f)}")
        if mech == "output-differs":
            obs += "; first difference: " + base.first_diff(h["output"], f["output"])
        ck.fail(cls, {"kind": "repeated_rewritten", "seq": seq}, obs, "every call gives what a fresh process gives with the pyproject.toml of that moment")
        return
    if len(camp.samples) < 4:
        camp.samples.append({"pyproject_sequence": seq, "result": "every call equals the fresh-process run with the pyproject.toml of that moment"})


def rewritten_sequences(ck: Check, rn, every: bool) -> list[list[dict]]:
    """A → B → A for options with at least two accepted values"""
    from . import c18 as base

    rng = ck.rng.fork("repeat-rewrite")
    cands = []
    for d in sorted(rn.tab):
        o = rn.tab[d]
        if d in base.SKIP_E2E or d in base.META or d == "original_field_name_delimiter":
            continue
        vals = ["True", "False"] if o["kind"] == "bool" else [v for v in o["values"] if v not in base.FALSY]
        if len(vals) >= 2:
            cands.append((d, vals))
    must = [c for c in cands if c[0] in STRUCTURED and (every or c[0] in base.E2E_EXTRA)]   # quick: the validator-rewritten ones
    rest = [c for c in cands if c not in must]
    chosen = (must if every else rng.sample(must, 1)) + (rest if every else rng.sample(rest, 1))
    seqs = []
    for d, vals in chosen:
        a, b = (vals[0], vals[1]) if d in STRUCTURED or rn.tab[d]["kind"] == "bool" else tuple(rng.sample(vals, 2))
        seqs.append([{d: a}, {d: b}, {d: a}])
    return seqs


def run_rewritten(ck: Check, camp, rn, seqs: list[list[dict]], cache: dict) -> None:
    refs: dict[str, dict | None] = {}
    for seq in seqs:
        for o in seq:
            key = json.dumps(o, sort_keys=True)
            refs.setdefault(key, cache.get(key, {}).get("pyproject"))
    missing = [k for k, v in refs.items() if v is None]

    def thunk(item):
        kind, payload = item
        return rn.cli({}, json.loads(payload)) if kind == "ref" else history_rewritten(rn, payload)

    results = pmap(thunk, [("ref", k) for k in missing] + [("hist", s) for s in seqs])
    refs.update(zip(missing, results[: len(missing)]))
    for seq, hist in zip(seqs, results[len(missing):]):
        judge_rewritten(ck, camp, rn, seq, hist, [refs[json.dumps(o, sort_keys=True)] for o in seq])


def judge(ck: Check, camp, rn, opts: dict, mode: str, hist: list[dict], fresh: dict, keyword: dict | None, extra: dict | None = None) -> None:
    from . import c18 as base

    name = "+".join(sorted(opts)) or "+".join(sorted(extra or {}))
    camp.evaluations += len(hist)
    camp.hit(f"mode:{mode}")
    camp.hit(f"calls:{len(hist)}")
    camp.hit("optionkind:" + "+".join(sorted(rn.tab[k]["kind"] if k in rn.tab else "pairs" for k in (opts or extra or {}))))
    if any(h.get("timeout") for h in hist) or fresh.get("timeout"):
        if all(h.get("timeout") for h in hist) and fresh.get("timeout"):
            camp.hit("every-run-hangs(C01/C07 domain)")
        else:
            ck.infra_errors.append(f"timeout in repeated main() {opts} {mode}")
        return
    if any(h.get("broken_child") for h in hist):
        ck.infra_errors.append(f"repeated main(): child produced no result for {opts} {mode}: {hist[0]['stderr'][-200:]}")
        return
    camp.distinct.add(json.dumps([opts, extra, mode, len(hist)], sort_keys=True, default=str))
    if fresh["rc"] != 0:
        camp.hit("rejected-in-every-run")
    for i, h in enumerate(hist, start=1):
        if base.same(h, fresh):
            continue
        mech = "raises" if h.get("raised") else "one-side-fails" if h["rc"] != fresh["rc"] else "output-differs"
        cls = {"oracle": "three_ways", "option": name, "value": "+".join(str(opts[x]) for x in sorted(opts)), "odd_one": "repeated-main",
               "mechanism": mech, "mode": mode, "call": i, "calls": len(hist)}
        obs = (f"main() call {i} of {len(hist)} in one process (options in {mode}): {base.describe(h)}"
               + (f" [main() raised {h['raised']}]" if h.get("raised") else "")
               + f"; the same call in a fresh process: {base.describe(fresh)}"
               + (f"; generate() with the same keywords: {base.describe(keyword)}" if keyword else ""))
        if mech == "output-differs":
            obs += "; first difference: " + base.first_diff(h["output"], fresh["output"])
        ck.fail(cls, {"kind": "repeated", "opts": opts, "mode": mode, "calls": len(hist), **({"extra": extra} if extra else {})}, obs,
                "every call gives what a fresh process and generate() give")
        return
    if len(camp.samples) < 3 and fresh["rc"] == 0:
        camp.samples.append({"opts": opts or extra, "mode": mode, "calls": len(hist), "result": "every call equals the fresh-process run"})


def option_sets(ck: Check, rn, every: bool, cache: dict | None = None) -> list[dict]:
    from . import c18 as base

    saved = ck.tier
    ck.tier = "thorough"
    try:
        allo = base.e2e_options(ck, rn)
    finally:
        ck.tier = saved
    if every:
        return allo
    # quick: every structured option once (its first value; option SETS all), one option of every other kind —
    # preferring the option sets whose fresh-process reference the three-ways campaign has already run
    rng = ck.rng.fork("repeat-sample")
    picked, seen = [], set()
    for o in allo:
        if set(o) & STRUCTURED and (len(o) > 1 or sorted(o)[0] not in seen):
            picked.append(o)
            seen |= set(o) if len(o) == 1 else set()
    # the quick tier's subprocess budget: option SETS all, four of the structured options (rotating with the seed;
    # the thorough tier and search_repeated run every one)
    sets_ = [o for o in picked if len(o) > 1]
    picked = sets_ + rng.sample([o for o in picked if len(o) == 1], 2)
    strata: dict[str, list[dict]] = {}
    for o in allo:
        if not set(o) & STRUCTURED:
            strata.setdefault(rn.tab[sorted(o)[0]]["kind"], []).append(o)
    for _kind, pool in rng.sample(sorted(strata.items()), 1):   # one of the other kinds, rotating with the seed
        cached = [o for o in pool if json.dumps(o, sort_keys=True) in (cache or {})]
        picked += rng.sample(cached or pool, 1)
    return picked


def run_many(ck: Check, camp, rn, jobs: list[tuple[dict, str, int]], cache: dict) -> None:
    """jobs: (opts, mode, calls). Reference runs come from the three-ways cache when it has them."""
    refs: dict[tuple[str, str], dict | None] = {}
    for opts, mode, _calls in jobs:   # one fresh-process reference per (option set, place)
        key = json.dumps(opts, sort_keys=True)
        refs.setdefault((key, mode), cache.get(key, {}).get(mode))
    missing = [k for k, v in refs.items() if v is None]

    def thunk(item):
        kind, payload = item
        if kind == "ref":
            key, mode = payload
            opts = json.loads(key)
            return rn.cli(opts) if mode == "cli" else rn.cli({}, opts)
        opts, mode, calls = payload
        return history(rn, opts, mode, calls)

    results = pmap(thunk, [("ref", k) for k in missing] + [("hist", j) for j in jobs])
    refs.update(zip(missing, results[: len(missing)]))
    for (opts, mode, _calls), hist in zip(jobs, results[len(missing):]):
        key = json.dumps(opts, sort_keys=True)
        judge(ck, camp, rn, opts, mode, hist, refs[(key, mode)], cache.get(key, {}).get("keyword"))


def campaign_repeated(ck: Check, rn, cache: dict) -> None:
    camp = ck.campaign("e2e histories: main() called 2 and 3 times in ONE interpreter (options in pyproject.toml / as the same flags "
                       "each time) → every call equals the same call in a fresh process and generate()")
    t0 = time.time()
    every = ck.tier == "thorough"
    sets = option_sets(ck, rn, every, cache)
    rng = ck.rng.fork("repeat-mode")
    jobs: list[tuple[dict, str, int]] = []
    for o in sets:
        jobs.append((o, "pyproject", 3))      # the calls 1, 2 of a 3-call history are the 2-call history
        if every:
            jobs.append((o, "cli", 3))
    if not every:
        structured = [o for o in sets if set(o) & STRUCTURED]
        jobs += [(o, "cli", 3) for o in rng.sample(structured, 1)]
    run_many(ck, camp, rn, jobs, cache)
    run_rewritten(ck, camp, rn, rewritten_sequences(ck, rn, every), cache)
    camp.wall_s = time.time() - t0


def search_repeated(ck: Check) -> None:
    """after a broken obligation / correspondence: every option, both places, histories of 3 calls (calls 1, 2 are the
    2-call history), then pyproject.toml rewritten between the calls"""
    from . import c18 as base

    rn = base.Runner()
    camp = ck.campaign("search: every option × (pyproject.toml | flags | pyproject.toml rewritten between calls) × main() called 2 and 3 times in one interpreter")
    try:
        sets = option_sets(ck, rn, True)
        first = [o for o in sets if set(o) & STRUCTURED]
        rest = [o for o in sets if o not in first]
        for group in (first, rest):
            jobs = [(o, mode, 3) for o in group for mode in ("pyproject", "cli")]
            run_many(ck, camp, rn, jobs, {})
            if ck.failures:
                return
        run_rewritten(ck, camp, rn, rewritten_sequences(ck, rn, True), {})
    finally:
        rn.close()


def rerun(ck: Check, camp, rn, inp: dict) -> None:
    if inp.get("kind") == "repeated_rewritten":
        run_rewritten(ck, camp, rn, [inp["seq"]], {})
        return
    opts, mode, calls = inp["opts"], inp["mode"], int(inp["calls"])
    if inp.get("extra"):
        from . import c18_kv

        c18_kv.rerun_repeated(ck, camp, rn, inp)
        return
    fresh = rn.cli(opts) if mode == "cli" else rn.cli({}, opts)
    keyword = rn.keyword(opts)
    judge(ck, camp, rn, opts, mode, history(rn, opts, mode, calls), fresh, keyword)
