"""C05, members that take their default from the DEFINITION they refer to.

A member whose schema is a bare `$ref` to a root definition — a scalar (`Port: {type: integer, default: 8080}`), a
constrained scalar, a nullable scalar, an alias of another definition, an array or a dict — has no `default` keyword of its
own: "the schema's default" of such a member is the one its definition carries, and a member that is not required must read
as that value when it is omitted (its own `default`, also `default: null`, wins when it has one). The generator moves the
default from the definition's model to the field in a post-pass of `Parser.parse`
(`__set_reference_default_value_to_field`), next to the passes that RESTRUCTURE what a field refers to: `__reuse_model`
(identical definitions become one) and `__collapse_root_models` (the root definition is folded into the member and the
reference is gone). Whether the default arrives therefore depends on the order of the passes (C09 owns the order table
`Dcg/Gen/ParsePasses` and the abstract semantics `Dcg/Model/ParsePasses`; C05 imports both: Props/C05
`reference_default_pass_before_restructuring`, `definition_default_reaches_member`).

Family (dimension → values):
  kind × definition (integer / string / constrained string / nullable integer / boolean false / number / alias of a definition /
  array / dict) × collapse_root_models × reuse_model × the member's own default (none / a value / null) × where the definition
  stands (the referring schema is the document root / before / after the referring schema / in another file of the input
  directory, under its `definitions` or as its root schema — modular output, the emitted package is imported / in a file outside
  the input) × a second member referring to the
  same definition × a twin definition (identical text, another name) referred to by a member of its own × spelling options.

Oracle (the property, per member that is not required): omitted → reads its own default when it has one, else the
definition's default, with the VALUE compared (RootModel instances are unwrapped); two instances do not share a mutable
default. Kinds that can be executed are executed (pydantic 2, pydantic-1 style on `pydantic.v1`, dataclasses); msgspec is read
from the AST; TypedDict has no defaults (finding C05-TYPEDDICT-NO-DEFAULTS) and is left out.

Model tie: `passes.run` (C09's driver handler, used read-only) is given the extracted pass list, the options of the run and
the abstract state (one root per definition with its default, one field per member) and predicts for every member whether it
ends with no default / its own / the definition's — compared with what the emitted class says (scalar definitions: the
harness encodes the default a definition carries; the model of a container definition would need the parser's root model,
see finding C05-REF-CONTAINER-DEFINITION-DEFAULT)."""
from __future__ import annotations

import ast
import itertools
import json
import os
import re
import time
from concurrent.futures import ProcessPoolExecutor

from .. import e2e
from ..runner import Check

KINDS = ["pydantic_v2.BaseModel", "pydantic.BaseModel", "dataclasses.dataclass", "msgspec.Struct"]
KIND_TAG = {"pydantic_v2.BaseModel": "v2", "pydantic.BaseModel": "v1", "dataclasses.dataclass": "dc", "msgspec.Struct": "ms"}

# definition → (schema, its default, a default a member may carry itself)
DEFS: dict[str, tuple[dict, object, object]] = {
    "int": ({"type": "integer", "default": 8080}, 8080, 9090),
    "str": ({"type": "string", "default": "localhost"}, "localhost", "x"),
    "cstr": ({"type": "string", "maxLength": 20, "default": "ab"}, "ab", "cd"),
    "nint": ({"type": ["integer", "null"], "default": 3}, 3, 7),
    "false": ({"type": "boolean", "default": False}, False, True),
    "zero": ({"type": "integer", "default": 0}, 0, 1),
    "num": ({"type": "number", "default": 2.5}, 2.5, 1.5),
    "alias": ({"$ref": "#/definitions/Inner", "default": 5}, 5, 6),
    "arr": ({"type": "array", "items": {"type": "integer"}, "default": [1, 2]}, [1, 2], [9]),
    "dict": ({"type": "object", "additionalProperties": {"type": "integer"}, "default": {"a": 1}}, {"a": 1}, {"z": 0}),
}
SCALAR_DEFS = ["int", "str", "cstr", "nint", "false", "zero", "num", "alias"]
CONTAINER_DEFS = ["arr", "dict"]
OWN = ["none", "value", "null"]
PLACES = ["root", "before", "after"]
# the definition lives in another file: directory input and modular output (under `definitions` of the other file / as the
# other file's root schema), or one input file referring to a file outside the input
FILE_PLACES = ["file", "file-root", "external"]
OPT_NAMES = {"fc": "field_constraints", "an": "use_annotated", "kw": "use_default_kwarg", "uo": "use_union_operator",
             "us": "use_standard_collections", "sn": "strict_nullable", "ko": "keep_model_order"}


def mk_case(kind, deftype, collapse, reuse, own="none", place="root", second=False, twin=False, bits=None) -> dict:
    opts = {t: False for t in OPT_NAMES}
    opts.update(bits or {})
    if opts["an"]:
        opts["fc"] = True
    if place == "file-root":
        twin = False  # the other file's root schema is the one definition
    return {"kind": kind, "deftype": deftype, "collapse": bool(collapse), "reuse": bool(reuse), "own": own, "place": place,
            "second": bool(second), "twin": bool(twin), "opts": opts}


def case_key(c: dict) -> str:
    return (f"{KIND_TAG[c['kind']]}/{c['deftype']}/collapse={int(c['collapse'])}/reuse={int(c['reuse'])}/own={c['own']}/{c['place']}"
            f"/second={int(c['second'])}/twin={int(c['twin'])}/" + "".join(t for t in OPT_NAMES if c["opts"].get(t)))


def members_of(c: dict) -> list[dict]:
    """the members of class M that refer to a definition: name, definition, own default (absent / a value / null)"""
    schema, dv, ov = DEFS[c["deftype"]]
    ms = [{"name": "n", "ref": "T", "own": c["own"]}]
    if c["second"]:
        # a second use of the same definition, with the opposite choice of own default
        ms.append({"name": "m", "ref": "T", "own": "value" if c["own"] == "none" else "none"})
    if c["twin"]:
        ms.append({"name": "t", "ref": "T2", "own": "none"})
    for m in ms:
        m["expected"] = dv if m["own"] == "none" else (ov if m["own"] == "value" else None)
        m["source"] = "definition" if m["own"] == "none" else "own"
    return ms


def ref_string(c: dict, name: str) -> str:
    if c["place"] in PLACES:
        return f"#/definitions/{name}"
    return "z_t.json" if c["place"] == "file-root" else f"z_t.json#/definitions/{name}"


def build_doc(c: dict) -> dict:
    """the document — for the file places {"files": {name: document}, "entry": name | None (None: the directory is the input)}"""
    schema, _dv, ov = DEFS[c["deftype"]]
    props: dict = {}
    for m in members_of(c):
        s: dict = {"$ref": ref_string(c, m["ref"])}
        if m["own"] == "value":
            s["default"] = ov
        elif m["own"] == "null":
            s["default"] = None
        props[m["name"]] = s
    props["other"] = {"type": "string"}
    obj = {"type": "object", "properties": props}
    defs: dict = {"T": json.loads(json.dumps(schema))}
    if c["twin"]:
        defs["T2"] = json.loads(json.dumps(schema))
    if c["deftype"] == "alias":
        defs["Inner"] = {"type": "integer"}
    if c["place"] in FILE_PLACES:
        if c["place"] == "file-root":
            tdoc = {"title": "T", **defs.pop("T")}
            if defs:
                tdoc["definitions"] = defs
        else:
            tdoc = {"title": "Other", "type": "object", "definitions": defs}
        return {"files": {"a_m.json": {"title": "M", **obj}, "z_t.json": tdoc}, "entry": "a_m.json" if c["place"] == "external" else None}
    if c["place"] == "root":
        return {"title": "M", **obj, "definitions": defs}
    if c["place"] == "before":
        return {"definitions": {**defs, "M": obj}}
    return {"definitions": {"M": obj, **defs}}


def gen_opts(c: dict) -> dict:
    o = {OPT_NAMES[t]: True for t in OPT_NAMES if c["opts"].get(t)}
    o["collapse_root_models"] = c["collapse"]
    o["reuse_model"] = c["reuse"]
    return o


# ---------------------------------------------------------------- observation
def _unwrap(x, depth: int = 0):
    """a RootModel / custom-root instance stands for its value"""
    while depth < 6 and x is not None and not isinstance(x, (bool, int, float, str, list, dict, tuple)):
        if hasattr(x, "root"):
            x = x.root
        elif hasattr(x, "__root__"):
            x = x.__root__
        else:
            break
        depth += 1
    if isinstance(x, (list, tuple)):
        return [_unwrap(y, depth + 1) for y in x]
    if isinstance(x, dict):
        return {k: _unwrap(v, depth + 1) for k, v in x.items()}
    return x


def canon(x) -> str:
    try:
        return json.dumps(_unwrap(x), sort_keys=True)
    except (TypeError, ValueError):
        return f"unserialisable:{type(x).__name__}"


def _static_default(node: ast.AST | None):
    """(tag, value): what the right-hand side of a member says about its default, read from the AST (msgspec)"""
    if node is None:
        return "required", None
    try:
        return "value", ast.literal_eval(node)
    except (ValueError, SyntaxError):
        pass
    if isinstance(node, ast.Call):
        for kw in node.keywords:
            if kw.arg == "default":
                try:
                    return "value", ast.literal_eval(kw.value)
                except (ValueError, SyntaxError):
                    return "other", ast.unparse(kw.value)
            if kw.arg == "default_factory":
                body = kw.value.body if isinstance(kw.value, ast.Lambda) else None
                if body is not None:
                    try:
                        return "value", ast.literal_eval(body)
                    except (ValueError, SyntaxError):
                        if isinstance(body, ast.Call) and len(body.args) == 1:  # T.model_validate(v) / convert(v, T)
                            try:
                                return "value", ast.literal_eval(body.args[0])
                            except (ValueError, SyntaxError):
                                pass
                return "other", ast.unparse(kw.value)
        return "required", None  # field(name='…') carries no default
    return "other", ast.unparse(node)


def member_lines(code: str, names: list[str]) -> dict[str, str]:
    out: dict[str, str] = {}
    try:
        tree = ast.parse(code)
    except SyntaxError:
        return out
    for cls in tree.body:
        if isinstance(cls, ast.ClassDef) and cls.name == "M":
            for st in cls.body:
                if isinstance(st, ast.AnnAssign) and isinstance(st.target, ast.Name) and st.target.id in names:
                    out[st.target.id] = ast.unparse(st)
    return out


def observe(code: str, c: dict, loader=None) -> dict:
    """per member: {"omitted": canonical JSON of the value an instance without it reads | "rejected" | "error:…",
    "shared": bool} — plus "loads"."""
    names = [m["name"] for m in members_of(c)]
    res: dict = {"loads": "ok", "members": {}}
    if c["kind"] == "msgspec.Struct":
        try:
            tree = ast.parse(code)
        except SyntaxError as e:
            return {"loads": f"error:SyntaxError:{e}", "members": {}}
        for cls in tree.body:
            if isinstance(cls, ast.ClassDef) and cls.name == "M":
                for st in cls.body:
                    if isinstance(st, ast.AnnAssign) and isinstance(st.target, ast.Name) and st.target.id in names:
                        tag, val = _static_default(st.value)
                        res["members"][st.target.id] = {"omitted": "rejected" if tag == "required" else (canon(val) if tag == "value" else f"other:{val}"),
                                                        "shared": False}
        return res
    unload = e2e.unload
    try:
        if loader is not None:
            mod, unload = loader()
        else:
            mod = e2e.load_module(code, c["kind"])
    except BaseException as e:  # noqa: BLE001
        return {"loads": f"error:{type(e).__name__}:{str(e)[:160]}", "members": {}}
    try:
        M = getattr(mod, "M", None)
        if M is None:
            return {"loads": "error:no class M", "members": {}}
        for name in names:
            try:
                a, b = M(), M()
                va, vb = getattr(a, name), getattr(b, name)
                ua, ub = _unwrap(va), _unwrap(vb)
                res["members"][name] = {"omitted": canon(va), "shared": isinstance(ua, (list, dict)) and ua is ub}
            except Exception as e:  # noqa: BLE001 - a member that must be supplied
                msg = str(e)
                rejected = type(e).__name__ in ("ValidationError", "TypeError") and (name in msg or "missing" in msg)
                res["members"][name] = {"omitted": "rejected" if rejected else f"error:{type(e).__name__}:{msg[:120]}", "shared": False}
    finally:
        unload(mod)
    return res


def norm_error(msg: str) -> str:
    """an error text without the scratch module names, cut at the first line / sentence"""
    msg = re.sub(r"dcgverif_(gen|pkg)_\d+_\d+\.", "", msg).replace("z_t.", "").replace("a_m.", "")
    return re.split(r"[\n;]", msg, maxsplit=1)[0][:70]


def run_case(c: dict) -> dict:
    doc = build_doc(c)
    loader = None
    if c["place"] in FILE_PLACES:
        from . import c05_refs

        r = c05_refs.run_generate_files(doc["files"], doc["entry"], input_file_type="jsonschema", model=c["kind"], opts=gen_opts(c))
    else:
        r = e2e.run_generate(doc, input_file_type="jsonschema", model=c["kind"], opts=gen_opts(c))
    if not r.ok:
        return {"error": f"{r.error_type}: {r.error_msg[:200]}", "hang": r.hang, "document": doc}
    if "out.py" in r.files or c["place"] not in FILE_PLACES:
        code = r.code
    else:
        code = r.files.get("a_m.py", "")
        files = dict(r.files)
        loader = lambda: c05_refs.load_package(files, c["kind"], "a_m")  # noqa: E731
    obs = observe(code, c, loader)
    return {"document": doc, "obs": obs, "lines": member_lines(code, [m["name"] for m in members_of(c)]), "code": code}


def _init_worker(parent_scratch: str) -> None:
    e2e._scratch_root = parent_scratch


def _worker(chunk: list[dict]) -> list[dict]:
    import warnings

    warnings.simplefilter("ignore")
    return [run_case(c) for c in chunk]


def run_cases(cs: list[dict], workers: int = 12) -> list[dict]:
    if len(cs) < 24:
        return _worker(cs)
    n = max(1, min(workers, (os.cpu_count() or 2) - 1))
    size = max(6, min(48, len(cs) // (n * 3) + 1))
    chunks = [cs[i : i + size] for i in range(0, len(cs), size)]
    with ProcessPoolExecutor(max_workers=n, initializer=_init_worker, initargs=(e2e.scratch_root(),)) as ex:
        res = list(ex.map(_worker, chunks))
    return [x for ch in res for x in ch]


# ---------------------------------------------------------------- the model's prediction (C09's abstract pass semantics)
_VAL_DEF, _VAL_OWN, _VAL_NULL = 0, 1, 2


def pass_names() -> list[str]:
    from ..translate import parse_passes

    calls, _problem = parse_passes.extract()
    return [n for n, _ in calls]


def driver_request(c: dict, order: list[str]) -> str:
    """abstract state: root 5 = definition T (default value 0), root 6 = its twin; one field per member"""
    roots = ["(5 0 0)"] + (["(6 0 0)"] if c["twin"] else [])
    fields = []
    for m in members_of(c):
        r = 5 if m["ref"] == "T" else 6
        fields.append(f"(r {r} -)" if m["own"] == "none" else f"(r {r} r {_VAL_OWN if m['own'] == 'value' else _VAL_NULL})")
    return (f"passes.run {int(c['reuse'])} {int(c['collapse'])} 0 ({' '.join(order)}) ((0 0)) ({' '.join(roots)}) ({' '.join(fields)})")


def parse_reply(rep: str, c: dict) -> list[str] | None:
    """→ per member "definition" / "own" / "null" / "none" (which default the field ends with)"""
    if not rep.startswith("ok "):
        return None
    try:
        inner = rep[rep.index(") (") + 3 : rep.rindex(")")]
    except ValueError:
        return None
    out = []
    for tok in inner.split():
        d = tok.split(":", 1)[1] if ":" in tok else "?"
        out.append({"-": "none", f"r{_VAL_DEF}": "definition", f"r{_VAL_OWN}": "own", f"r{_VAL_NULL}": "null"}.get(d, "?" + d))
    return out if len(out) == len(members_of(c)) else None


def observed_source(m: dict, o: dict, c: dict) -> str:
    """which default the emitted member shows, in the model's vocabulary"""
    _schema, dv, ov = DEFS[c["deftype"]]
    val = o["omitted"]
    if val == canon(dv):
        return "definition"
    if val == canon(ov):
        return "own"
    if val == "null":
        return "null" if m["own"] == "null" else "none"
    return "?" + val


# ---------------------------------------------------------------- evaluation
def evaluate(ck: Check, camps: dict, c: dict, r: dict, model: list[str] | None, record: bool = True) -> list[dict]:
    """Compare one run with the model's prediction and apply the property oracle. Returns the classifications of the oracle
    failures (all of them, also those that match a known finding)."""
    fails: list[dict] = []
    inp = {"refdefault": c, "key": case_key(c), "document": r.get("document"), "options": gen_opts(c)}
    oc, mc = camps["oracle"], camps["model"]
    oc.evaluations += 1
    tag = KIND_TAG[c["kind"]]
    if "error" in r:
        cl = {"clause": "class_creation", "kind": tag, "mechanism": "generation_hang" if r.get("hang") else "generation_error", "model_predicts": False}
        fails.append(cl)
        if record:
            ck.fail(cl, inp, r["error"], "the generator produces a module for a member that refers to a root definition with a default")
        return fails
    obs = r["obs"]
    if obs["loads"] != "ok":
        err = norm_error(obs["loads"][len("error:"):])
        cl = {"clause": "class_creation", "kind": tag, "mechanism": "module_does_not_load", "error": err, "definition": c["deftype"],
              "reuse_model": c["reuse"], "collapse_root_models": c["collapse"], "twin_definition": c["twin"], "model_predicts": False}
        fails.append(cl)
        if record:
            ck.fail(cl, {**inp, "code": r["code"][:1500]}, obs["loads"], "the generated module can be imported")
        return fails
    ms = members_of(c)
    oc.distinct.add(case_key(c))
    oc.hit(f"kind:{tag}")
    oc.hit(f"definition:{c['deftype']}")
    oc.hit(f"collapse={int(c['collapse'])},reuse={int(c['reuse'])}")
    oc.hit(f"own:{c['own']}")
    oc.hit(f"place:{c['place']}")
    if c["second"]:
        oc.hit("second-use-of-the-definition")
    if c["twin"]:
        oc.hit("twin-definition")
    scalar = c["deftype"] in SCALAR_DEFS
    for i, m in enumerate(ms):
        o = obs["members"].get(m["name"])
        if o is None:
            cl = {"clause": "class_creation", "kind": tag, "mechanism": "member_missing", "model_predicts": False}
            fails.append(cl)
            if record:
                ck.fail(cl, {**inp, "member": m["name"], "code": r["code"][:1500]}, "class M has no such member", "every property is a member")
            continue
        if o["omitted"].startswith("error:"):
            # the class cannot be instantiated at all (an annotation or a default expression names something the module does not bind)
            cl = {"clause": "class_creation", "kind": tag, "mechanism": "class_not_usable", "error": norm_error(o["omitted"][len("error:"):]),
                  "definition": c["deftype"], "reuse_model": c["reuse"], "collapse_root_models": c["collapse"], "twin_definition": c["twin"],
                  "modular": c["place"] in ("file", "file-root"), "model_predicts": False}
            if cl not in fails:
                fails.append(cl)
                if record:
                    ck.fail(cl, {**inp, "member": m["name"], "emitted": r["lines"].get(m["name"]), "code": r["code"][:1500]},
                            f"M() raises {o['omitted'][len('error:'):][:200]}", "the generated class can be instantiated with its optional members omitted")
            continue
        # --- model tie (scalar definitions): which default the field ends with
        predicts_loss = False
        if model is not None and scalar:
            mc.evaluations += 1
            want = model[i]
            got = observed_source(m, o, c)
            predicts_loss = want == "none" and m["own"] == "none"
            mc.distinct.add(f"{case_key(c)}#{m['name']}")
            mc.hit(f"model:{want}")
            if want != got and record:
                ck.disagree(mc, {**inp, "member": m["name"], "line": r["lines"].get(m["name"])}, want, got)
            elif len(mc.samples) < 3 and c["collapse"] and m["own"] == "none":
                mc.samples.append({"case": case_key(c), "member": m["name"], "line": r["lines"].get(m["name"]), "model": want})
        # --- the property
        expected = canon(m["expected"])
        if o["omitted"] != expected:
            if o["omitted"] == "rejected":
                clause, mech = "optional_omittable", "member_without_required_entry_must_be_supplied"
            elif m["source"] == "definition":
                clause = "default_value"
                mech = ("container_definition_default_not_taken" if not scalar else
                        "definition_default_lost" + ("_under_collapse" if c["collapse"] else ""))
            else:
                clause, mech = "default_value", "own_default_not_kept"
            cl = {"clause": clause, "kind": tag, "mechanism": mech, "definition": c["deftype"], "default_from": m["source"],
                  "collapse_root_models": c["collapse"], "model_predicts": bool(predicts_loss)}
            fails.append(cl)
            if record:
                ck.fail(cl, {**inp, "member": m["name"], "emitted": r["lines"].get(m["name"])},
                        f"member {m['name']} omitted reads {o['omitted']}; emitted `{r['lines'].get(m['name'])}`",
                        f"a member that is not required and omitted reads the schema's default {expected} "
                        f"({'the default of the definition it refers to' if m['source'] == 'definition' else 'its own default'})")
        elif o["shared"]:
            cl = {"clause": "mutable_default_not_shared", "kind": tag, "mechanism": "definition_default_shared", "definition": c["deftype"],
                  "default_from": m["source"], "collapse_root_models": c["collapse"], "model_predicts": False}
            fails.append(cl)
            if record:
                ck.fail(cl, {**inp, "member": m["name"], "emitted": r["lines"].get(m["name"])},
                        f"two instances share the default object of member {m['name']}", "the materialised default is not shared between instances")
    if len(oc.samples) < 3 and c["collapse"] and not fails:
        oc.samples.append({"case": case_key(c), "emitted": r["lines"]})
    return fails


def make_campaigns(ck: Check, prefix: str = "") -> dict:
    return {
        "oracle": ck.campaign(prefix + "members that are bare $refs to root definitions carrying a default (scalar, constrained, nullable, alias, array, dict) x "
                              "collapse_root_models x reuse_model x own default x place x second use x twin definition: property oracle on the class "
                              "(omitted member reads the schema's default; not shared)"),
        "model": ck.campaign(prefix + "passes.run (Model.ParsePasses.run on the extracted pass order: which default a field that refers to a root ends with) vs "
                             "the default the emitted member shows [ParsePasses]"),
    }


def run_batch(ck: Check, camps: dict, cs: list[dict]) -> None:
    t0 = time.time()
    order = pass_names()
    replies = ck.driver.run([driver_request(c, order) for c in cs]) if order else [""] * len(cs)
    results = run_cases(cs)
    for c, r, rep in zip(cs, results, replies):
        evaluate(ck, camps, c, r, parse_reply(rep, c))
    for k in camps.values():
        k.wall_s += time.time() - t0


# ---------------------------------------------------------------- blocks
def core_block(kinds=None) -> list[dict]:
    """complete small scope: kind x definition x (collapse, reuse) x own default, the referring schema being the document root"""
    out = []
    for kind in kinds or KINDS:
        for dt in DEFS:
            for collapse, reuse in itertools.product((False, True), repeat=2):
                for own in OWN:
                    out.append(mk_case(kind, dt, collapse, reuse, own))
    return out


def shape_block(kinds=None) -> list[dict]:
    """kind x definition x (collapse, reuse) x place x second use x twin (own default absent)"""
    out = []
    for kind in kinds or KINDS:
        for dt in DEFS:
            for collapse, reuse in itertools.product((False, True), repeat=2):
                for place in PLACES + FILE_PLACES:
                    for second, twin in itertools.product((False, True), repeat=2):
                        if place == "root" and not second and not twin:
                            continue  # in the core block
                        if place == "file-root" and twin:
                            continue
                        out.append(mk_case(kind, dt, collapse, reuse, "none", place, second, twin))
    return out


def random_cases(ck: Check, n: int) -> list[dict]:
    rng = ck.rng.fork("refdefault")
    out = []
    for _ in range(n):
        bits = {t: rng.chance(1, 4) for t in OPT_NAMES}
        out.append(mk_case(rng.choice(KINDS), rng.choice(list(DEFS)), rng.chance(2, 3), rng.chance(1, 2), rng.choice(OWN), rng.choice(PLACES + FILE_PLACES),
                           rng.chance(1, 2), rng.chance(1, 3), bits))
    return out


def campaign(ck: Check, quick: bool) -> None:
    camps = make_campaigns(ck)
    cs = core_block()
    if quick:
        rng = ck.rng.fork("refdefault-shape")
        cs += [c for c in shape_block() if rng.chance(1, 6)] + random_cases(ck, 150)
    else:
        cs += shape_block() + random_cases(ck, 2500)
    run_batch(ck, camps, cs)


def search(ck: Check) -> None:
    """Targeted search (a theorem or a correspondence broke): the whole family, every kind."""
    camps = make_campaigns(ck, "search: ")
    run_batch(ck, camps, core_block())
    if not ck.failures:
        run_batch(ck, camps, shape_block())
    if not ck.failures:
        run_batch(ck, camps, random_cases(ck, 2000))


def witness_reproduces(ck: Check, f: dict) -> bool:
    from ..runner import match_finding

    c = f["witness"]["refdefault"]
    probe = Check(ck.prop, ck.tier)
    probe.findings = []
    camps = make_campaigns(probe)
    r = run_case(c)
    fails = evaluate(probe, camps, c, r, None, record=False)
    return any(match_finding([f], cl) is not None for cl in fails)


def replay_case(ck: Check, c: dict) -> int:
    camps = make_campaigns(ck)
    r = run_case(c)
    print("case:", case_key(c))
    print("document:", json.dumps(r.get("document")))
    print("options:", json.dumps(gen_opts(c)), "output model:", c["kind"])
    if "error" in r:
        print("generation:", r["error"])
    else:
        for n, line in r["lines"].items():
            print("emitted:", line, "| omitted reads:", r["obs"]["members"].get(n, {}).get("omitted"))
    order = pass_names()
    rep = ck.driver.run([driver_request(c, order)])[0] if order else ""
    evaluate(ck, camps, c, r, parse_reply(rep, c))
    for f in ck.failures:
        print("REPLAY-FAILS:", json.dumps(f.classification), f.observed[:300])
    for d in ck.disagreements:
        print("REPLAY-DISAGREES:", d.campaign[:40], "model:", d.model, "impl:", d.impl)
    for k, n in ck.known_hits.items():
        print(f"replay: {n} failure(s) on this input match known finding {k}")
    if not ck.failures:
        print("replay: the oracle does not fail on this input" + (" beyond known findings" if ck.known_hits else ""))
    return 1 if ck.failures else 0
