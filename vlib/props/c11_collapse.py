"""C11 — Model.Collapse (Lean) against the real `Parser.__collapse_root_models`.

Documents with chains and diamonds of ROOT models (`R = $ref X` aliases, `R = array of $ref X`, scalar arrays),
object models that use them as members (directly and as array items), inheritance among the objects, and reference
cycles through root models (they are what makes `sort_data_models` hand a user over BEFORE the root model it uses),
in shuffled definition order.  The REAL parser runs with collapse_root_models=True; the harness wraps
`Parser._Parser__collapse_root_models` and observes, around the real pass, the model list and for every member the
referenced models (reference path of every data type of `field.data_type.all_data_types`, whether it sits inside a
container, whether `reference.children` holds it — by identity), the base-class references, the root flag, and the
references that have users outside the list; after `parse()` the list as it is written.  The 'before' state goes to
the Lean driver (`collapse.run`); compared are: the references of every member of every model after the pass (as
multisets per member), `unused_models` (as a set), the names of the list after the removal (in order) and the
dangling references (a reference to a model of the list that is gone afterwards).

Every document also goes through the property's own oracle on the real generator (c11_dups.dups_case: generate()
returns, module parses, every object definition bound once, NO definition named that is not bound, bases first,
import, every class usable).  The failing-input search re-embeds what disagreed.
"""
from __future__ import annotations

import json
import time

from .. import realcall
from ..common import Hang, watchdog
from . import c11_dups, c11_repoint

REF = "#/definitions/"
KINDS = c11_dups.KINDS


# ---------------------------------------------------------------------------------------------
# documents
def ref(n: str) -> dict:
    return {"$ref": REF + n}


def build_doc(spec: dict) -> dict:
    """spec = {"order": [names], "roots": {name: [kind, target|None]}, "objs": {name: {"base": name|None, "props": [[how, target]]}}}"""
    defs = {}
    for name in spec["order"]:
        if name in spec["roots"]:
            kind, tgt = spec["roots"][name]
            if kind == "alias":
                defs[name] = ref(tgt)
            elif kind == "array":
                defs[name] = {"type": "array", "items": ref(tgt)}
            elif kind == "union":
                defs[name] = {"anyOf": [ref(tgt), {"type": "integer"}]}
            else:
                defs[name] = {"type": "array", "items": {"type": "string"}}
        else:
            o = spec["objs"][name]
            props = {f"m{name.lower()}": {"type": "integer"}}
            for k, (how, tgt) in enumerate(o["props"]):
                props[f"p{k}"] = ref(tgt) if how == "direct" else {"type": "array", "items": ref(tgt)}
            body = {"type": "object", "properties": props}
            defs[name] = {"allOf": [ref(o["base"]), body]} if o.get("base") else body
    return {"$schema": "http://json-schema.org/draft-07/schema#", "definitions": defs}


def gen_spec(rng, shape: str | None = None) -> dict:
    n_root = rng.range(1, 4)
    n_obj = rng.range(1, 3)
    roots_n = [f"R{i}" for i in range(n_root)]
    objs_n = [f"A{i}" for i in range(n_obj)]
    shape = shape or rng.choice(["chain", "diamond", "cycle", "free", "cycle", "chain"])
    roots: dict = {}
    for k, r in enumerate(roots_n):
        later = roots_n[k + 1:]
        if shape == "chain" and later:
            roots[r] = [rng.choice(["alias", "array", "alias"]), later[0]]
        elif shape == "diamond" and later:
            roots[r] = [rng.choice(["alias", "array"]), later[-1]]
        elif shape == "cycle":
            roots[r] = [rng.choice(["alias", "array", "alias"]), later[0] if later and rng.chance(2, 3) else rng.choice(objs_n)]
            if not later and rng.chance(1, 6):
                roots[r] = ["array", rng.choice(objs_n)]
        else:
            tgt = rng.choice(later + objs_n) if rng.chance(2, 3) else None
            roots[r] = [rng.choice(["alias", "array", "union"]), tgt] if tgt else ["scalar", None]
        if not later and shape in ("chain", "diamond"):
            roots[r] = ["scalar", None] if rng.chance(1, 2) else ["array", rng.choice(objs_n)]
    objs: dict = {}
    for k, a in enumerate(objs_n):
        props = []
        for _ in range(rng.range(1, 3)):
            tgt = rng.choice(roots_n * 3 + objs_n)
            props.append([rng.choice(["direct", "direct", "array"]), tgt])
        if shape == "diamond" and k == 0 and n_root >= 2:
            props = [["direct", roots_n[0]], [rng.choice(["direct", "array"]), roots_n[min(1, n_root - 1)]]]
        objs[a] = {"base": objs_n[rng.below(k)] if k and rng.chance(1, 4) else None, "props": props}
    # an alias root must not be the only thing on a path back to itself through aliases alone (the parser cannot
    # resolve a pure $ref loop): root targets go to LATER roots or to objects only, so every loop passes an object
    order = rng.shuffle(roots_n + objs_n)
    return {"order": order, "roots": roots, "objs": objs, "shape": shape}


CORPUS = [
    # the dangling reference found in round 5 (known finding C11-collapse-dangling-alias): a user that stands before
    # the alias root model it uses, the alias pointing at another root model
    {"order": ["A0", "R0", "R1"], "roots": {"R0": ["alias", "R1"], "R1": ["array", "A0"]}, "objs": {"A0": {"base": None, "props": [["direct", "R0"]]}}, "shape": "corpus"},
    {"order": ["R1", "R0", "A0"], "roots": {"R0": ["alias", "R1"], "R1": ["array", "A0"]}, "objs": {"A0": {"base": None, "props": [["direct", "R0"]]}}, "shape": "corpus"},
    {"order": ["A0", "R0", "R1"], "roots": {"R0": ["alias", "R1"], "R1": ["scalar", None]}, "objs": {"A0": {"base": None, "props": [["direct", "R0"], ["array", "R0"]]}}, "shape": "corpus"},
    {"order": ["A0", "A1", "R0", "R1", "R2"], "roots": {"R0": ["array", "R2"], "R1": ["alias", "R2"], "R2": ["array", "A1"]},
     "objs": {"A0": {"base": None, "props": [["direct", "R0"], ["direct", "R1"]]}, "A1": {"base": "A0", "props": [["array", "R2"]]}}, "shape": "corpus"},
]


# ---------------------------------------------------------------------------------------------
# the real pass, observed
class Observed:
    def __init__(self):
        self.calls: list = []
        self.broken: str | None = None


def observe(R, parser, models, unused_models):
    """'before' state of one call: (paths, request text, helpers) or a string why it is outside the model"""
    root_t, field_t = parser.data_model_root_type, parser.data_model_field_type
    paths = []
    for m in models:
        if m.reference.path in paths:
            return "two models of the list share a reference path"
        paths.append(m.reference.path)
    extra: list = []

    def pid(p: str) -> int:
        if p in paths:
            return paths.index(p)
        if p not in extra:
            extra.append(p)
        return len(models) + extra.index(p)

    in_list = {id(m) for m in models}
    mine: set = set()
    ms = []
    for m in models:
        bases = []
        for b in m.base_classes:
            if b.reference is not None:
                bases.append(pid(b.reference.path))
                mine.add(id(b))
        fields = []
        for f in m.fields:
            leaves = []
            for dt in f.data_type.all_data_types:
                if dt.reference is None:
                    continue
                src = dt.reference.source
                if isinstance(src, root_t) and id(src) not in in_list:
                    return "a member refers to a root model that is not in the list"
                mine.add(id(dt))
                leaves.append((pid(dt.reference.path), 0 if isinstance(dt.parent, field_t) else 1, 1 if any(c is dt for c in dt.reference.children) else 0))
            fields.append(leaves)
        ms.append((pid(m.reference.path), 1 if isinstance(m, root_t) else 0, bases, fields))
    ext = []
    for m in models:
        for c in m.reference.children:
            if id(c) not in mine and (getattr(c, "parent", None) or isinstance(c, R.BaseClassDataType)):
                ext.append(pid(m.reference.path))
                break
    req = "collapse.run (%s) (%s)" % (
        " ".join(map(str, ext)),
        " ".join("(%d %d (%s) (%s))" % (n, r, " ".join(map(str, b)), " ".join("(%s)" % " ".join("(%d %d %d)" % l for l in f) for f in fs)) for n, r, b, fs in ms))
    return {"paths": paths, "extra": extra, "req": req, "ms": ms, "ext": ext, "pid": pid}


def after_state(models_before, pid):
    out = []
    for m in models_before:
        out.append((pid(m.reference.path), [sorted(pid(dt.reference.path) for dt in f.data_type.all_data_types if dt.reference is not None) for f in m.fields]))
    return out


def run_real(ck, camp, R, doc: dict, opts: dict):
    """parse() of the real JSON-Schema parser with the pass wrapped. Returns None (broken / outside) or the observation"""
    types = R.get_data_model_types(R.DataModelType.PydanticV2BaseModel)
    # the concrete parser class: with pysnooper installed `snooper_to_methods` copies every method into the subclass,
    # so the attribute the call `self.__collapse_root_models(...)` finds first is the subclass's own
    P = R.JsonSchemaParser
    had_own = "_Parser__collapse_root_models" in vars(P)
    orig = realcall.resolve(ck, camp, P, "_Parser__collapse_root_models", "Parser.__collapse_root_models")
    if orig is None:
        return None
    obs = Observed()

    def wrapped(self, *args, **kwargs):
        why = realcall.signature_accepts(lambda self, models, unused_models, imports, scoped_model_resolver: None, self, *args, **kwargs)
        if why is not None or len(args) < 2:
            obs.broken = f"Parser.__collapse_root_models is called with other arguments: {why}"
            return orig(self, *args, **kwargs)
        models, unused = args[0], args[1]
        before_list = list(models)
        b = observe(R, self, models, unused)
        n0 = len(unused)
        orig(self, *args, **kwargs)
        if isinstance(b, str):
            obs.calls.append({"outside": b})
            return None
        obs.calls.append({"before": b, "after": after_state(before_list, b["pid"]), "unused": sorted({b["pid"](u.reference.path) for u in unused[n0:]}),
                          "list": models, "same_list": [id(m) for m in models] == [id(m) for m in before_list]})
        return None

    parser = R.JsonSchemaParser(
        json.dumps(doc), data_model_type=types.data_model, data_model_root_type=types.root_model, data_model_field_type=types.field_model,
        data_type_manager_type=types.data_type_manager, dump_resolve_reference_action=types.dump_resolve_reference_action,
        collapse_root_models=True, reuse_model=bool(opts.get("reuse_model")))
    P._Parser__collapse_root_models = wrapped
    try:
        with watchdog(20):
            parser.parse()
    finally:
        if had_own:
            P._Parser__collapse_root_models = orig
        else:
            del P._Parser__collapse_root_models
    if obs.broken:
        realcall._once(ck, camp, "Parser.__collapse_root_models(self, models, unused_models, imports, scoped_model_resolver)", obs.broken, {"doc": doc})
        return None
    for c in obs.calls:
        if "list" in c:
            c["final"] = [c["before"]["pid"](m.reference.path) for m in c["list"]]
    return obs


def parse_reply(rep: str):
    if not rep.startswith("ok "):
        return rep
    toks = rep[3:].replace("(", " ( ").replace(")", " ) ").split()

    def rd(i):
        if toks[i] == "(":
            out, i = [], i + 1
            while toks[i] != ")":
                v, i = rd(i)
                out.append(v)
            return out, i + 1
        return int(toks[i]), i + 1

    ms, i = rd(0)
    un, i = rd(i)
    fin, i = rd(i)
    dang, _ = rd(i)
    return ([(n, [sorted(f) for f in fs]) for n, fs in ms], sorted(set(un)), fin, sorted(set(map(tuple, dang))))


def real_dangling(call) -> list:
    names_before = {n for n, *_ in call["before"]["ms"]}
    fin = set(call["final"])
    by = dict(call["after"])
    bases = {n: b for n, _, b, _ in call["before"]["ms"]}
    out = []
    for n in call["final"]:
        for r in bases.get(n, []) + [r for f in by.get(n, []) for r in f]:
            if r in names_before and r not in fin:
                out.append((n, r))
    return sorted(set(out))


def expect_of(spec: dict) -> list:
    return [[a] for a in spec["objs"]]


def campaign_collapse(ck, n_docs: int) -> None:
    camp = ck.campaign("Model.Collapse.pass/removeUnused vs Parser.__collapse_root_models inside the real parse(): chains / diamonds / cycles of root models "
                       "(members after the pass, unused_models, list after the removal, dangling references) + the end-to-end oracle on every document")
    t0 = time.time()
    rng = ck.rng.fork("collapse-pass")
    from datamodel_code_generator.model.base import BaseClassDataType

    c11_repoint._real()
    c11_repoint._cache["BaseClassDataType"] = BaseClassDataType
    R = c11_repoint._real()
    specs = [dict(s) for s in CORPUS] + [gen_spec(rng) for _ in range(n_docs)]
    pending = []
    for k, spec in enumerate(specs):
        doc = build_doc(spec)
        opts = {"collapse_root_models": True}
        camp.evaluations += 1
        camp.hit("shape:" + spec["shape"])
        try:
            obs = run_real(ck, camp, R, doc, opts)
        except Hang:
            ck.fail({"oracle": "e2e-dups", "mechanism": "hang", "collapse_root_models": True}, {"target": "e2e-dups", "doc": doc, "expect": expect_of(spec), "opts": opts, "kind": KINDS[0]},
                    "parse() with collapse_root_models does not return within 20 s")
            continue
        except Exception as e:  # noqa: BLE001
            camp.hit(f"parse() raises {type(e).__name__}")
            obs = None
        # the property's own oracle on the real generator, whatever the model says
        c11_dups.dups_case(ck, _Quiet(camp), {"doc": doc, "expect": expect_of(spec), "opts": opts}, KINDS[k % 4] if k % 3 == 0 else KINDS[0])
        if obs is None:
            continue
        for call in obs.calls:
            if "outside" in call:
                camp.hit("outside the model: " + call["outside"])
                camp.unmodelled += 1
                continue
            pending.append((spec, doc, call))
    replies = ck.driver.run([c["before"]["req"] for _, _, c in pending]) if pending else []
    for (spec, doc, call), rep in zip(pending, replies):
        model = parse_reply(rep)
        inp = {"doc": doc, "spec": spec, "request": call["before"]["req"], "paths": call["before"]["paths"]}
        if model == "unmodelled":
            camp.hit("outside the model: a shared nested data type that points at a root model is copied")
            camp.unmodelled += 1
            continue
        if isinstance(model, str):
            ck.infra_errors.append(f"driver reply {model[:80]!r} for collapse.run")
            continue
        if not call["same_list"]:
            ck.disagree(camp, inp, "the pass itself leaves the list as it is (removal happens in parse())", "the list changed during the pass")
            continue
        impl = (call["after"], call["unused"], call["final"], real_dangling(call))
        n_removed = len(call["before"]["ms"]) - len(call["final"])
        camp.hit(f"root models removed: {min(n_removed, 4)}")
        camp.hit("dangling reference afterwards" if impl[3] else "no dangling reference")
        if any(r for _, r, _, _ in call["before"]["ms"]):
            camp.distinct.add(call["before"]["req"])
        if model != impl:
            ck.disagree(camp, inp, {"members": model[0], "unused": model[1], "list": model[2], "dangling": model[3]},
                        {"members": impl[0], "unused": impl[1], "list": impl[2], "dangling": impl[3]})
        elif len(camp.samples) < 3 and n_removed >= 2:
            camp.samples.append({"definitions": {k: v for k, v in doc["definitions"].items()}, "list_after": [call["before"]["paths"][i] for i in call["final"]], "dangling": impl[3]})
    camp.wall_s = time.time() - t0


class _Quiet:
    """dups_case counts and files its own features; the evaluations / distinct of this campaign are the pass comparisons"""

    def __init__(self, camp):
        self._c = camp
        self.evaluations = 0
        self.distinct = set()
        self.samples = [None, None]
        self.unmodelled = 0

    def hit(self, key, n=1):
        if key.startswith("kind:"):
            self._c.hit("oracle " + key, n)


def search_collapse(ck) -> None:
    """a theorem or the correspondence of the collapse model broke: every disagreeing document again under the
    end-to-end oracle for every output kind and with its definitions in every rotation, then a larger random block"""
    broken = " ".join(sorted({d.campaign for d in ck.disagreements}) + sorted(ck.broken))
    if "ollapse" not in broken and "collapse" not in broken:
        return
    camp = ck.campaign("search: root-model chains / diamonds / cycles under --collapse-root-models, end to end (all kinds, rotated definition order)")
    t0 = time.time()
    rng = ck.rng.fork("search-collapse")
    specs = [d.input["spec"] for d in ck.disagreements if isinstance(d.input, dict) and "spec" in d.input][:12]
    specs += [dict(s) for s in CORPUS]
    specs += [gen_spec(rng) for _ in range(400)]
    for spec in specs:
        order = spec["order"]
        for rot in range(len(order)):
            s2 = {**spec, "order": order[rot:] + order[:rot]}
            doc = build_doc(s2)
            for kind in KINDS:
                c11_dups.dups_case(ck, camp, {"doc": doc, "expect": expect_of(s2), "opts": {"collapse_root_models": True}}, kind)
                if ck.failures:
                    c11_dups.shrink_first(ck)
                    camp.wall_s = time.time() - t0
                    return
        if time.time() - t0 > (90 if ck.tier == "quick" else 480):
            break
    camp.wall_s = time.time() - t0
