"""C18 — running independent end-to-end campaigns side by side (the quick tier's wall-clock budget).

Every e2e campaign of C18 is a handful of stages of child processes; run one after the other, each stage waits for
its slowest child while most cores idle. `Part` is a view of the Check for ONE campaign running in its own thread:
its own result lists (merged into the Check in PROGRAM order by `run_parts`, so that the first reported failure,
the evidence and the replay file do not depend on thread timing) and its own random stream (forked from the Check's
stream in the main thread, in program order — so the inputs depend on VERIF_SEED only). `run_py` here is the shared
runner behind a process-wide semaphore: however many campaigns run side by side, at most SLOTS children exist.
"""
from __future__ import annotations

import os
import threading
import traceback

from ..runner import Check
from ..subproc import WORKERS, run_py as _run_py

SLOTS = threading.BoundedSemaphore(max(WORKERS, 12))


TALLY: dict = {}
WATCHDOG_S = [120.0]   # per child; the quick tier lowers it (set by c18.run)
COUNT = [0]   # child processes started (reported by the check as a campaign-independent figure)


def run_py(*args, **kwargs):
    with SLOTS:
        COUNT[0] += 1
        if os.environ.get("VERIF_DEBUG"):
            import sys
            f = sys._getframe(1)
            names = []
            while f is not None and len(names) < 12:
                names.append(f.f_code.co_name)
                f = f.f_back
            key = next((n for n in names if n.startswith(("campaign_", "known_", "search_", "first", "repeated"))), names[0])
            TALLY[key] = TALLY.get(key, 0) + 1
        kwargs.setdefault("timeout", WATCHDOG_S[0])
        return _run_py(*args, **kwargs)


class Part:
    def __init__(self, ck: Check, stream: str) -> None:
        self._ck = ck
        self.rng = ck.rng.fork(stream)
        self.campaigns: list = []
        self.failures: list = []
        self.disagreements: list = []
        self.infra_errors: list = []
        self.known_hits: dict = {}

    def __getattr__(self, name: str):   # tier, prop, seed, findings, … (read-only use)
        return getattr(self._ck, name)

    campaign = Check.campaign
    fail = Check.fail
    disagree = Check.disagree

    def merge(self) -> None:
        ck = self._ck
        ck.campaigns += self.campaigns
        ck.failures += self.failures
        ck.disagreements += self.disagreements
        ck.infra_errors += self.infra_errors
        for k, v in self.known_hits.items():
            ck.known_hits[k] = ck.known_hits.get(k, 0) + v


def run_parts(ck: Check, jobs: list) -> None:
    """jobs: (stream name, fn(part)) — all started together, merged in the order given"""
    parts = [Part(ck, name) for name, _fn in jobs]

    def go(part: Part, fn) -> None:
        try:
            fn(part)
        except Exception:  # noqa: BLE001
            part.infra_errors.append("campaign thread: " + traceback.format_exc()[-600:])

    threads = [threading.Thread(target=go, args=(p, fn), daemon=True) for p, (_n, fn) in zip(parts, jobs)]
    for t in threads:
        t.start()
    for t in threads:
        t.join()
    for p in parts:
        p.merge()
